#!/usr/bin/env python3
"""check driver:  ./check <ID> [--tier quick|thorough] [--replay FILE] | setup | list"""
import concurrent.futures as cf
import hashlib
import importlib
import json
import os
import re
import shutil
import subprocess
import sys
import time
import traceback

ROOT = os.path.dirname(os.path.dirname(os.path.abspath(__file__)))
sys.path.insert(0, ROOT)
from vx import gen, run, witness  # noqa: E402
from vx.rlex import LostAnchor, LexError  # noqa: E402
from vx.rules import Unsupported  # noqa: E402

WORK = os.path.join(ROOT, '.work')
REPO = gen.REPO


def registry():
    from contracts import registry as reg
    return reg


def label_props(label):
    head = label.split('.', 1)[0]
    return [p for p in head.split('+') if re.match(r'^C\d+$', p)]


def norm_kind(msg):
    m = msg.lower()
    if 'overflow' in m or 'underflow' in m:
        return 'arith-overflow'
    if 'division by zero' in m:
        return 'div-zero'
    if 'decreases' in m or 'termination' in m:
        return 'termination'
    if 'precondition' in m:
        return 'precondition'
    if 'postcondition' in m:
        return 'postcondition'
    if 'invariant' in m:
        return 'invariant'
    if 'assertion' in m:
        return 'assertion'
    return re.sub(r'[^a-z]+', '-', m)[:30]


class UnitRun:
    def __init__(self, modname):
        self.modname = modname
        self.mod = None
        self.unit = None
        self.g = None
        self.res = None
        self.canary = None
        self.canary_g = None
        self.undecided = []      # list of (reason, detail)
        self.obligs = []         # failed obligations: dict(name, props, message, repo_sites, rendered, fn)
        self.seed_results = []


def classify(ur):
    """turn verus diagnostics of ur.res into named obligations / undecided reasons."""
    g, res = ur.g, ur.res
    if res.tool_errors:
        for e in res.tool_errors:
            ur.undecided.append(('unsupported-construct', (e.get('message', '') + ' ' + e.get('rendered', ''))[:1500]))
    for e in res.rlimit_hit:
        ur.undecided.append(('rlimit', e['message'] + ' ' + e.get('rendered', '')[:500]))
    for e in res.failed:
        labels, repo_sites, hints, prelude, autos, fnn, xprops = [], [], 0, 0, [], None, []
        for (f, a, b, prim, lab) in e['spans']:
            if not f.endswith(os.path.basename(ur.path)):
                continue
            o = g.origin[a - 1] if 0 < a <= len(g.origin) else {'origin': 'prelude'}
            fnn = fnn or o.get('fn')
            xprops += list(o.get('props', ()))
            if o['origin'] == 'contract' and o.get('label'):
                if o['label'].startswith('auto.'):
                    autos.append(o['label'])
                else:
                    labels.append(o['label'])
            elif o['origin'] == 'repo':
                repo_sites.append((o['file'], o['line'], g.lines[a - 1].strip()))
            elif o['origin'] == 'hint':
                hints += 1
            elif o['origin'] == 'contract':
                autos.append('unlabelled-clause@%d' % a)
            else:
                prelude += 1
        kind = norm_kind(e['message'])
        if labels:
            name = labels[0]
            props = label_props(name)
        elif autos:
            ur.undecided.append(('tool', 'auto/unlabelled clause failed: %s %s' % (autos, e['message'])))
            continue
        elif hints and not repo_sites:
            ur.undecided.append(('proof-hint', 'a proof hint no longer verifies: ' + e['rendered'][:600]))
            continue
        elif repo_sites:
            f, ln, txt = repo_sites[-1] if kind == 'precondition' else repo_sites[0]
            # for precondition failures the primary span is the call site (is_primary)
            for (ff, a, b, prim, lab) in e['spans']:
                o = g.origin[a - 1] if 0 < a <= len(g.origin) else {}
                if prim and o.get('origin') == 'repo':
                    f, ln, txt = o['file'], o['line'], g.lines[a - 1].strip()
            txt = ' '.join(txt.split())
            name = 'SAFETY:%s:%s:%s' % (fnn, kind, txt[:80])
            props = ['C05'] + list(getattr(ur.unit.fns.get(fnn), 'props', ()) if fnn in ur.unit.fns else ()) + xprops
        elif hints:
            ur.undecided.append(('proof-hint', 'a proof hint no longer verifies: ' + e['rendered'][:600]))
            continue
        else:
            ur.undecided.append(('tool', 'failure inside the prelude (own lemma): ' + e['rendered'][:600]))
            continue
        ur.obligs.append({'name': name, 'props': props, 'message': e['message'], 'kind': kind,
                          'repo_sites': repo_sites, 'rendered': e['rendered'], 'fn': fnn, 'unit': ur.unit.name})


def run_unit(modname, tier, seed):
    ur = UnitRun(modname)
    try:
        ur.mod = importlib.import_module('contracts.' + modname)
        ur.unit = ur.mod.UNIT
        os.makedirs(WORK, exist_ok=True)
        tag = hashlib.sha1(REPO.encode()).hexdigest()[:6]
        ur.g = gen.generate(ur.unit, canary=False, tier=tier)
        # one directory per process: several checks (different properties sharing a unit) may run at the same time
        pdir = os.path.join(WORK, 'p%d' % os.getpid())
        os.makedirs(pdir, exist_ok=True)
        ur.path = os.path.join(pdir, '%s_%s.rs' % (modname, tag))
        open(ur.path, 'w').write(ur.g.text())
        ur.canary_g = gen.generate(ur.unit, canary=True, tier=tier)
        cpath = os.path.join(pdir, '%s_%s_canary.rs' % (modname, tag))
        open(cpath, 'w').write(ur.canary_g.text())
    except LostAnchor as e:
        ur.undecided.append(('lost-anchor', str(e)))
        return ur
    except (Unsupported, LexError) as e:
        ur.undecided.append(('unsupported-construct', 'vx: ' + str(e)))
        return ur
    rlimit = getattr(ur.mod, 'RLIMIT', 30)
    with cf.ThreadPoolExecutor(max_workers=2) as ex:
        f1 = ex.submit(run.run_verus, ur.path, rlimit)
        f2 = ex.submit(run.run_verus, cpath, rlimit, (), False)
        ur.res = f1.result()
        ur.canary = f2.result()
    classify(ur)
    # vacuity: every canary assert(false) must be reported as failing
    if ur.canary.tool_errors:
        ur.undecided.append(('vacuity', 'canary file rejected: ' + str(ur.canary.tool_errors[0].get('message'))[:300]))
    else:
        hit = set()
        for e in ur.canary.failed:
            for (f, a, b, prim, lab) in e['spans']:
                if a in ur.canary_g.canary_lines:
                    hit.add(a)
        missing = [v for k, v in ur.canary_g.canary_lines.items() if k not in hit]
        ur.canary_total = len(ur.canary_g.canary_lines)
        ur.canary_hit = len(hit)
        if missing:
            ur.undecided.append(('vacuity', 'canary assert(false) verified (contradictory contract?) at: %s' % missing[:5]))
    if tier == 'thorough' and ur.res is not None:
        for sd in (1, 2):
            r2 = run.run_verus(ur.path, rlimit, ('--smt-option', 'smt.random_seed=%d' % (sd + 7 * seed)), False)
            ur.seed_results.append({'seed': sd + 7 * seed, 'ok': r2.ok, 'errors': r2.errors, 'wall_s': round(r2.wall_s, 2)})
    return ur


def load_known():
    out = []
    p = os.path.join(ROOT, 'known_findings.jsonl')
    if os.path.exists(p):
        for ln in open(p):
            ln = ln.strip()
            if ln.startswith('{'):
                out.append(json.loads(ln))
    return out


def scan_assumptions(g):
    """mechanical scan of the generated file for trusted constructs."""
    text = g.text()
    out = {}
    for kw in ('external_body', 'assume_specification', 'uninterp spec fn', 'axiom fn', 'assume(', 'admit(',
               'exec_allows_no_decreases_clause', 'external_fn_specification', 'external_type_specification'):
        n = text.count(kw)
        if n:
            out[kw] = n
    return out


def main(argv):
    if len(argv) < 2:
        print(__doc__)
        return 2
    cmd = argv[1]
    tier = os.environ.get('VERIF_TIER') or 'quick'
    seed = int(os.environ.get('VERIF_SEED') or 0)
    replay = None
    i = 2
    while i < len(argv):
        if argv[i] == '--tier':
            tier = os.environ.get('VERIF_TIER') or argv[i + 1]; i += 2
        elif argv[i] == '--replay':
            replay = argv[i + 1]; i += 2
        else:
            i += 1
    reg = registry()
    if cmd == 'setup':
        return witness.setup()
    if cmd == 'all':
        rc = 0
        for p_ in sorted(reg.PROPERTY_UNITS):
            r_ = subprocess.run([sys.executable, os.path.abspath(__file__), p_, '--tier', tier])
            rc = max(rc, r_.returncode)
        return rc
    if cmd == 'list':
        for p, us in sorted(reg.PROPERTY_UNITS.items()):
            print(p, us)
        return 0
    pid = cmd
    if replay:
        return witness.replay_file(pid, replay)
    if pid not in reg.PROPERTY_UNITS:
        print('property %s is not claimed (see MANIFEST.json not_applicable)' % pid)
        return 2
    t0 = time.time()
    mods = reg.PROPERTY_UNITS[pid]
    with cf.ThreadPoolExecutor(max_workers=8) as ex:
        urs = list(ex.map(lambda m: run_unit(m, tier, seed), mods))
    extra = []
    if hasattr(reg, 'EXTRA_ENGINES'):
        for name, fnc in reg.EXTRA_ENGINES.get(pid, []):
            try:
                extra.append(fnc(tier, seed))
            except Exception as e:  # noqa
                extra.append({'engine': name, 'undecided': [('tool', traceback.format_exc()[-800:])], 'obligs': [],
                              'obligations': 0, 'discharged': 0})
    known = [k for k in load_known() if k['property'] == pid]
    mine, undecided = [], []
    for ur in urs:
        for o in ur.obligs:
            if pid in o['props']:
                mine.append(o)
        for rsn, det in ur.undecided:
            undecided.append((ur.modname, rsn, det))
    for ex_ in extra:
        for o in ex_.get('obligs', []):
            if pid in o['props']:
                mine.append(o)
        for rsn, det in ex_.get('undecided', []):
            undecided.append((ex_['engine'], rsn, det))
    # de-duplicate by name
    seen, uniq = set(), []
    for o in mine:
        if o['name'] in seen:
            continue
        seen.add(o['name']); uniq.append(o)
    mine = uniq
    violations, known_lines, notes = [], [], []
    wit_cache, reported = {}, set()
    known_obl_names = []
    os.makedirs(os.path.join(ROOT, 'replays'), exist_ok=True)
    for o in mine:
        ks = [k for k in known if k.get('status') == 'known' and witness.match_obligation(k, o)]
        handled = False
        for k in ks:
            key_ = json.dumps(k, sort_keys=True)
            if key_ not in wit_cache:
                wit_cache[key_] = witness.run_witness(k.get('witness'), tier)
            ok, detail = wit_cache[key_]
            if ok:   # witness still fails on the real code
                if key_ not in reported:   # one line per listed finding, however many obligations / inputs of its class fail
                    reported.add(key_)
                    known_lines.append('KNOWN-FINDING: property=%s %s [obligation %s; witness: %s]' % (pid, k['class'], o['name'], detail))
                known_obl_names.append(o['name'])
                handled = True
                break
        if handled:
            continue
        # unlisted (or listed but its witness no longer reproduces): violation
        w = witness.search(pid, o, tier, seed)
        safe = re.sub(r'[^A-Za-z0-9_.+-]+', '_', o['name'])[:80]
        if safe != o['name']:   # keep distinct obligations in distinct files
            safe += '-' + hashlib.sha1(o['name'].encode('utf-8')).hexdigest()[:8]
        rp = os.path.join(ROOT, 'replays', '%s-%s.json' % (pid, safe))
        json.dump({'property': pid, 'obligation': o['name'], 'unit': o.get('unit'), 'function': o.get('fn'),
                   'verus_message': o['message'], 'verus_output': o['rendered'], 'repo_sites': o['repo_sites'],
                   'witness': w, 'how_to_rerun': './check %s --replay %s' % (pid, rp),
                   'note': 'listed-but-witness-does-not-reproduce' if ks else None}, open(rp, 'w'), indent=1)
        violations.append((o, rp, w))
    stale = [k for k in known if k.get('status') == 'known' and not any(witness.match_obligation(k, o) for o in mine)]
    for k in stale:
        notes.append('note: known finding %r: its obligation verifies now (stale entry?)' % k['class'])

    # ---------------- evidence
    fn_list, rewrites, trusted, samples, solver_ms, scan = [], [], [], [], {}, {}
    obligations = discharged = known_failing = other_failing = 0
    known_names = set(k2 for k2 in known_obl_names)
    checker_cmds = []
    for ur in urs:
        if ur.g is None:
            continue
        trusted += list(getattr(ur.mod, 'TRUSTED', []))
        for k, v in ur.g.fn_info.items():
            fn_list.append({'unit': ur.unit.name, 'item': k, **v})
        rewrites += [dict(r, unit=ur.unit.name) for r in ur.g.rewrites]
        for kw, n in scan_assumptions(ur.g).items():
            scan['%s:%s' % (ur.unit.name, kw)] = n
        if ur.res is None:
            continue
        checker_cmds.append(ur.res.cmd)
        crate = os.path.basename(ur.path)[:-3]
        n_ob = sum(v for k, v in ur.res.obligations.items() if k.startswith(crate + '::'))
        n_fail = len([o for o in ur.obligs])
        n_known = len([o for o in ur.obligs if pid in o['props'] and o['name'] in known_names])
        n_other = len([o for o in ur.obligs if pid not in o['props']])
        # obligations listed as known findings, and failed obligations that belong to other properties only,
        # are reported separately and are not part of this property's proof claim
        obligations += n_ob - n_known - n_other
        discharged += max(0, n_ob - n_fail)
        known_failing += n_known
        other_failing += n_other
        for k, v in ur.res.fn_times.items():
            solver_ms['%s:%s' % (ur.unit.name, k.split('::', 1)[-1])] = round(v['ms'], 1)
        for lab, inf in sorted(ur.g.labels.items()):
            if pid in label_props(lab):
                failed = any(o['name'] == lab for o in ur.obligs)
                samples.append({'obligation': lab, 'fn': inf['fn'], 'kind': inf['kind'], 'unit': ur.unit.name,
                                'result': 'FAILED' if failed else 'discharged'})
    for ex_ in extra:
        obligations += ex_.get('obligations', 0)
        discharged += ex_.get('discharged', 0)
        trusted += ex_.get('trusted', [])
        samples += ex_.get('samples', [])
        checker_cmds += ex_.get('checker_cmds', [])
        for k, v in ex_.get('solver_ms', {}).items():
            solver_ms[k] = v
    if pid == 'C05':
        for ur in urs:
            if ur.res is None:
                continue
            for k, n in sorted(ur.res.obligations.items()):
                samples.append({'obligation': 'implicit safety obligations (index/unwrap/overflow/termination) of %s' % k.split('::', 1)[-1],
                                'count': n, 'unit': ur.unit.name})
    for o in mine:
        if o['name'].startswith('SAFETY:'):
            samples.append({'obligation': o['name'], 'result': 'FAILED'})
    ev = {
        'property_id': pid, 'tier': tier, 'seed': seed, 'level': 'proof',
        'coverage': {
            'obligations': obligations, 'discharged': discharged,
            'checker_cmd': ' ; '.join(checker_cmds) or 'none (generation failed)',
            'trusted_base': sorted(set(trusted)),
            'samples': samples[:200],
            'functions_under_contract': fn_list,
            'backends': {'verus': next((ur.res.version for ur in urs if ur.res), ''), 'smt': 'z3 (bundled with verus)',
                         **{e['engine']: e.get('backend', '') for e in extra}},
            'solver_ms': solver_ms,
            'rewrites_applied': len(rewrites),
            'rewrites': rewrites[:400],
            'assumption_scan': scan,
            'canary': {ur.unit.name: '%d/%d assert(false) canaries rejected' % (getattr(ur, 'canary_hit', 0), getattr(ur, 'canary_total', 0)) for ur in urs if ur.g},
            'seed_stability': {ur.unit.name: ur.seed_results for ur in urs if ur.seed_results},
            'bounded': [b for e in extra for b in e.get('bounded', [])],
            'known_findings_replayed': known_lines,
            'known_failing_obligations': known_failing,
            'failing_obligations_of_other_properties_in_shared_units': other_failing,
            'undecided': [list(u) for u in undecided],
            'explanation': 'obligations = number of assert nodes in the initial AIR of every function/lemma of the units serving this property '
                           '(labelled contract clauses, loop invariants, callee preconditions, and the implicit index/unwrap/overflow/termination obligations); '
                           'discharged = obligations minus failed diagnostics.',
        },
        'assumptions': sorted(set(trusted)),
        'wall_s': round(time.time() - t0, 2),
        'violations': len(violations),
    }
    # a run against a scratch copy (VX_REPO, used for seeded changes) must not overwrite the evidence of /repo
    evdir = os.path.join(ROOT, 'evidence') if REPO == '/repo' else os.path.join(WORK, 'evidence-scratch')
    os.makedirs(evdir, exist_ok=True)
    json.dump(ev, open(os.path.join(evdir, '%s.json' % pid), 'w'), indent=1)

    for ln in known_lines:
        print(ln)
    for ln in notes:
        print(ln)
    for o, rp, w in violations:
        print('VIOLATION property=%s replay=%s obligation=%s%s' % (pid, rp, o['name'].replace(' ', '_'), '' if (w and w.get('found')) else ' no-failing-input-found'))
    if violations:
        return 1
    if undecided:
        for u in undecided:
            print('UNDECIDED property=%s reason=%s unit=%s detail=%s' % (pid, u[1], u[0], ' '.join(str(u[2]).split())[:400]))
        return 2
    print('OK property=%s tier=%s obligations=%d discharged=%d known_findings=%d wall=%.1fs' %
          (pid, tier, obligations, discharged, len(known_lines), time.time() - t0))
    return 0


if __name__ == '__main__':
    rc_ = 2
    try:
        rc_ = main(sys.argv)
    finally:
        shutil.rmtree(os.path.join(WORK, 'p%d' % os.getpid()), ignore_errors=True)
    sys.exit(rc_)
