"""Enumerated inputs per property for the bounded stand-in engine (vx/bounded.py).  Every expected result is derived from the
property statement (properties.jsonl), not from the implementation.  `area` names the part of the code a case exercises."""
import itertools
import random

PARGS = '#!/bin/sh\nfor a in "$@"; do printf "[%s]\\n" "$a"; done\n'
ST = '#!/bin/sh\necho "$1"; exit $2\n'      # st <text> <status>


def _argv(words):
    return ''.join('[%s]\n' % w for w in words)


def _sample(lst, n, seed):
    lst = list(lst)
    random.Random(seed).shuffle(lst)
    return lst[:n]


# ------------------------------------------------------------------ C10: parameter expansion
def c10(tier, seed):
    _c10_extra = [
        {'script': 'PRICE=3\necho "$1 costs $PRICE"\necho $1-${PRICE}-$?\n', 'args': ['100$'], 'files': {'st': ST}, 'expect_stdout': '100$ costs 3\n100$-3-0\n', 'area': 'expand_env:reference-next-to-a-positional-parameter-whose-value-has-a-dollar'},
        {'line': 'MSG=\'he said "ok"\'; COPY="$MSG"; ./pargs "$COPY"; export C2="${MSG}"; printenv C2; C3="$MSG" printenv C3; Q=\'""x""\'; R="$Q"; ./pargs "$R"', 'files': {'pargs': PARGS},
         'expect_stdout': '[he said "ok"]\nhe said "ok"\nhe said "ok"\n[""x""]\n', 'area': 'expand_env:value-that-ends-in-a-quote-character'},
        {'script': 'A=$$\nfunction f() {\n    ./eq $$ $A && ./st same 0\n}\nf\nf | cat\n./st x 0 | f\n', 'files': {'eq': EQ, 'st': ST}, 'expect_stdout_prefix': 'same\nsame\n', 'area': 'expand_env:pid-inside-a-function-used-as-a-pipeline-stage'},
        {'script': 'if ./st t 3\n    ./st no 0\nelse\n    ./st "else:$?" 0\nfi\nif ./st u 4\n    ./st no 0\nelse if ./eq $? 4\n    ./st elif-saw-4 0\nfi\nwhile ./st w 5\n    ./st no 0\ndone\n./st "after:$?" 0\n', 'files': {'eq': EQ, 'st': ST},
         'expect_stdout': 't\nelse:3\nu\nelif-saw-4\nw\nafter:5\n', 'area': 'expand_env:status-of-a-failed-test-in-the-else-branch'},
    ]
    out = []
    env = {'A': 'x', 'AB': 'y z', 'B': '', 'C': 'a.b*c', 'D': 'p=q:r'}
    setup = "A=x; AB='y z'; B=; C='a.b*c'; D='p=q:r'; "
    segs = [('lit', ':'), ('lit', '-'), ('lit', '.'), ('lit', '/'), ('$', 'A'), ('${', 'A'), ('$', 'AB'), ('${', 'AB'), ('$', 'B'), ('${', 'C'), ('$', 'D'),
            ('$', 'NOPE'), ('${', 'NOPE')]

    def render(s):
        k, v = s
        return v if k == 'lit' else ('$' + v if k == '$' else '${' + v + '}')

    def value(s, prev_is_name):
        k, v = s
        return v if k == 'lit' else env.get(v, '')
    combos = []
    for n in (1, 2, 3):
        for t in itertools.product(segs, repeat=n):
            # `$A` directly followed by a literal name character would name another variable: keep literals non-name
            combos.append(t)
    for t in _sample(combos, 140 if tier == 'quick' else 900, seed):
        word = ''.join(render(s) for s in t)
        val = ''.join(value(s, False) for s in t)
        # double-quoted: exactly one argument holding the value
        out.append({'line': setup + './pargs "%s"' % word, 'files': {'pargs': PARGS}, 'expect_stdout': _argv([val]), 'area': 'expand_env:double-quoted'})
        # single-quoted: never expanded
        out.append({'line': setup + "./pargs '%s'" % word, 'files': {'pargs': PARGS}, 'expect_stdout': _argv([word]), 'area': 'expand_env:single-quoted'})
        # unquoted: the value (cicada does not field-split; a value with spaces stays one argument -- C12/C13 say produced words stay one argument)
        if val != '' and '*' not in val:
            out.append({'line': setup + './pargs %s' % word, 'files': {'pargs': PARGS}, 'expect_stdout': _argv([val]), 'area': 'expand_env:unquoted'})
    out.append({'line': 'sh -c "exit 7"; ./pargs "$?" $?', 'files': {'pargs': PARGS}, 'expect_stdout': _argv(['7', '7']), 'area': 'expand_env:status'})
    out.append({'line': './pargs "a$?b"', 'files': {'pargs': PARGS}, 'expect_stdout': _argv(['a0b']), 'area': 'expand_env:status'})
    # a value is inserted as text: a leading `~` in it is not the home directory; `$?` is refreshed by every command, also one that only assigns or cannot be planned
    out.append({'line': "A='~/x'; B='~'; ./pargs $A ${A}y \"$A\" $B ${U}~/z", 'files': {'pargs': PARGS}, 'expect_stdout': _argv(['~/x', '~/xy', '~/x', '~', '~/z']), 'area': 'expand_env:value-with-a-leading-tilde'})
    out.append({'line': 'sh -c "exit 3"; A=1; ./pargs $?; true; ./pargs x > ; ./pargs "${?}"', 'files': {'pargs': PARGS}, 'expect_stdout': _argv(['0']) + _argv(['1']), 'area': 'expand_env:status-after-a-line-without-a-pipeline'})
    # the single-quoted value of an assignment is never expanded -- names and the special parameters alike
    out.append({'line': "A='$?'; B='x$$y'; C='$HOME'; D='${?}'; ./pargs \"$A\" \"$B\" \"$C\" \"$D\"; alias st='echo $?'; sh -c 'exit 7'; st", 'files': {'pargs': PARGS},
                'expect_stdout': _argv(['$?', 'x$$y', '$HOME', '${?}']) + '7\n', 'area': 'expand_env:single-quoted-assignment-value'})
    # inside double quotes a single quote is an ordinary character: the reference between two of them is expanded
    out.append({'line': "A=val; ./pargs \"q='$A'\" \"a='${A}' b\" \"='$A'\" 'q=$A'", 'files': {'pargs': PARGS},
                'expect_stdout': _argv(["q='val'", "a='val' b", "='val'", 'q=$A']), 'area': 'expand_env:single-quotes-inside-double-quotes'})
    # a reference next to, and between, command substitutions
    out.append({'line': 'A=val; ./pargs $(echo x)$A$(echo y) "$(echo x)${A}$(echo y)" $A$(echo z) $(echo w)$A; V=$(echo p)$A$(echo q); ./pargs "$V"', 'files': {'pargs': PARGS},
                'expect_stdout': _argv(['xvaly', 'xvaly', 'valz', 'wval']) + _argv(['pvalq']), 'area': 'expand_env:reference-between-two-substitutions'})
    # a name ends at the first character that is not an ASCII letter, digit or underscore -- also when that character is a letter of another script
    out.append({'line': 'A=val; ./pargs "$Aé" "x$Aßy${A}z" $A名', 'files': {'pargs': PARGS}, 'expect_stdout': _argv(['valé', 'xvalßyvalz', 'val名']), 'area': 'expand_env:name-ends-at-non-ascii'})
    # the word list of a `for` in a script: arguments first, then variables -- an inserted value is not searched for positional parameters
    out.append({'script': "read L <<< 'a$1b'\nfor x in $L $1 $@\n    ./pargs \"$x\"\ndone\n", 'args': ['P', 'Q'], 'files': {'pargs': PARGS},
                'expect_stdout': _argv(['a$1b']) + _argv(['P']) + _argv(['P']) + _argv(['Q']), 'area': 'expand_env:for-list:value-not-searched-for-arguments'})
    # a word that spans several lines: the text around a reference is kept, references on every line are expanded
    out.append({'line': 'A=x; ./pargs "a\n$A" "b\n${A}c" "$A\nd${A}"', 'files': {'pargs': PARGS}, 'expect_stdout': _argv(['a\nx', 'b\nxc', 'x\ndx']), 'area': 'expand_env:multi-line-word'})
    out.append({'line': "sh -c 'echo $PPID' > f; X=$(cat f); ./pargs \"$$\" > g; Y=$(cat g); test \"[$X]\" = \"$Y\" && echo same", 'files': {'pargs': PARGS},
                'expect_stdout': 'same\n', 'area': 'expand_env:pid'})
    # single-quoted text is never expanded, also as the value part of a name='...' word (alias definitions, assignments, arguments)
    for ref in ('$A', '${A}', 'x${A}y', '$A$AB', '${AB}'):
        out.append({'line': "A=xvalx; AB=yvaly; ./pargs foo='%s'" % ref, 'files': {'pargs': PARGS}, 'expect_stdout_not_contains': 'val',
                    'expect_stdout_contains': ref, 'area': 'expand_env:single-quoted-value'})
        out.append({'line': "A=xvalx; AB=yvaly; alias zz='echo %s'; alias zz" % ref, 'files': {'pargs': PARGS}, 'expect_stdout_not_contains': 'val',
                    'expect_stdout_contains': ref, 'area': 'expand_env:single-quoted-value'})
    # values that contain `$`: inserted values are not scanned again (known: expand_env rescans)
    for v, ref in (('$A', 'A'), ('${A}', 'A'), ('$X', 'X')):
        out.append({'line': "A=x; X='%s'; ./pargs \"$X\"" % v, 'files': {'pargs': PARGS}, 'expect_stdout': _argv([v]), 'area': 'expand_env:value-with-dollar', 'timeout': 3})
    # ... but a `$` that does not start a reference to a named variable is not touched by the rescan
    for v in ('$1', 'a$', '$', 'a$ b', '${2}x', '$0', '100$', '$-'):
        out.append({'line': "X='%s'; ./pargs \"$X\" \"p${X}\"" % v, 'files': {'pargs': PARGS}, 'expect_stdout': _argv([v, 'p' + v]),
                    'area': 'expand_env:value-with-plain-dollar', 'timeout': 3})
        # (followed by name characters the trailing `$` of the value would form a reference when the word is scanned again: known rescan class)
        out.append({'line': "X='%s'; ./pargs \"p${X}q\"" % v, 'files': {'pargs': PARGS}, 'expect_stdout': _argv(['p' + v + 'q']),
                    'area': 'expand_env:value-with-dollar', 'timeout': 3})
    out += _c10_extra
    return out


# ------------------------------------------------------------------ C11: command substitution
def c11(tier, seed):
    out = []
    texts = ['a', 'a b', '$1', '${x}', '$HOME', 'a\\b', '*', '{a,b}', 'x.y', 'a|b', '(', '[a]', '^$', 'a  b', 'é', '$(echo no)', '~', 'a`echo no`b']
    files = {'pargs': PARGS}
    for i, t in enumerate(texts):
        files['t%d' % i] = "#!/bin/sh\nprintf '%s\\n' '" + t + "'\n"
    for i, t in enumerate(texts):
        for form in ('$(%s)', '`%s`'):
            sub = form % ('./t%d' % i)
            rescan = 'substitution:output-contains-substitution-syntax' if ('$(' in t or '`' in t) else None
            out.append({'line': './pargs "%s"' % sub, 'files': files, 'expect_stdout': _argv([t]), 'area': rescan or 'substitution:double-quoted'})
            out.append({'line': './pargs "p%sq"' % sub, 'files': files, 'expect_stdout': _argv(['p' + t + 'q']), 'area': rescan or 'substitution:double-quoted'})
            if t not in ('*', '~') and '|' not in t:
                out.append({'line': './pargs p%sq' % sub, 'files': files, 'expect_stdout': _argv(['p' + t + 'q']), 'area': rescan or 'substitution:unquoted'})
    out += [
        {'line': './pargs $(./nl3)', 'files': {'pargs': PARGS, 'nl3': "#!/bin/sh\nprintf 'a\\n\\n\\n'\n"}, 'expect_stdout': _argv(['a']), 'area': 'substitution:trailing-newlines'},
        {'line': 'X=5; ./pargs $(echo $X)', 'files': {'pargs': PARGS}, 'expect_stdout': _argv(['5']), 'area': 'substitution:sees-variables'},
        {'line': 'echo x > n; ./pargs $(./once); cat n', 'files': {'pargs': PARGS, 'once': '#!/bin/sh\necho 1 >> n\necho r\n'}, 'expect_stdout': '[r]\nx\n1\n', 'area': 'substitution:once'},
        {'line': './pargs $(echo a)$(echo b)', 'files': {'pargs': PARGS}, 'expect_stdout': _argv(['ab']), 'area': 'substitution:several-in-one-word'},
        {'line': './pargs $(echo a) $(echo b) `echo c` x`echo d`', 'files': {'pargs': PARGS}, 'expect_stdout': _argv(['a', 'b', 'c', 'xd']), 'area': 'substitution:several-in-one-line'},
        {'line': './pargs $(echo a | tr a b)', 'files': {'pargs': PARGS}, 'expect_stdout': _argv(['b']), 'area': 'substitution:pipeline'},
        {'line': 'X=$(echo v); ./pargs "$X"', 'files': {'pargs': PARGS}, 'expect_stdout': _argv(['v']), 'area': 'substitution:assignment'},
        {'script': 'function g() {\n    if echo checking\n        echo body\n    fi\n    while ./once\n        echo round\n    done\n    if ./no\n        echo never\n    else\n        echo other\n    fi\n}\n./pargs "$(g)"\n',
         'files': {'pargs': PARGS, 'once': '#!/bin/sh\n[ -f mark ] && exit 1\ntouch mark\necho first\n', 'no': '#!/bin/sh\necho tested\nexit 1\n'},
         'expect_stdout': _argv(['checking\nbody\nfirst\nround\ntested\nother']), 'area': 'substitution:function:output-of-the-test-commands'},
        {'line': './pargs `echo a`/x `echo a | cat`b `echo p q`r `echo s` `echo t`$HOME/u `echo v`\\ w; ./pargs `echo y`|cat', 'files': {'pargs': PARGS},
         'expect_stdout_prefix': _argv(['a/x', 'ab', 'p qr', 's']), 'expect_stdout_contains': _argv(['v w']) + _argv(['y']), 'area': 'substitution:backquote:text-behind-it'},
        {'line': 'X=$(./tick); ./pargs $X; Y=`./tick`; ./pargs $Y; A=$(./tick) B=$(./tick); ./pargs $A$B; cat cnt', 'files': {'pargs': PARGS, 'tick': '#!/bin/sh\nn=$(cat cnt 2>/dev/null || echo 0); n=$((n+1)); echo $n > cnt; echo $n\n'},
         'expect_stdout': _argv(['1']) + _argv(['2']) + _argv(['34']) + '4\n', 'area': 'substitution:assignment:runs-once'},
        {'line': './pargs "a ` $(echo b)" "$(echo 1) ` $(echo 2)" "k ` $(echo \'$HOME\')"', 'files': {'pargs': PARGS}, 'expect_stdout': _argv(['a ` b', '1 ` 2', 'k ` $HOME']), 'area': 'substitution:lone-backquote-in-front'},
        {'line': 'X=old; X=$(./two); ./pargs "$X"; V=$(./two) printenv V', 'files': {'pargs': PARGS, 'two': '#!/bin/sh\necho l1\necho l2\n'}, 'expect_stdout': _argv(['l1\nl2']) + 'l1\nl2\n', 'area': 'substitution:assignment:multi-line-output'},
        {'line': 'cat <<< $(echo hs)', 'expect_stdout': 'hs\n', 'area': 'substitution:here-string'},
        {'line': './pargs x$(nosuchcmd-xyz)y', 'files': {'pargs': PARGS}, 'expect_stdout': _argv(['xy']), 'area': 'substitution:not-found', 'timeout': 5},
        {'line': './pargs x$(echo >)y', 'files': {'pargs': PARGS}, 'expect_stdout': _argv(['xy']), 'area': 'substitution:invalid', 'timeout': 5},
        {'line': './pargs x$(sh -c "exit 3")y; echo $?', 'files': {'pargs': PARGS}, 'expect_stdout': '[xy]\n0\n', 'area': 'substitution:failing'},
        {'line': './pargs $(sh -c "echo o; echo e >&2") 2> err; cat err', 'files': {'pargs': PARGS}, 'expect_stdout': '[o]\n', 'area': 'substitution:stderr'},
        {'line': "./pargs '$(echo a)' '`echo a`'", 'files': {'pargs': PARGS}, 'expect_stdout': _argv(['$(echo a)', '`echo a`']), 'area': 'substitution:single-quoted'},
        {'line': 'alias zz="echo al"; ./pargs $(zz)', 'files': {'pargs': PARGS}, 'expect_stdout': _argv(['al']), 'area': 'substitution:alias'},
        # KNOWN FINDINGS (recorded, not repaired) -- see known_findings.jsonl
        {'line': "./pargs $(echo '{a,b}')", 'files': {'pargs': PARGS}, 'expect_stdout': _argv(['{a,b}']), 'area': 'substitution:brace-pass-acts-on-the-inner-command-text'},
        {'line': 'mkdir dd; ./pargs "$(cd dd)"; basename $PWD', 'files': {'pargs': PARGS}, 'expect_stdout_last_line_not': 'dd', 'area': 'substitution:builtin-changes-the-shell-state'},
        {'line': "X=$(echo '\"hi\"'); ./pargs \"$X\"", 'files': {'pargs': PARGS}, 'expect_stdout': _argv(['"hi"']), 'area': 'substitution:assignment-value-unquoted-again'},
        {'line': "./pargs \"$(sh -c 'head -c 100000 /dev/zero >&2; echo done')\"", 'files': {'pargs': PARGS}, 'expect_stdout': _argv(['done']), 'timeout': 3, 'area': 'substitution:stderr-larger-than-a-pipe'},
        # the inner command is planned with its own quoting: a single-quoted $NAME inside it is not expanded by the outer line
        {'line': "A=val; ./pargs x$(echo '$A') $(echo $A)y \"$(echo '$A')z\"", 'files': {'pargs': PARGS}, 'expect_stdout': _argv(['x$A', 'valy', '$Az']), 'area': 'substitution:inner-quoting'},
        {'line': './pargs é$(echo x)z "naïve $(echo x) end" é`echo y`z $(echo éé)', 'files': {'pargs': PARGS}, 'expect_stdout': _argv(['éxz', 'naïve x end', 'éyz', 'éé']), 'area': 'substitution:multi-byte-text-around'},
        # a builtin as the last stage of a substituted pipeline
        {'line': 'alias zq=1; ./pargs "$(echo x | alias)"', 'files': {'pargs': PARGS}, 'expect_stdout_contains': 'zq', 'area': 'substitution:pipeline-ending-in-a-builtin'},
        # only trailing newlines are removed: blanks at either end belong to the output
        {'line': './pargs "[$(./ws)]" "[`./ws`]" "`./ws`"', 'files': {'pargs': PARGS, 'ws': "#!/bin/sh\nprintf '  x  \\n\\n'\n"}, 'expect_stdout': _argv(['[  x  ]', '[  x  ]', '  x  ']), 'area': 'substitution:blanks-kept'},
        # the inner command's stderr is not part of the result and is not lost
        {'line': './pargs "[$(./oe2)]" "`./oe2`"', 'files': {'pargs': PARGS, 'oe2': '#!/bin/sh\necho O\necho E-INNER >&2\n'}, 'expect_stdout': _argv(['[O]', 'O']), 'expect_stderr_contains': 'E-INNER', 'area': 'substitution:stderr-passed-on'},
        # braces in the output are text for the later range pass too
        {'line': "./pargs $(./rng) x$(./rng)y {1..2}", 'files': {'pargs': PARGS, 'rng': "#!/bin/sh\necho '{1..3}'\n"}, 'expect_stdout': _argv(['{1..3}', 'x{1..3}y', '1', '2']), 'area': 'substitution:output-with-range-braces'},
        {'line': "X=$(./rng); ./pargs \"$X\"; Y={1..2}; ./pargs \"$Y\"", 'files': {'pargs': PARGS, 'rng': "#!/bin/sh\necho '{1..3}'\n"}, 'expect_stdout': _argv(['{1..3}']) + _argv(['{1..2}']), 'area': 'substitution:output-with-range-braces:in-an-assignment'},
        # inside a substitution the statuses are real: a function called as $(f) short-circuits and sees $? like anywhere else
        {'script': 'function f() {\n    false && echo NO\n    sh -c "exit 3"\n    echo "st=$?"\n}\n./pargs "$(f)"\n', 'files': {'pargs': PARGS}, 'expect_stdout': _argv(['st=3']), 'area': 'substitution:function-statuses'},
    ]
    # a substitution that is the COMMAND word (alone, or behind leading assignments): its output is one word of data there as well
    out.append({'line': "echo precious > keep.txt; $(printf '%s' 'cat>keep.txt'); echo rc=$?; cat keep.txt; A=1 `printf '%s' 'cat>keep2.txt'`x; B=2 $(printf '%s' 'cat<nosuch'); ls | grep -c keep", 'files': {'pargs': PARGS},
                'expect_stdout': 'rc=127\nprecious\n1\n', 'area': 'substitution:in-command-position:output-is-data'})
    # several substitutions in one word: what an earlier one produced stays data whatever the later ones produce
    out.append({'line': "./pargs $(printf '%s' '{1..3}')$(echo c) $(printf '%s' 'a>b')$(echo c) $(printf '%s' 'x|y')$(echo z)$(echo w); ls", 'files': {'pargs': PARGS}, 'expect_stdout': _argv(['{1..3}c', 'a>bc', 'x|yzw']) + 'pargs\n',
                'area': 'substitution:several-in-one-word:earlier-output-stays-data'})
    # exhaustion while the capture pipes are made: a diagnostic and an empty replacement; a later substitution works
    for n in (7, 8, 9, 10):
        out.append({'line': 'ulimit -n %d; A=$(echo a | cat); ulimit -n 64; B=$(echo b); echo "[$B]"' % n, 'timeout': 8, 'expect_stdout': '[b]\n', 'area': 'substitution:descriptor-exhaustion:later-substitution-works'})
    for n in (7, 8):
        out.append({'line': 'ulimit -n %d; A=$(echo a | cat); B=$(echo b); C=$(echo c); ulimit -n 64; echo "[$B$C]"' % n, 'timeout': 8, 'expect_stdout': '[bc]\n', 'area': 'substitution:descriptor-exhaustion:later-substitution-works'})
    # a whole-word backquote command is run as written: the values of its references are data of the inner line
    out.append({'line': 'V="a|b"; ./pargs `echo $V`; P=\'$HOME\'; ./pargs `echo $P`; Q="it\'s"; ./pargs `echo $Q`', 'files': {'pargs': PARGS}, 'expect_stdout': _argv(['a|b']) + _argv(['$HOME']) + _argv(["it's"]), 'area': 'substitution:backquote:values-inside-are-data'})
    # an inner command that plans to no command at all: a diagnostic and an empty replacement, the line goes on
    out.append({'line': './pargs x$(echo a | )y; echo after; ./pargs `echo a |`; echo after2; ./pargs "$(W=1)"; echo after3', 'files': {'pargs': PARGS}, 'expect_stdout_contains': '[xy]\nafter\n', 'expect_stdout_last_line': 'after3', 'expect_rc': 0,
                'area': 'substitution:inner-command-without-a-command'})
    return out


# ------------------------------------------------------------------ C12: brace / range / tilde / glob
def _brace(term):
    """reference expansion of a brace term given as nested python structure: str | ('alt', [terms]) | ('cat', [terms])."""
    if isinstance(term, str):
        return [term]
    k, xs = term
    if k == 'alt':
        r = []
        for x in xs:
            r += _brace(x)
        return r
    r = ['']
    for x in xs:
        e = _brace(x)
        r = [a + b for a in r for b in e]
    return r


def _brace_text(term):
    if isinstance(term, str):
        return term
    k, xs = term
    if k == 'alt':
        return '{' + ','.join(_brace_text(x) for x in xs) + '}'
    return ''.join(_brace_text(x) for x in xs)


def c12(tier, seed):
    out = []
    rnd = random.Random(seed)
    terms = [
        ('cat', ['p', ('alt', ['a', 'b']), 'q']),
        ('cat', [('alt', ['a', 'b', 'c'])]),
        ('cat', [('alt', ['a', 'b']), ('alt', ['1', '2'])]),
        ('cat', ['x', ('alt', ['a', '']), 'y']),
        ('cat', [('alt', ['', 'a'])]),
        ('cat', [('alt', ['a', ('cat', ['b', ('alt', ['c', 'd'])])])]),
        ('cat', [('alt', [('cat', [('alt', ['a', 'b']), '1']), 'z'])]),
        ('cat', ['-', ('alt', ['a', 'b']), '-', ('alt', ['c', 'd']), '-', ('alt', ['e', 'f'])]),
        ('cat', [('alt', ['a', 'b', 'c', 'd']), '.txt']),
        ('cat', [('alt', [('alt', ['a', 'b']), ('alt', ['c', 'd'])])]),
    ]
    # random terms from the grammar of the property's quantifier: nesting depth <= 3, <= 4 alternatives, <= 3 groups per word, empty alternatives
    def gen(depth):
        parts = []
        ngroups = rnd.randint(1, 3) if depth == 0 else rnd.randint(0, 2)
        for g in range(ngroups):
            if rnd.random() < 0.6:
                parts.append(rnd.choice(['a', 'b', 'x', 'pre', '-', '.', '1']))
            alts = []
            for _ in range(rnd.randint(2, 4)):
                r_ = rnd.random()
                if r_ < 0.15:
                    alts.append('')
                elif r_ < 0.4 and depth < 2:
                    alts.append(gen(depth + 1))
                else:
                    alts.append(rnd.choice(['a', 'b', 'c', 'd', 'e1', 'f2']))
            if all(isinstance(a, str) and a == '' for a in alts):
                alts[0] = 'z'
            parts.append(('alt', alts))
        if rnd.random() < 0.5 or not parts:
            parts.append(rnd.choice(['q', 'y', '.txt', '2']))
        return ('cat', parts)
    for _ in range(40 if tier == 'quick' else 300):
        t = gen(0)
        if not any(isinstance(x, tuple) for x in t[1]):
            continue
        if len(_brace(t)) > 200:
            continue
        terms.append(t)
    for t in terms:
        txt = _brace_text(t)
        exp = _brace(t)
        out.append({'line': './pargs ' + txt, 'files': {'pargs': PARGS}, 'expect_stdout': _argv(exp), 'area': 'expand_brace'})
        out.append({'line': './pargs L %s R' % txt, 'files': {'pargs': PARGS}, 'expect_stdout': _argv(['L'] + exp + ['R']), 'area': 'expand_brace:order'})
        out.append({'line': "./pargs '%s' \"%s\"" % (txt, txt), 'files': {'pargs': PARGS}, 'expect_stdout': _argv([txt, txt]), 'area': 'expand_brace:quoted'})
    for txt, exp in (('{a,b}}', ['a}', 'b}']), ('}{a,b}', ['}a', '}b']), ('x}{a,b}y', ['x}ay', 'x}by']), ('{a,b}{', ['a{', 'b{'])):
        out.append({'line': './pargs ' + txt, 'files': {'pargs': PARGS}, 'expect_stdout': _argv(exp), 'area': 'expand_brace:group-next-to-unbalanced-brace'})
    # a group without a comma is text; the groups around it still expand
    for txt, exp in (('a{b}c{d,e}', ['a{b}cd', 'a{b}ce']), ('{a,{b}}', ['a', '{b}']), ('{x}{y,z}{w}', ['{x}y{w}', '{x}z{w}']), ('{p,q}{r}', ['p{r}', 'q{r}']),
                     ('{{a},b}', ['{a}', 'b'])):
        out.append({'line': './pargs ' + txt, 'files': {'pargs': PARGS}, 'expect_stdout': _argv(exp), 'area': 'expand_brace:group-without-comma'})
    for neg in ('{a,b', 'a,b}', '{a}', '{}', 'a{b'):
        out.append({'line': './pargs ' + neg, 'files': {'pargs': PARGS}, 'expect_stdout': _argv([neg]), 'area': 'expand_brace:unbalanced'})
    vals = [0, 1, -1, 3, -3, 9, 10, 11]
    rng = []
    for a in vals:
        for b in vals:
            for st in (None, 1, 2, 3):
                step = st or 1
                seq = list(range(a, b + 1, step)) if a <= b else list(range(a, b - 1, -step))
                rng.append(('{%d..%d%s}' % (a, b, '' if st is None else '..%d' % st), [str(x) for x in seq]))
    for txt, seq in _sample(rng, 60 if tier == 'quick' else 256, seed):
        out.append({'line': './pargs ' + txt, 'files': {'pargs': PARGS}, 'expect_stdout': _argv(seq), 'area': 'expand_brace_range'})
    out.append({'line': './pargs p{1..3}q', 'files': {'pargs': PARGS}, 'expect_stdout': _argv(['p1q', 'p2q', 'p3q']), 'area': 'expand_brace_range:affixes'})
    out.append({'line': './pargs a {1..2} b', 'files': {'pargs': PARGS}, 'expect_stdout': _argv(['a', '1', '2', 'b']), 'area': 'expand_brace_range:order'})
    # tilde: HOME is the temp dir the case runs in
    out.append({'line': './pargs ~ ~/x a~ "~" \'~\'; echo $HOME', 'files': {'pargs': PARGS}, 'expect_home_tilde': True, 'area': 'expand_home'})
    out.append({'line': './pargs ~/n~ ~/d/~x; echo $HOME', 'files': {'pargs': PARGS}, 'expect_home_tilde2': True, 'area': 'expand_home:only-the-leading-tilde'})
    out.append({'line': './pargs {a,b}{1..2} f{x,y}-{3..1}.t', 'files': {'pargs': PARGS}, 'expect_stdout': _argv(['a1', 'a2', 'b1', 'b2', 'fx-3.t', 'fx-2.t', 'fx-1.t', 'fy-3.t', 'fy-2.t', 'fy-1.t']), 'area': 'brace:group-and-range-in-one-word'})
    out.append({'script': 'mkdir plain; touch plain/a.txt plain/b.txt\nfor x in first my\\ dir/*.log "q r"/*.txt plain/*.txt last\n    ./pargs "$x"\ndone\n', 'files': {'pargs': PARGS},
                'expect_stdout': _argv(['first']) + _argv(['my dir/*.log']) + _argv(['q r/*.txt']) + _argv(['plain/a.txt']) + _argv(['plain/b.txt']) + _argv(['last']), 'area': 'glob:no-match-word-with-a-blank-stays-one-word'})
    # the items of a `for` list: every produced word is one item, whatever stands around it
    out.append({'script': 'for f in *.txt $(echo end)\n    ./pargs "$f"\ndone\nfor g in x{1,2}y "m n" $(echo 1 2)\n    ./pargs "$g"\ndone\nX=\'one two\'\nfor h in {a,b} "$X" $(echo c)\n    ./pargs "$h"\ndone\n',
                'files': {'pargs': PARGS, 'a.txt': '', 'b c.txt': '', 'd.txt': ''}, 'expect_stdout': _argv(['a.txt', 'b c.txt', 'd.txt', 'end', 'x1y', 'x2y', 'm n', '1', '2', 'a', 'b', 'one two', 'c']), 'area': 'for-list:produced-words-with-blanks-stay-one-item'})
    # many groups side by side are not nesting
    out.append({'line': 'echo first img/{' + ','.join('d%d{a,b}' % i for i in range(120)) + '}.png last | wc -w', 'expect_stdout': '242\n', 'area': 'brace:many-groups-side-by-side', 'timeout': 15})
    # the home directory is the one in effect when the word is expanded, not the first one ever looked up
    out.append({'line': './pargs ~ > /dev/null; export HOME=/tmp/h2; ./pargs ~ ~/y; HOME=/tmp/h3; ./pargs ~/z', 'files': {'pargs': PARGS},
                'expect_stdout': _argv(['/tmp/h2', '/tmp/h2/y']) + _argv(['/tmp/h3/z']), 'area': 'expand_home:after-HOME-changed'})
    out.append({'script': 'cd\nexport HOME=$PWD/sub\n./pargs ~/a\nbasename ~\n', 'files': {'pargs': PARGS}, 'expect_stdout_last_line': 'sub', 'area': 'expand_home:after-HOME-changed'})
    # glob
    pop = {'pargs': PARGS, 'a1': '', 'a2': '', 'b1': '', '.ahid': '', 'a b': ''}
    out += [
        {'line': './pargs a*', 'files': pop, 'expect_stdout': _argv(['a b', 'a1', 'a2']), 'area': 'expand_glob'},
        {'line': './pargs *1', 'files': pop, 'expect_stdout': _argv(['a1', 'b1']), 'area': 'expand_glob'},
        {'line': './pargs zz*', 'files': pop, 'expect_stdout': _argv(['zz*']), 'area': 'expand_glob:no-match'},
        {'line': './pargs "a*" \'a*\'', 'files': pop, 'expect_stdout': _argv(['a*', 'a*']), 'area': 'expand_glob:quoted'},
        {'line': './pargs L a* R', 'files': pop, 'expect_stdout': _argv(['L', 'a b', 'a1', 'a2', 'R']), 'area': 'expand_glob:order'},
        {'line': './pargs b* a*', 'files': pop, 'expect_stdout': _argv(['b1', 'a b', 'a1', 'a2']), 'area': 'expand_glob:order'},
        {'line': 'mkdir d; touch d/x d/y; ./pargs d/*', 'files': pop, 'expect_stdout': _argv(['d/x', 'd/y']), 'area': 'expand_glob:subdir'},
        # a word the pass cannot handle stays as it is and does not stop the others
        {'line': './pargs a* *[ b*', 'files': pop, 'expect_stdout': _argv(['a b', 'a1', 'a2', '*[', 'b1']), 'area': 'expand_glob:malformed-pattern-next-to-valid-ones'},
        {'line': './pargs {1..3} {99999999999..1} {2..1}', 'files': pop, 'expect_stdout': _argv(['1', '2', '3', '{99999999999..1}', '2', '1']), 'area': 'expand_brace_range:out-of-range-bound-next-to-valid-ones'},
        # hidden places: a `*` matches neither a hidden file nor anything below a hidden directory, unless the pattern spells the dot out
        {'line': 'mkdir d .hid d/.hs; touch d/x d/.h .hid/x d/.hs/x; ./pargs */x', 'files': pop, 'expect_stdout': _argv(['d/x']), 'area': 'expand_glob:hidden-directory'},
        {'line': 'mkdir d .hid d/.hs; touch d/x d/.h .hid/x d/.hs/x; ./pargs */*', 'files': pop, 'expect_stdout': _argv(['d/x']), 'area': 'expand_glob:hidden-directory'},
        {'line': 'mkdir d .hid d/.hs; touch d/x d/.h .hid/x d/.hs/x; ./pargs */*/x', 'files': pop, 'expect_stdout': _argv(['*/*/x']), 'area': 'expand_glob:hidden-directory'},
        {'line': 'mkdir d .hid; touch d/x .hid/x .hid/y; ./pargs .hid/* .h*/y', 'files': pop, 'expect_stdout': _argv(['.hid/x', '.hid/y', '.hid/y']), 'area': 'expand_glob:hidden-directory:spelled-out'},
        {'line': 'mkdir d; touch d/.only; ./pargs L d/* R', 'files': pop, 'expect_stdout': _argv(['L', 'd/*', 'R']), 'area': 'expand_glob:only-hidden-matches'},
        # text around a range is kept whatever script it is written in
        {'line': './pargs é{1..3}z año{-1..1}.txt 日本{3..1} x{1..2}ü', 'files': pop, 'expect_stdout': _argv(['é1z', 'é2z', 'é3z', 'año-1.txt', 'año0.txt', 'año1.txt', '日本3', '日本2', '日本1', 'x1ü', 'x2ü']), 'area': 'expand_range:multi-byte-text-around-it'},
        # unmatched `{` around a group: they stay as they are, the group inside is expanded -- and it takes no time
        {'line': './pargs ' + '{' * 30 + 'a,b} {a,{b} {a{,b} x{{a,b},c}y {a,b}{ {{{a,b},c}', 'files': pop,
         'expect_stdout': _argv(['{' * 29 + 'a', '{' * 29 + 'b', '{a,{b}', '{a', '{ab', 'xay', 'xby', 'xcy', 'a{', 'b{', '{a', '{b', '{c']), 'timeout': 5, 'area': 'expand_brace:unmatched-nesting'},
        {'line': 'mkdir -p t/m; touch t/m/.hid t/m/v1 t/m/v2; ./pargs t/m/* $HOME/t/m/v*', 'files': pop, 'expect_stdout_prefix': _argv(['t/m/v1', 't/m/v2']), 'expect_stdout_not_contains': '.hid', 'area': 'expand_glob:hidden-file-in-a-deeper-directory'},
    ]
    return out


# ------------------------------------------------------------------ C13: expansion results are data
def c13(tier, seed):
    out = []
    vals = ['a>b', '|', '&', 'x &', '<f', '2>&1', ';x', '#c', 'a|b', 'a;b', '>', '>>o', '&&', '||', 'a #c']
    for v in vals:
        setv = "V='%s'; " % v
        for form in ('$V', '${V}'):
            out.append({'line': setv + './pargs "%s"' % form, 'files': {'pargs': PARGS}, 'expect_stdout': _argv([v]), 'expect_only_files': ['pargs'], 'area': 'data:variable:double-quoted'})
            out.append({'line': setv + './pargs L "%s" R' % form, 'files': {'pargs': PARGS}, 'expect_stdout': _argv(['L', v, 'R']), 'expect_only_files': ['pargs'], 'area': 'data:variable:double-quoted'})
            if v not in ('~', '{a,b}', '$(echo no)', '`echo no`'):
                out.append({'line': setv + './pargs L %s' % form, 'files': {'pargs': PARGS}, 'expect_stdout': _argv(['L', v]), 'expect_only_files': ['pargs'], 'area': 'data:variable:unquoted'})
        for form in ("$(printf '%%s' '%s')", "`printf '%%s' '%s'`"):
            if "'" in v or '`' in v:
                continue
            f = form % v
            out.append({'line': './pargs "%s"' % f, 'files': {'pargs': PARGS}, 'expect_stdout': _argv([v]), 'expect_only_files': ['pargs'], 'area': 'data:substitution:double-quoted'})
            if v not in ('~', '{a,b}', '$(echo no)'):
                out.append({'line': './pargs L %s' % f, 'files': {'pargs': PARGS}, 'expect_stdout': _argv(['L', v]), 'expect_only_files': ['pargs'], 'area': 'data:substitution:unquoted'})
    # a NAME=value shaped word is an argument like any other unless the line starts with it (then it is an assignment and the value is data too)
    for v in ('a>b', 'x|y', '<f', '2>&1', 'r &', '>>o'):
        setv = "V='%s'; " % v
        for form in ('$V', '${V}', "$(printf '%%s' '%s')" % v, "`printf '%%s' '%s'`" % v):
            out.append({'line': setv + './pargs A=%s z' % form, 'files': {'pargs': PARGS}, 'expect_stdout': _argv(['A=' + v, 'z']), 'expect_only_files': ['pargs'], 'area': 'data:assignment-shaped-argument'})
            out.append({'line': setv + 'export A=%s; ./pargs "$A"' % form, 'files': {'pargs': PARGS}, 'expect_stdout': _argv([v]), 'expect_only_files': ['pargs'], 'area': 'data:assignment-shaped-argument:export'})
            out.append({'line': setv + 'A=%s; ./pargs "$A"' % form, 'files': {'pargs': PARGS}, 'expect_stdout': _argv([v]), 'expect_only_files': ['pargs'], 'area': 'data:assignment'})
            out.append({'line': setv + 'B=1 A=%s ./pargs A=%s' % (form, form), 'files': {'pargs': PARGS}, 'expect_stdout': _argv(['A=' + v]), 'expect_only_files': ['pargs'], 'area': 'data:assignment:prefix'})
    # a literal & in the word (a URL) does not make the value's operators syntax
    out.append({'line': "V='a>b'; ./pargs http://h/?a=1&b=$V x", 'files': {'pargs': PARGS}, 'expect_stdout': _argv(['http://h/?a=1&b=a>b', 'x']), 'expect_only_files': ['pargs'], 'area': 'data:variable:word-with-literal-ampersand'})
    # ... while a redirection the user wrote keeps working when its target comes from a variable
    out.append({'line': "F=ff; ./pargs hi >$F; cat ff", 'files': {'pargs': PARGS}, 'expect_stdout': _argv(['hi']), 'area': 'data:variable:written-redirection-still-works'})
    # a matched file name with range braces is one word
    out.append({'line': 'mkdir gb; touch "gb/{1..2}" gb/z; ./pargs gb/*', 'files': {'pargs': PARGS}, 'expect_stdout': _argv(['gb/z', 'gb/{1..2}']), 'area': 'data:glob:name-with-braces'})
    # a value used inside a substitution that is only part of the word is data there as well
    for v in ('a>b', 'x|y', '<f'):
        out.append({'line': "V='%s'; ./pargs $(echo $V)x \"x$(echo $V)\" x`echo $V` $V$(echo $V)$V" % v, 'files': {'pargs': PARGS},
                    'expect_stdout': _argv([v + 'x', 'x' + v, 'x' + v, v + v + v]), 'expect_only_files': ['pargs'], 'area': 'data:variable:inside-substitution-in-a-word'})
    for v in ('a>b', 'x|y'):
        out.append({'line': "V='%s'; ./pargs $(echo $V $(echo 1)) \"$(echo $(echo $V))\"" % v, 'files': {'pargs': PARGS}, 'expect_stdout': _argv([v + ' 1', v]), 'expect_only_files': ['pargs'], 'area': 'data:variable:inside-nested-substitution'})
    # KNOWN FINDING (recorded, not repaired): a value that contains $(...) or backquotes is executed by the later substitution pass
    out.append({'line': "V='$(touch pwned)'; ./pargs $V \"$V\"", 'files': {'pargs': PARGS}, 'expect_stdout': _argv(['$(touch pwned)', '$(touch pwned)']), 'expect_only_files': ['pargs'], 'area': 'data:value-with-substitution-syntax'})
    # ... the same through a file name (same known finding: whatever put the text into the word, the substitution pass scans it)
    out.append({'line': "./pargs *.txt", 'files': {'pargs': PARGS, '$(echo pwned).txt': ''}, 'expect_stdout': _argv(['$(echo pwned).txt']), 'area': 'data:value-with-substitution-syntax:file-name'})
    # a redirection written inside a command substitution is part of THAT command line: the word around it is still data
    out.append({'line': "X='>f'; ./pargs $X$(echo hi 2>/dev/null) $X`echo lo 2>/dev/null`", 'files': {'pargs': PARGS}, 'expect_stdout': _argv(['>fhi', '>flo']),
                'expect_only_files': ['pargs'], 'area': 'data:value-next-to-a-substitution-with-a-redirection'})
    # the here-string operator inside produced text
    out.append({'line': "V='<<<zzz'; ./pargs a $V b \"$V\" \"k${V}\" $(printf '%s' '<<<q') \"`printf '%s' 'x<<<y'`\"", 'files': {'pargs': PARGS},
                'expect_stdout': _argv(['a', '<<<zzz', 'b', '<<<zzz', 'k<<<zzz', '<<<q', 'x<<<y']), 'expect_only_files': ['pargs'], 'area': 'data:here-string-operator-in-a-value'})
    # an empty backquote pair in front does not shift where the later outputs (and their data tags) go
    out.append({'line': './pargs `` x `./gt` y', 'files': {'pargs': PARGS, 'gt': '#!/bin/sh\necho "a>b"\n'}, 'expect_stdout_contains': _argv(['', 'x', 'a>b', 'y']), 'expect_only_files': ['pargs', 'gt'], 'area': 'data:substitution:after-an-empty-backquote-pair'})
    names = ['a>b', 'x;y', 'p|q', 'r&', '#h', '2>&1']
    files = dict({'pargs': PARGS}, **{n: '' for n in names})
    out.append({'line': './pargs *', 'files': files, 'expect_stdout': _argv(sorted(names + ['pargs'])), 'expect_only_files': sorted(names + ['pargs']), 'area': 'data:glob'})
    # a value with blanks in COMMAND position names one program (there is no word splitting): a `#` inside it is not a comment either
    out.append({'line': "V='./pargs one #two three'; $V; echo rc=$?; W=$(printf '%s' './pargs four #five'); $W; echo rc=$?", 'files': {'pargs': PARGS}, 'expect_stdout_not_contains': '[one]', 'expect_stdout_last_line_not': 'rc=0', 'area': 'data:value-in-command-position'})
    # a builtin that composes a command line of its own from an argument: the argument stays one word of it
    out.append({'line': 'export VIRTUALENV_HOME=$HOME/v; mkdir v; export VIRTUALENV_PYBIN=$HOME/pargs; N="n;touch made"; vox create "$N"; M="m>made2"; vox create "$M"; K="k|./pargs PIPED"; vox create "$K"', 'files': {'pargs': PARGS},
                'expect_only_files': ['pargs', 'v'], 'expect_stdout_contains': '/v/k|./pargs PIPED]\n', 'expect_stdout_prefix': '[-m]\n[venv]\n', 'area': 'data:builtin-that-composes-a-line:vox-create'})
    # an executable text file the kernel refuses (no #! line): whatever is done about it, the expanded arguments stay arguments
    out.append({'line': "V='x;./mk'; ./prog $V last; ./prog $(echo 'y;./mk') z; W='q #c'; ./prog \"$W\" r; echo done", 'files': {'prog': 'echo prog-arg=[$1][$2]\n', 'mk': '#!/bin/sh\ntouch MARKER\n'},
                'expect_only_files': ['mk', 'prog'], 'expect_stdout_last_line': 'done', 'area': 'data:file-the-kernel-refuses-to-execute'})
    out.append({'script': "X='one two'\nfor h in {a,b} \"$X\" $(echo c)\n    ./pargs \"$h\"\ndone\n", 'files': {'pargs': PARGS}, 'expect_stdout': _argv(['a', 'b', 'one two', 'c']), 'area': 'data:for-list:double-quoted-value-stays-one-item'})
    # ... also when the pattern matches exactly ONE name
    for n in ('a>b.txt', 'p|q.txt', 'in<x.txt', 'r&.txt', 'a b.txt'):
        out.append({'line': './pargs L *.txt R', 'files': {'pargs': PARGS, n: ''}, 'expect_stdout': _argv(['L', n, 'R']), 'expect_only_files': ['pargs', n], 'area': 'data:glob:single-match'})
    # an assignment-shaped word whose name does not start like a name is an argument / a command like any other: its value is data too
    for v in ('cat>MADE', 'x|y', 'cat<NOSUCH'):
        out.append({'line': "V='%s'; 9lives=$V; 7up=$(printf '%%s' '%s'); echo done" % (v, v), 'files': {'pargs': PARGS}, 'expect_stdout_last_line': 'done', 'expect_only_files': ['pargs'], 'area': 'data:assignment-shaped-word:name-starting-with-a-digit'})
    return out


# ------------------------------------------------------------------ C17: aliases
def c17(tier, seed):
    P = {'pargs': PARGS}
    out = [
        {'line': "alias n='./pargs -x'; n a b", 'files': P, 'expect_stdout': _argv(['-x', 'a', 'b']), 'area': 'alias:use'},
        {'line': "alias n='./pargs -x'; echo q | n a", 'files': P, 'expect_stdout': _argv(['-x', 'a']), 'area': 'alias:after-pipe'},
        {'line': "alias n='./pargs -x'; true; n a", 'files': P, 'expect_stdout': _argv(['-x', 'a']), 'area': 'alias:after-semicolon'},
        {'line': "alias n='./pargs -x'; true && n a", 'files': P, 'expect_stdout': _argv(['-x', 'a']), 'area': 'alias:after-and'},
        {'line': "alias n='./pargs -x'; ./pargs n n", 'files': P, 'expect_stdout': _argv(['n', 'n']), 'area': 'alias:non-first-word'},
        {'line': "alias n='./pargs -x'; ./pargs a | n", 'files': P, 'expect_stdout': _argv(['-x']), 'area': 'alias:after-pipe'},
        {'line': "alias pargs='pargs self'; pargs a", 'files': P, 'expect_stdout': _argv(['self', 'a']), 'area': 'alias:self-reference', 'timeout': 5},
        {'line': "alias a1='./pargs one'; alias a2='a1 two'; a2 x; echo done", 'files': P, 'expect_stdout_last_line': 'done', 'area': 'alias:other-alias-does-not-loop', 'timeout': 5},
        {'line': "alias n='./pargs 1'; alias n='./pargs 2'; n", 'files': P, 'expect_stdout': _argv(['2']), 'area': 'alias:redefine'},
        {'line': "WHO=a; alias 2nd='./pargs $WHO'; WHO=b; 2nd; alias 2nd", 'files': P, 'expect_stdout': "[b]\nalias 2nd='./pargs $WHO'\n", 'area': 'alias:value-is-kept-as-written:name-starting-with-a-digit'},
        {'line': "alias n1='./pargs x'; n1; unalias n1; n1; echo rc=$?; echo q | n1; echo rc2=$?", 'files': P, 'expect_stdout': '[x]\nrc=127\nrc2=127\n', 'area': 'alias:unalias-then-use'},
        {'line': "alias cat='cat -n'; alias show='echo hi | cat'; show", 'files': P, 'expect_stdout': 'hi\n', 'area': 'alias:value-is-a-pipeline:its-later-stage-is-not-replaced-again', 'timeout': 5},
        {'line': "alias cat='cat -n'; alias tr='tr H J'; alias shout='tr a-z A-Z | cat | tr X Y'; echo hello | shout", 'files': P, 'expect_stdout': 'HELLO\n', 'area': 'alias:value-is-a-pipeline:its-later-stage-is-not-replaced-again', 'timeout': 5},
        {'line': "alias n='./pargs 1'; alias m='./pargs 2'; unalias n; m; alias n; echo rc=$?", 'files': P, 'expect_stdout_prefix': _argv(['2']), 'expect_stdout_last_line': 'rc=1', 'area': 'alias:unalias'},
        {'line': "alias n='./pargs \"a b\"'; n", 'files': P, 'expect_stdout': _argv(['a b']), 'area': 'alias:inner-quotes'},
        {'line': "alias n=\"./pargs 'a b'\"; n", 'files': P, 'expect_stdout': _argv(['a b']), 'area': 'alias:inner-quotes'},
        {'line': "alias n='./pargs a | cat'; n", 'files': P, 'expect_stdout': _argv(['a']), 'area': 'alias:pipe-in-value'},
        {'line': "alias my-n.1_x='./pargs ok'; my-n.1_x", 'files': P, 'expect_stdout': _argv(['ok']), 'area': 'alias:name-charset'},
        {'line': "alias up='tr a-z A-Z'; alias hi='echo hello'; alias hi | up; alias cnt='wc -l'; alias | cnt", 'files': P, 'expect_stdout': "ALIAS HI='ECHO HELLO'\n3\n", 'area': 'alias:stage-after-the-alias-builtin'},
        {'line': "alias srt='sort|uniq'; alias te='true|./pargs'; printf 'b\\na\\nb\\n' | srt; te hi", 'files': P, 'expect_stdout': 'a\nb\n' + _argv(['hi']), 'area': 'alias:value-without-a-blank-is-still-a-command-line'},
        {'line': "alias ll='./pargs a'; alias LL='./pargs b'; alias | sort; ll; LL", 'files': P, 'expect_stdout': "alias LL='./pargs b'\nalias ll='./pargs a'\n" + _argv(['a']) + _argv(['b']), 'area': 'alias:names-differing-in-case'},
        {'line': "alias n=; unalias n; echo rc=$?; alias", 'files': P, 'expect_stdout': 'rc=0\n', 'area': 'alias:unalias-empty-value'},
        {'line': "alias v1.2='./pargs dotted'; v1.2; unalias v1.2; echo rc=$?; alias; alias a-b_c.d=x; unalias a-b_c.d; alias", 'files': P, 'expect_stdout': _argv(['dotted']) + 'rc=0\n', 'area': 'alias:unalias:name-charset'},
        {'line': "alias e=''; alias e; e ./pargs hi; alias | grep -c 'e='; true | e ./pargs p", 'files': P, 'expect_stdout': "alias e=''\n" + _argv(['hi']) + '1\n' + _argv(['p']), 'area': 'alias:empty-value'},
        {'line': "alias -x='./pargs hi'; alias -x; alias x-y='./pargs yo'; alias x-y; alias .z='./pargs zz'; alias .z", 'files': P,
         'expect_stdout': "alias -x='./pargs hi'\nalias x-y='./pargs yo'\nalias .z='./pargs zz'\n", 'area': 'alias:name-charset:list-one'},
        {'line': "alias g-s='./pargs \"x y\"'; g-s", 'files': P, 'expect_stdout': _argv(['x y']), 'area': 'alias:name-charset:inner-quotes'},
        {'line': "alias g.s=\"./pargs 'x y'\"; g.s", 'files': P, 'expect_stdout': _argv(['x y']), 'area': 'alias:name-charset:inner-quotes'},
        {'line': "alias g-s='\"./pargs\" x'; g-s", 'files': P, 'expect_stdout': _argv(['x']), 'area': 'alias:name-charset:inner-quotes'},
        {'line': "alias g_s='\"./pargs\" x'; g_s", 'files': P, 'expect_stdout': _argv(['x']), 'area': 'alias:inner-quotes'},
        {'line': "alias g-s='./pargs -o \"x y\" end'; g-s", 'files': P, 'expect_stdout': _argv(['-o', 'x y', 'end']), 'area': 'alias:name-charset:inner-quotes'},
    ]
    # listing recreates the definitions when fed back
    for name, val, exp in (('n', './pargs -x', ['-x']), ('n', './pargs "a b"', ['a b']), ('n', "./pargs 'a b'", ['a b']), ('n', './pargs a | cat', ['a']),
                           ('my-n.1_x', './pargs z', ['z'])):
        q = "'" if "'" not in val else '"'
        out.append({'script': 'alias %s=%s%s%s\nalias > defs\nunalias %s\nsource defs\n%s\n' % (name, q, val, q, name, name), 'files': P,
                    'expect_stdout': _argv(exp), 'area': 'alias:listing-roundtrip'})
        out.append({'script': 'alias %s=%s%s%s\nalias %s > defs\nunalias %s\nsource defs\n%s\n' % (name, q, val, q, name, name, name), 'files': P,
                    'expect_stdout': _argv(exp), 'area': 'alias:listing-one-roundtrip'})
    return out


# ------------------------------------------------------------------ C19: arithmetic
def _ipow(a, b):
    return a ** b


def c19(tier, seed):
    cases = [('1 + 2', '3'), ('2 + 3 * 4', '14'), ('(2 + 3) * 4', '20'), ('10 - 2 - 3', '5'), ('2 ^ 3 ^ 2', '512'), ('2 * 3 ^ 2', '18'),
             ('100 / 7', '14'), ('100 / 7 / 2', '7'), ('7 / 2', '3'), ('(0 - 7) / 2', '-3'), ('7 / (0 - 2)', '-3'), ('2 ^ 10', '1024'),
             ('2 ^ 0', '1'), ('1 - 2 * 3', '-5'), ('2 * (3 + 4) * 5', '70'), ('((1))+((2))', '3'), ('8 / 4 / 2', '1'), ('8 / (4 / 2)', '4'),
             ('2 ^ 2 ^ 3', '256'), ('(2 ^ 2) ^ 3', '64'), ('10 - (2 - 3)', '11'), ('1 + 2 - 3 + 4', '4'), ('3 * 4 / 6', '2'), ('3 * (4 / 6)', '0'),
             ('(1.5 + 1) * 2', '5'), ('2 * (0.25 + 0.25)', '1'), ('(7.0) / 2', '3.5'), ('((1.5)) + 1', '2.5'), ('1 + (2 * (3 + 0.5))', '8'),
             ('1.5 + 1', '2.5'), ('7.0 / 2', '3.5'), ('2 * 1.25', '2.5'), ('1 / 2.0', '0.5'), ('2.0 ^ 3', '8'), ('0.5 + 0.25', '0.75'),
             ('2147483648 + 2147483648', '4294967296'), ('9223372036854775807 + 0', '9223372036854775807'), ('1+2', '3'), ('  1   +   2  ', '3'),
             ('+1 + 2', '3'), ('-1 + 2', '1'), ('(+3) * 2', '6'),
             # IEEE double: a whole exponent beyond the i32 range is still an exponent; pow, not repeated multiplication
             # + and - share one level and group from the left, also when the operands are far apart in magnitude
             ('0.5 + 9223372036854775807 - 9223372036854775807', '0'), ('1.0 + 100000000000000000000 - 100000000000000000000', '0'), ('10.0 - 2 + 3', '11'), ('2.0 * 3 / 4', '1.5'),
             ('9223372036854775807 / 2', '4611686018427387903'), ('9223372036854775806 / 9223372036854775807', '0'), ('9223372036854775807 / 2147483648', '4294967295'),
             ('-1.0 ^ 2147483648', '1'), ('-1.0 ^ 2147483649', '-1'), ('1.1 ^ 70', '789.7469567994436'), ('1.0000000001 ^ 10000000000', '2.7182820532347876'), ('2.0 ^ 0.5', '1.4142135623730951')]
    out = [{'line': l, 'expect_stdout': e + '\n', 'area': 'calculator:precedence', 'timeout': 5} for l, e in cases]
    for l in ('1 / 0', '9223372036854775807 + 1', '2 ^ 64', '99999999999999999999 + 1', '2 ^ (0 - 1)', '1 / 0.0', '(0 - 9223372036854775807 - 1) / (0 - 1)',
              '9223372036854775807 * 2', '1 +', '(1 + 2', '1 + 2)', '2 ^ 70', '0 ^ 0', '1.0 / 0',
              '170141183460469231731687303715884105728 - 1', '340282366920938463463374607431768211456 + 0', '-170141183460469231731687303715884105729 + 1'):
        out.append({'line': l + '; echo alive', 'expect_stdout_last_line': 'alive', 'area': 'calculator:never-crashes', 'timeout': 5})
    # the classification rule: digits, dots, blanks and parentheses alone are not arithmetic (an operator is needed) -- such a line is a command
    out.append({'line': '1.5; echo rc=$?; 7.1; (2.5); echo rc=$?; 10.0.0.1; echo rc=$?; 12; echo rc=$?', 'files': {'7.1': '#!/bin/sh\necho ran71\n', '12': '#!/bin/sh\necho ran12\n'},
                'expect_stdout': 'rc=127\nran71\nrc=127\nrc=127\nran12\nrc=0\n', 'area': 'calculator:classification:no-operator', 'timeout': 5})
    alpha_ = ['1', '.', ' ', '(', ')', '+', '/']
    for k_ in (1, 2, 3):
        for t_ in itertools.product(alpha_, repeat=k_):
            s_ = ''.join(t_)
            if any(ch in s_ for ch in '+/') or not any(ch == '1' for ch in s_) or s_.strip() != s_ or '(' in s_ or ')' in s_:
                continue
            # only digits, dots and inner blanks: never arithmetic -> "command not found", status 127
            out.append({'line': s_ + '; echo rc=$?', 'expect_stdout': 'rc=127\n', 'area': 'calculator:classification:no-operator', 'timeout': 5})
    # the result cannot be written (stdout full or closed): a diagnostic and a non-zero status, the shell goes on
    out.append({'line': '{CICADA} -c "1 + 2; echo next" > /dev/full; echo rc=$?; {CICADA} -c "2 * 3" >&-; echo rc=$?', 'expect_stdout': 'rc=1\nrc=1\n',
                'area': 'calculator:never-crashes:stdout-cannot-be-written', 'timeout': 5})
    # (repair a105e61) parentheses nested beyond the limit are rejected with a diagnostic -- closed or not -- and the shell goes on; at the limit the line is evaluated
    for name, l in (('closed', '(' * 20000 + '1 + 1' + ')' * 20000), ('unclosed', '(' * 20000 + '1 + 1'), ('unclosed-with-one-closing', '(' * 20000 + '1 + 1)'), ('closing-first', ')' + '(' * 20000 + '1 + 1')):
        out.append({'script': l + '\necho alive\n', 'expect_stdout_last_line': 'alive', 'timeout': 20, 'area': 'calculator:never-crashes:deep-nesting:' + name})
    out.append({'script': '(' * 100 + '1 + 1' + ')' * 100 + '\n', 'expect_stdout': '2\n', 'timeout': 10, 'area': 'calculator:never-crashes:deep-nesting:at-the-limit'})
    # (repair 99bc23e) a long chain of `^` (evaluated from the right, one level per operator) is rejected as well; the other operators are folded from the left
    for name, l in (('power-chain', ' ^ '.join(['1'] * 50000)), ('power-chain-in-parentheses', '(' + ' ^ '.join(['1'] * 20000) + ') + 1'), ('sum-chain', ' + '.join(['1'] * 50000)), ('minus-signs', '-' * 20000 + '1 + 1')):
        out.append({'script': l + '\necho alive\n', 'expect_stdout_last_line': 'alive', 'timeout': 30, 'area': 'calculator:never-crashes:long-chain:' + name})
    out.append({'line': '2 ^ 3 ^ 2', 'expect_stdout': '512\n', 'timeout': 5, 'area': 'calculator:never-crashes:long-chain:short-chains-still-work'})
    # 64-bit integer arithmetic is exact where floating point is not
    for l, v in (('9007199254740993 + 0', '9007199254740993'), ('4611686018427387905 - 4611686018427387904', '1'), ('9223372036854775807 - 9223372036854775806', '1'), ('(9007199254740993) * 1', '9007199254740993')):
        out.append({'line': l, 'expect_stdout': v + '\n', 'timeout': 5, 'area': 'calculator:integer:exact-beyond-2^53'})
    return out


# ------------------------------------------------------------------ C03: command lists
def c03(tier, seed):
    out = []
    for line, exp, rc in (('sleep 0.4 | sh -c "exit 7"; echo "st=$?"', 'st=7\n', 0), ('sleep 0.4 | false && echo AND; echo end', 'end\n', 0), ('sleep 0.4 | false || echo OR', 'OR\n', 0),
                          ('sh -c "sleep 0.4; exit 3" | true && echo AND', 'AND\n', 0), ('sleep 0.3 | sh -c "exit 5"', '', 5)):
        out.append({'line': line, 'expect_stdout': exp, 'expect_rc': rc, 'area': 'list:status-of-a-pipeline-whose-last-stage-ends-first', 'timeout': 10})
    # a quoted or escaped `&` as the last word is an argument: the pipeline is waited for and its status counts
    for line, exp, rc in (('./st a 3 "&" && ./st RHS 0; ./st "st=$?" 0', 'a\nst=3\n', 0), ("./st a 0 '&' || ./st RHS 0; ./st b 4 \\&", 'a\nb\n', 4), ('V="&"; sh -c "sleep 0.3; echo first; exit 5" $V; echo "second $?"', 'first\nsecond 5\n', 0)):
        out.append({'line': line, 'files': {'st': ST}, 'expect_stdout': exp, 'expect_rc': rc, 'area': 'list:quoted-ampersand-as-the-last-word', 'timeout': 10})
    # a pipeline with a stage that could not be started has failed: `||` runs, `&&` does not
    out.append({'line': 'ulimit -n 5; true | cat <<< hi || echo FALLBACK; ulimit -n 5; true | cat <<< hi && echo AND; echo end', 'expect_stdout': 'FALLBACK\nend\n', 'area': 'list:a-pipeline-with-a-stage-that-could-not-be-started-has-failed', 'timeout': 10})
    # a command that does not read its (large) here-string does not end the list
    out.append({'line': 'B=$(./big); true <<< $B; echo AFTER; true <<< $B && echo YES; sh -c "exit 7"', 'files': {'big': '#!/bin/sh\nhead -c 200000 /dev/zero | tr "\\0" a\n'}, 'expect_stdout': 'AFTER\nYES\n', 'expect_rc': 7, 'area': 'list:goes-on-after-an-unread-here-string', 'timeout': 15})
    # a list operator behind text that is not ASCII is an operator all the same
    for line, exp, rc in (('echo \u4e2d\u6587 && echo second', '\u4e2d\u6587\nsecond\n', 0), ('true \u4e2d\u6587\u4e2d || echo OR; echo "st=$?"', 'st=0\n', 0), ('false caf\u00e9-cr\u00e8me || echo rescued', 'rescued\n', 0),
                          ('true \u00e9\u00e9\u00e9 && sh -c "exit 9"', '', 9), ('echo \u00e9 | cat', '\u00e9\n', 0), ('echo \u00e9\u00e9 ; echo b', '\u00e9\u00e9\nb\n', 0)):
        out.append({'line': line, 'expect_stdout': exp, 'expect_rc': rc, 'area': 'list:operators-behind-non-ascii-text', 'timeout': 10})
    progs = []
    for n in (2, 3, 4):
        for ops in itertools.product([';', '&&', '||'], repeat=n - 1):
            for sts in itertools.product([0, 3], repeat=n):
                progs.append((ops, sts))
    for ops, sts in _sample(progs, 120 if tier == 'quick' else 600, seed):
        parts, exp, status = [], [], 0
        for i, s in enumerate(sts):
            cmd = './st %d %d' % (i, s)
            if i == 0:
                run = True
            else:
                op = ops[i - 1]
                run = (op == ';') or (op == '&&' and status == 0) or (op == '||' and status != 0)
                parts.append(op)
            parts.append(cmd)
            if run:
                exp.append(str(i)); status = s
        out.append({'line': ' '.join(parts), 'files': {'st': ST}, 'expect_stdout': ''.join(x + '\n' for x in exp), 'expect_rc': status, 'area': 'list:short-circuit'})
        out.append({'script': ' '.join(parts) + '\n', 'files': {'st': ST}, 'expect_stdout': ''.join(x + '\n' for x in exp), 'expect_rc': status, 'area': 'list:script-status'})
    # the same list written in a script, with operators directly after quoted words
    out += [
        {'script': './st "a" 0; ./st \'b\' 3 && ./st c 0 || ./st "d" 5;./st e 0\n', 'files': {'st': ST}, 'expect_stdout': 'a\nb\nd\ne\n', 'expect_rc': 0, 'area': 'list:script:operators-after-quotes'},
        {'script': './st "a;b" 0;./st "c" 4\n', 'files': {'st': ST}, 'expect_stdout': 'a;b\nc\n', 'expect_rc': 4, 'area': 'list:script:operators-after-quotes'},
        # KNOWN FINDING (recorded, not repaired): in a script an escaped list operator loses its backslash in the positional-parameter round trip
        {'script': './st a\\;b 0 ; ./st c 4\n', 'files': {'st': ST}, 'expect_stdout': 'a;b\nc\n', 'expect_rc': 4, 'area': 'list:script:escaped-operator'},
        {'script': './st "C:\\\\" 0 && ./st b 3 ; ./st c 5\n', 'files': {'st': ST}, 'expect_stdout_any': ['C:\\\\\nb\nc\n', 'C:\\\nb\nc\n'], 'expect_rc': 5, 'area': 'list:script:quoted-word-ending-in-backslash'},
        {'script': "./st 'x\\' 0 || ./st no 0 ; ./st c 6\n", 'files': {'st': ST}, 'expect_stdout': 'x\\\nc\n', 'expect_rc': 6, 'area': 'list:script:quoted-word-ending-in-backslash'},
        {'script': './st "$1" 0; ./st "${2}" 0;./st "$@" 0\n', 'args': ['x', 'y z'], 'files': {'st': ST}, 'expect_stdout': 'x\ny z\nx y z\n', 'area': 'list:script:operators-after-quotes'},
    ]
    out += [
        {'line': "./st 'a;b' 0; ./st \"c&&d\" 0; ./st e\\;f 0", 'files': {'st': ST}, 'expect_stdout': 'a;b\nc&&d\ne;f\n', 'area': 'list:decoy-operators'},
        {'line': "./st '||' 3 || ./st \"&&\" 0 && ./st \\; 5", 'files': {'st': ST}, 'expect_stdout': '||\n&&\n;\n', 'expect_rc': 5, 'area': 'list:decoy-operators'},
        {'line': './st a 4; echo $?; ./st b 0; echo $?', 'files': {'st': ST}, 'expect_stdout': 'a\n4\nb\n0\n', 'area': 'list:status-variable'},
        {'line': './st a 4 && ./st b 0; echo $?', 'files': {'st': ST}, 'expect_stdout': 'a\n4\n', 'area': 'list:status-variable'},
        {'line': './st a 0 || ./st b 9; echo $?', 'files': {'st': ST}, 'expect_stdout': 'a\n0\n', 'area': 'list:status-variable'},
        {'line': './st a 200', 'files': {'st': ST}, 'expect_stdout': 'a\n', 'expect_rc': 200, 'area': 'list:status'},
        {'line': './st 中 0 && ./st b 3 ; ./st é 7', 'files': {'st': ST}, 'expect_stdout': '中\nb\né\n', 'expect_rc': 7, 'area': 'list:multi-byte'},
        {'line': './st é 4 || ./st 中文 0 && ./st c 5', 'files': {'st': ST}, 'expect_stdout': 'é\n中文\nc\n', 'expect_rc': 5, 'area': 'list:multi-byte'},
        {'line': './st a 3; ', 'files': {'st': ST}, 'expect_stdout': 'a\n', 'expect_rc': 3, 'area': 'list:blank-tail'},
        {'line': './st a#b 0; ./st c 4', 'files': {'st': ST}, 'expect_stdout': 'a#b\nc\n', 'expect_rc': 4, 'area': 'list:hash-inside-a-word'},
        {'line': './st a\\ #b 0; ./st c 3', 'files': {'st': ST}, 'expect_stdout': 'a #b\nc\n', 'expect_rc': 3, 'area': 'list:hash-inside-a-word'},
        {'line': './st "p #q" 0; ./st e\\\\ 5 #f; ./st no 9', 'files': {'st': ST}, 'expect_stdout': 'p #q\ne\\\n', 'expect_rc': 5, 'area': 'list:hash-inside-a-word'},
        {'line': './st a# 0 && ./st x#y#z 0 || ./st no 1; ./st d 2 # ; ./st no 9', 'files': {'st': ST}, 'expect_stdout': 'a#\nx#y#z\nd\n', 'expect_rc': 2, 'area': 'list:hash-inside-a-word'},
        {'line': './st a 3 ;  ;  ', 'files': {'st': ST}, 'expect_stdout': 'a\n', 'expect_rc': 3, 'area': 'list:blank-tail'},
        {'line': './st a 0 && ./st b 5 ; \t', 'files': {'st': ST}, 'expect_stdout': 'a\nb\n', 'expect_rc': 5, 'area': 'list:blank-tail'},
        {'line': './st a 3; echo $? ;  ', 'files': {'st': ST}, 'expect_stdout': 'a\n3\n', 'expect_rc': 0, 'area': 'list:blank-tail'},
        {'line': "./st 'x\\' 0 && ./st b 0 ; ./st c 6", 'files': {'st': ST}, 'expect_stdout': 'x\\\nb\nc\n', 'expect_rc': 6, 'area': 'list:backslash-in-single-quotes'},
    ]
    return out


# ------------------------------------------------------------------ C04: redirections
OE = '#!/bin/sh\necho O\necho E >&2\n'


def c04(tier, seed):
    F = {'oe': OE}
    out = [
        {'line': './oe > f; echo --; cat f', 'files': F, 'expect_stdout': '--\nO\n', 'area': 'redirect:stdout'},
        {'line': './oe >f; echo --; cat f', 'files': F, 'expect_stdout': '--\nO\n', 'area': 'redirect:stdout:no-space'},
        {'line': 'echo old > log; ./both >> log 2>> log; cat log; ./both 2>>log2 >>log2; cat log2', 'files': dict(F, both='#!/bin/sh\necho out1\necho err1 >&2\necho out2\n'),
         'expect_stdout': 'old\nout1\nerr1\nout2\nout1\nerr1\nout2\n', 'area': 'redirect:append:two-descriptors-one-file'},
        {'line': 'echo piped | cat <<< here; echo a | cat <<< b | cat', 'files': F, 'expect_stdout': 'here\nb\n', 'area': 'redirect:here-string:on-a-later-stage'},
        # a `<` target that exists but cannot be opened (a unix socket) fails a builtin without running it, like an external program
        {'line': 'mkdir sub; python3 -c "import socket; s=socket.socket(socket.AF_UNIX); s.bind(\'sock\')"; cd sub < sock; echo "st=$?"; pwd | xargs basename | grep -c sub; export Q=set < sock && echo ran; echo "[$Q]"; cat < sock; echo "st2=$?"', 'files': F,
         'expect_stdout': 'st=1\n0\n[]\nst2=1\n', 'area': 'redirect:input:target-that-exists-but-cannot-be-opened', 'timeout': 10},
        # a `<` from a FIFO delivers what the writer sends, however late it comes
        {'script': 'mkfifo f\nsh -c "sleep 0.4; echo data > f" &\ncat < f\necho end\n', 'files': F, 'expect_stdout': 'data\nend\n', 'area': 'redirect:input:fifo', 'timeout': 10},
        {'line': 'alias nosuch-zz 2>&1; echo after-out; sh -c "echo child-out"', 'files': F, 'expect_stdout_contains': 'after-out\nchild-out\n', 'area': 'redirect:builtin:dup-leaves-the-shell-descriptors-alone'},
        {'line': 'alias nosuch-zz 1>&2; sh -c "echo child-err >&2" 2> e.txt; cat e.txt; alias nosuch-yy 2> e2.txt; cat e2.txt | wc -l', 'files': F, 'expect_stdout': 'child-err\n1\n', 'area': 'redirect:builtin:dup-leaves-the-shell-descriptors-alone'},
        {'script': 'alias nosuch-zz 2>&1\necho after-out\nalias nosuch-yy 1>&2\n./oe 2>&1\n', 'files': F, 'expect_stdout_contains': 'after-out\n', 'expect_stdout_last_line': 'E', 'area': 'redirect:builtin:dup-leaves-the-shell-descriptors-alone'},
        # >> appends at the end of the file as it is WHEN the write happens (O_APPEND), also when the file grows through another descriptor meanwhile
        {'line': 'sh -c "echo out; echo err >&2" >> both.log 2>> both.log; sort both.log', 'files': F, 'expect_stdout': 'err\nout\n', 'area': 'redirect:append:file-grows-through-another-descriptor'},
        {'line': 'echo first > g.log; sh -c "echo direct >> g.log; echo via-stdout" >> g.log; sort g.log', 'files': F, 'expect_stdout': 'direct\nfirst\nvia-stdout\n', 'area': 'redirect:append:file-grows-through-another-descriptor'},
        # KNOWN FINDING (recorded, not repaired): two redirection operators glued into one word -- the word is dropped, neither redirection happens
        {'line': './oe >a5>b5; echo --; cat b5; ls a5', 'files': F, 'expect_stdout': '--\nO\na5\n', 'area': 'redirect:two-operators-glued-in-one-word'},
        {'line': './oe 1> f; echo --; cat f', 'files': F, 'expect_stdout': '--\nO\n', 'area': 'redirect:stdout'},
        {'line': './oe 2> f; echo --; cat f', 'files': F, 'expect_stdout': 'O\n--\nE\n', 'area': 'redirect:stderr'},
        {'line': './oe 2>f; echo --; cat f', 'files': F, 'expect_stdout': 'O\n--\nE\n', 'area': 'redirect:stderr:no-space'},
        {'line': 'echo old > f; ./oe > f; cat f', 'files': F, 'expect_stdout': 'O\n', 'area': 'redirect:truncate'},
        {'line': 'echo old > f; ./oe >> f; cat f', 'files': F, 'expect_stdout': 'old\nO\n', 'area': 'redirect:append'},
        {'line': 'echo old > f; ./oe 2>> f; cat f', 'files': F, 'expect_stdout': 'O\nold\nE\n', 'area': 'redirect:append-stderr'},
        {'line': './oe > f 2>&1; echo --; cat f', 'files': F, 'expect_stdout': '--\nO\nE\n', 'area': 'redirect:dup'},
        {'line': './oe 2>&1 > f | cat; echo --; cat f', 'files': F, 'expect_stdout': 'E\n--\nO\n', 'area': 'redirect:dup-order'},
        {'line': './oe 2> f 1>&2; echo --; cat f', 'files': F, 'expect_stdout': '--\nO\nE\n', 'area': 'redirect:dup'},
        {'line': './oe > o 2> e; echo --; cat o e', 'files': F, 'expect_stdout': '--\nO\nE\n', 'area': 'redirect:both'},
        {'line': 'echo in > f; cat < f', 'files': F, 'expect_stdout': 'in\n', 'area': 'redirect:stdin'},
        {'line': 'echo in > f; ./oe < f > o 2> e; echo --; cat o e', 'files': F, 'expect_stdout': '--\nO\nE\n', 'area': 'redirect:three'},
        {'line': 'echo in > f; cat <f', 'files': F, 'expect_stdout': 'in\n', 'area': 'redirect:stdin:no-space'},
        {'line': 'cat <<< word', 'files': F, 'expect_stdout': 'word\n', 'area': 'redirect:here-string'},
        {'line': 'cat <<<word', 'files': F, 'expect_stdout': 'word\n', 'area': 'redirect:here-string:no-space'},
        {'line': 'cat <<< "two words"', 'files': F, 'expect_stdout': 'two words\n', 'area': 'redirect:here-string'},
        {'line': 'cat < /nonexistent-xyz; echo rc=$?', 'files': F, 'expect_stdout_last_line_not': 'rc=0', 'area': 'redirect:unopenable-stdin'},
        {'line': './oe > /nonexistent-dir-xyz/f; echo rc=$?', 'files': F, 'expect_stdout_last_line_not': 'rc=0', 'expect_no_stdout_line': 'O', 'area': 'redirect:unopenable-target'},
        {'line': './oe > f | cat; echo --; cat f', 'files': F, 'expect_stdout': '--\nO\n', 'area': 'redirect:middle-stage'},
        {'line': 'echo a | cat > f; echo --; cat f', 'files': F, 'expect_stdout': '--\na\n', 'area': 'redirect:last-stage'},
        {'line': './oe > f; ./oe', 'files': F, 'expect_stdout': 'O\n', 'area': 'redirect:later-command-unaffected'},
        {'line': 'echo b > f; echo --; cat f', 'files': F, 'expect_stdout': '--\nb\n', 'area': 'redirect:builtin'},
        {'line': 'echo b >> f; echo c >> f; cat f', 'files': F, 'expect_stdout': 'b\nc\n', 'area': 'redirect:builtin-append'},
        {'line': 'alias zq=1; alias > f; echo --; cat f', 'files': F, 'expect_stdout_prefix': '--\n', 'expect_stdout_contains': 'zq', 'area': 'redirect:builtin'},
        # a builtin that prints nothing still creates / truncates its `>` target; `>>` keeps it
        {'line': 'echo old > g; alias foo=bar > g; echo --; cat g', 'files': F, 'expect_stdout': '--\n', 'area': 'redirect:builtin:truncate-without-output'},
        {'line': 'echo old > g; alias foo=bar >> g; cat g', 'files': F, 'expect_stdout': 'old\n', 'area': 'redirect:builtin:truncate-without-output'},
        # a `<` file that cannot be opened fails the builtin without running it
        {'line': 'alias zq=1; alias < /nonexistent-dir/x; echo st=$?', 'files': F, 'expect_stdout_not_contains': 'zq', 'expect_stdout_last_line_not': 'st=0', 'area': 'redirect:builtin:unopenable-input'},
        # a builtin's redirection also holds inside $(...)
        {'line': 'alias zq=1; echo "[$(alias > f9)]"; cat f9', 'files': F, 'expect_stdout_prefix': '[]\n', 'expect_stdout_contains': 'zq', 'area': 'redirect:builtin:captured'},
        {'line': 'alias zq=1; echo "[$(alias nosuch 2>&1)]"; echo "[$(alias zq >f1 2>&1)]"; cat f1; echo "[$(alias nosuch 2>&1 >f2)]"; cat f2; echo "[$(alias nosuch >f3 2>&1)]"; cat f3', 'files': F,
         'expect_stdout': "[cicada: alias: nosuch: not found]\n[]\nalias zq='1'\n[cicada: alias: nosuch: not found]\n[]\ncicada: alias: nosuch: not found\n", 'area': 'redirect:builtin:captured:descriptor-copies'},
        # several input redirections: the last one on the line is in effect
        # no space on either side of `<` / `<<<`
        {'line': 'cat<inf; cat< inf; wc -l<inf; cat<<<hi; cat<<< hi2; cat<inf|cat', 'files': dict(F, inf='FROMFILE\n'), 'expect_stdout': 'FROMFILE\nFROMFILE\n1\nhi\nhi2\nFROMFILE\n', 'area': 'redirect:stdin:no-space-in-front'},
        {'line': 'cat<nonexistent-zz; echo rc=$?', 'files': F, 'expect_stdout': 'rc=1\n', 'area': 'redirect:stdin:no-space-in-front'},
        {'line': './pargs éa<inf; ./pargs é<inf; cat é<inf', 'files': dict(F, pargs=PARGS, inf='FROMFILE\n', **{'é': 'EFILE\n'}), 'expect_stdout': '[éa]\n[é]\nEFILE\n', 'area': 'redirect:stdin:no-space-in-front:multi-byte'},
        {'line': 'cat <<< word < inf; cat < inf <<< word2', 'files': dict(F, inf='FROMFILE\n'), 'expect_stdout': 'FROMFILE\nword2\n', 'area': 'redirect:stdin:last-wins'},
        {'line': 'alias nosuch-zz 2> f; echo --; cat f', 'files': F, 'expect_stdout_prefix': '--\n', 'expect_stdout_contains': 'nosuch-zz', 'area': 'redirect:builtin-stderr'},
        {'line': 'alias nosuch-zz > f 2>&1; echo --; cat f', 'files': F, 'expect_stdout_prefix': '--\n', 'expect_stdout_contains': 'nosuch-zz', 'area': 'redirect:builtin-dup'},
        {'line': 'echo b > f; echo after', 'files': F, 'expect_stdout': 'after\n', 'area': 'redirect:builtin-later-command-unaffected'},
        {'line': 'echo b 1>&2 2> f; echo --; cat f', 'files': F, 'expect_stdout': '--\n', 'area': 'redirect:builtin-dup-order'},
        {'line': 'X=$(sh -c "echo E >&2" 2>&1); echo "[$X]"', 'files': F, 'expect_stdout': '[E]\n', 'area': 'redirect:captured-dup'},
        {'line': 'X=$(sh -c "echo O" 1>&2 2>/dev/null); echo "[$X]"', 'files': F, 'expect_stdout': '[]\n', 'area': 'redirect:captured-dup'},
    ]
    # two redirections on one command, both orders, every spacing, truncate and append
    for first_err in (True, False):
        for sp1 in (' ', ''):
            for sp2 in (' ', ''):
                for app in (False, True):
                    o_ = ('>>' if app else '>') + sp1 + 'o'
                    e_ = ('2>>' if app else '2>') + sp2 + 'e'
                    red = (e_ + ' ' + o_) if first_err else (o_ + ' ' + e_)
                    pre = 'echo old > o; echo old > e; ' if app else ''
                    exp = '--\n' + ('old\nO\nold\nE\n' if app else 'O\nE\n')
                    out.append({'line': pre + './oe ' + red + '; echo --; cat o e', 'files': F, 'expect_stdout': exp, 'area': 'redirect:two-targets'})
                    out.append({'line': pre + './oe ' + red + ' | cat; echo --; cat o e', 'files': F, 'expect_stdout': exp, 'area': 'redirect:two-targets:in-pipeline'})
    # builtins (alias, read): the same rules as for external programs
    out += [
        {'line': 'alias nosuch-zz 2>&1', 'files': F, 'expect_stdout_contains': 'nosuch-zz', 'area': 'redirect:builtin:dup-alone'},
        {'line': "alias zq=1; alias zq 2> f 1>&2; echo --; cat f", 'files': F, 'expect_stdout': "--\nalias zq='1'\n", 'area': 'redirect:builtin:dup-order'},
        {'line': "alias zq=1; alias zq 1>&2 2> f; echo --; cat f", 'files': F, 'expect_stdout': '--\n', 'area': 'redirect:builtin:dup-order'},
        {'line': "alias zq=1; alias zq > /nonexistent-dir-xyz/f; echo rc=$?", 'files': F, 'expect_stdout_last_line_not': 'rc=0', 'expect_no_stdout_line': "alias zq='1'", 'area': 'redirect:builtin:unopenable-target'},
        {'line': 'echo filetext > g; read x < g; echo "[$x]"', 'files': F, 'expect_stdout': '[filetext]\n', 'area': 'redirect:builtin:stdin', 'timeout': 5},
        {'line': "alias zq=1; alias zq > o 2> e; echo --; cat o; cat e", 'files': F, 'expect_stdout': "--\nalias zq='1'\n", 'area': 'redirect:builtin:both'},
        {'line': "alias zq=1; alias zq >> o; alias zq >> o; cat o", 'files': F, 'expect_stdout': "alias zq='1'\nalias zq='1'\n", 'area': 'redirect:builtin:append'},
        {'line': "alias zq=1; alias zq | cat; alias nosuch-zz 2>&1 | cat", 'files': F, 'expect_stdout_contains': 'nosuch-zz', 'expect_stdout_prefix': "alias zq='1'\n", 'area': 'redirect:builtin:in-pipeline'},
    ]
    out.append({'line': 'alias nosuch-zz zq=1 2> e > o; echo --; cat o; cat e', 'files': F, 'expect_stdout_prefix': '--\n', 'expect_stdout_contains': 'alias', 'area': 'redirect:builtin-two-targets'})
    return out


# ------------------------------------------------------------------ C09: variables, environment, directory
def c09(tier, seed):
    ENVP = '#!/bin/sh\nprintf "[%s]\\n" "$A"\n'
    F = {'envp': ENVP, 'pargs': PARGS}
    out = [
        {'line': 'A=1; ./pargs "$A"; ./envp', 'files': F, 'expect_stdout': '[1]\n[]\n', 'area': 'vars:assignment-is-local'},
        {'line': 'export A=1; A=2; ./pargs "$A"; ./envp', 'files': F, 'expect_stdout': '[2]\n[2]\n', 'area': 'vars:assignment-to-exported'},
        {'line': 'A=1 ./envp; ./pargs "[$A]"', 'files': F, 'expect_stdout': '[1]\n[[]]\n', 'area': 'vars:prefix-assignment'},
        # the prefix replaces an exported NAME for that command (one entry in its environment, not two), and only for it
        {'line': 'export A=1; A=2 printenv A; printenv A; A=3 ./envp; ./pargs "$A"', 'files': F, 'expect_stdout': '2\n1\n[3]\n[1]\n', 'area': 'vars:prefix-assignment:exported-name'},
        {'line': 'export A=7; ./envp; ./pargs "$A"', 'files': F, 'expect_stdout': '[7]\n[7]\n', 'area': 'vars:export'},
        {'line': 'export A=7; unset A; ./envp; ./pargs "[$A]"', 'files': F, 'expect_stdout': '[]\n[[]]\n', 'area': 'vars:unset'},
        {'line': 'A=1 A=2; ./pargs "$A"; B=1 B=2 printenv B; export E=5; E=1 E=6 printenv E; C=x D=y C=z; ./pargs "$C$D"', 'files': F, 'expect_stdout': '[2]\n2\n6\n[zy]\n', 'area': 'vars:a-name-assigned-twice-on-one-line'},
        {'line': 'mkdir -p T/a/sub T/other; cd T/a; mv ../a ../b; cd sub; echo "st=$?"; pwd | xargs basename; sh -c "pwd | xargs basename"; echo x > rel.txt; ls ../../b/sub; cd ../../other; cd -; pwd | xargs basename', 'files': F,
         'expect_stdout': 'st=0\nsub\nsub\nrel.txt\nsub\n', 'area': 'cd:the-directory-was-renamed-under-the-shell'},
        {'line': "V=$(./two); ./pargs \"$V\"; export W=1; W=$(./two); sh -c 'echo \"$W\"'; X=$(./two) sh -c 'echo \"$X\"'", 'files': dict(F, **{'two': '#!/bin/sh\nprintf "a\\nb\\n"\n'}), 'expect_stdout': '[a\nb]\na\nb\na\nb\n', 'area': 'vars:multi-line-value'},
        {'line': 'read a b; read c; export X=0; read X; ./pargs "$a" "$b" "$c"; sh -c \'echo "X=$X"\'', 'stdin': 'one two three\nfour\nfive\nsix\n', 'files': F, 'expect_stdout': '[one]\n[two three]\n[four]\nX=five\n', 'area': 'read:several-reads-from-one-input'},
        {'line': 'mkdir A B; touch B/file; cd A; cd ../B; cd file; echo rc=$?; cd -; basename $PWD; pwd | xargs basename', 'files': F, 'expect_stdout': 'rc=1\nA\nA\n',
         'area': 'cd:failed-cd-leaves-the-previous-directory-alone'},
        {'line': 'mkdir A B; touch f; cd A; cd ../B; cd ../f; cd ../nosuch; cd -; cd -; basename $PWD', 'files': F, 'expect_stdout': 'B\n', 'area': 'cd:failed-cd-leaves-the-previous-directory-alone'},
        {'line': 'A=7; unset A; ./pargs "[$A]"', 'files': F, 'expect_stdout': '[[]]\n', 'area': 'vars:unset'},
        {'line': "A='a b'; ./pargs \"$A\"", 'files': F, 'expect_stdout': '[a b]\n', 'area': 'vars:value-with-space'},
        # KNOWN FINDING (recorded, not repaired): an assignment from a value that begins and ends with the same quote loses the quotes
        {'line': "L='\"q\"'; M=$L; ./pargs \"$M\"", 'files': F, 'expect_stdout': '["q"]\n', 'area': 'vars:value-with-surrounding-quotes'},
        {'line': 'A="p=q:r"; ./pargs "$A"', 'files': F, 'expect_stdout': '[p=q:r]\n', 'area': 'vars:value-with-equals'},
        {'line': 'A=; ./pargs "[$A]"', 'files': F, 'expect_stdout': '[[]]\n', 'area': 'vars:empty-value'},
        {'line': 'export A="a b"; ./envp', 'files': F, 'expect_stdout': '[a b]\n', 'area': 'vars:export-value-with-space'},
        {'line': 'S="x y"; export T=$S; printenv T; V=\'it"s\'; export W="$V"; printenv W', 'files': F, 'expect_stdout': 'x y\nit"s\n', 'area': 'vars:export-value-from-an-expansion'},
        {'line': 'export C="p ~ q"; printenv C; export F="~/q"; printenv F; export G=a~/b; printenv G; export D=~/x; ./pargs "$D" "$HOME/x"', 'files': F, 'expect_stdout_prefix': 'p ~ q\n~/q\na~/b\n', 'area': 'vars:export-value-with-a-tilde'},
        {'line': 'read a b <<< "x   y    z  "; ./pargs "$a" "$b"; IFS=: read a b <<< x:y:z; ./pargs "$a" "$b"; IFS=: read a b c <<< "1::3:4"; ./pargs "$a" "$b" "$c"; read r <<< "  p   q "; ./pargs "$r"', 'files': F,
         'expect_stdout': _argv(['x', 'y    z']) + _argv(['x', 'y:z']) + _argv(['1', '', '3:4']) + _argv(['p   q']), 'area': 'read:the-remainder-is-the-rest-of-the-line-as-it-stands'},
        {'line': 'P=2 ./envp P | cat; P=2 true | ./envp P; export Q=1; Q=2 true | ./envp Q; Q=5 ./envp Q | cat', 'files': dict(F, envp='#!/bin/sh\neval "echo [\\$$1]"\n'), 'expect_stdout': '[2]\n[]\n[1]\n[5]\n', 'area': 'vars:prefix-assignment:first-stage-only'},
        {'line': 'A=k=v:w; B="x=y z"; ./pargs "$A" "$B"; C=u=v printenv C; export E=1; E=p=q; printenv E; read a b <<< "x   y z"; ./pargs "$a" "$b"', 'files': F,
         'expect_stdout': _argv(['k=v:w', 'x=y z']) + 'u=v\np=q\n' + _argv(['x', 'y z']), 'area': 'vars:value-with-an-equals-sign'},
        {'line': "A='a b'; A=; ./pargs \"[$A]\"; export B=x=y; B= printenv B; B=; printenv B; E=; C=$E; ./pargs \"$C\"", 'files': F, 'expect_stdout': _argv(['[]']) + '\n\n' + _argv(['']), 'area': 'vars:empty-value'},
        {'line': 'export B=old; read A B <<< "one two three"; printenv B; ./pargs "$A" "$B"', 'files': F, 'expect_stdout': 'two three\n' + _argv(['one', 'two three']), 'area': 'read:into-an-exported-name'},
        {'line': 'read a b c <<< "1 2 3 4"; ./pargs "$a" "$b" "$c"', 'files': F, 'expect_stdout': _argv(['1', '2', '3 4']), 'area': 'read'},
        {'line': 'read a b <<< "1"; ./pargs "[$a]" "[$b]"', 'files': F, 'expect_stdout': _argv(['[1]', '[]']), 'area': 'read'},
        {'line': 'read a <<< "x y z"; ./pargs "$a"', 'files': F, 'expect_stdout': _argv(['x y z']), 'area': 'read'},
        {'line': 'b=old; c=old; read a b c <<< "1"; ./pargs "[$a]" "[$b]" "[$c]"', 'files': F, 'expect_stdout': _argv(['[1]', '[]', '[]']), 'area': 'read:fewer-fields-than-names'},
        {'line': 'read a b <<< "1 2"; ./pargs "$a" "$b"', 'files': F, 'expect_stdout': _argv(['1', '2']), 'area': 'read'},
        {'line': 'read a b <<< "x  y z"; ./pargs "$a" "$b"; read c <<< "  q  "; ./pargs "$c"', 'files': F, 'expect_stdout': _argv(['x', 'y z']) + _argv(['q']), 'area': 'read:runs-of-blanks'},
        {'line': 'read a b c d <<< "1 2 3 4"; ./pargs "$a$b$c$d"', 'files': F, 'expect_stdout': _argv(['1234']), 'area': 'read'},
        {'line': 'mkdir -p d1/d2; cd d1/d2; basename $PWD; pwd | xargs basename; sh -c "basename \\$PWD"', 'files': F, 'expect_stdout': 'd2\nd2\nd2\n', 'area': 'cd:relative'},
        {'line': 'mkdir -p d1/d2; cd d1/d2; cd ..; basename $PWD; cd ..; cd d1; echo x > rel; cat d2/../rel', 'files': F, 'expect_stdout': 'd1\nx\n', 'area': 'cd:dotdot'},
        {'line': 'mkdir d1; cd d1; cd; test "$PWD" = "$HOME" && echo home', 'files': F, 'expect_stdout': 'home\n', 'area': 'cd:no-argument'},
        {'line': 'mkdir d1 d2; cd d1; cd ../d2; cd -; basename $PWD', 'files': F, 'expect_stdout_last_line': 'd1', 'area': 'cd:dash'},
        {'line': 'mkdir d1; cd d1; cd /nonexistent-xyz; echo rc=$?; basename $PWD', 'files': F, 'expect_stdout': 'rc=1\nd1\n', 'area': 'cd:failed'},
        {'line': 'mkdir d1; cd d1; cd ../pargs; echo rc=$?; basename $PWD', 'files': F, 'expect_stdout': 'rc=1\nd1\n', 'area': 'cd:not-a-directory'},
        {'line': 'mkdir d1 d2; cd d1; cd /nonexistent-xyz; cd ../d2; cd -; basename $PWD', 'files': F, 'expect_stdout_last_line': 'd1', 'area': 'cd:dash-after-failed'},
        {'line': 'mkdir real; ln -s real lnk; cd lnk; echo x > here; cd ..; cat real/here', 'files': F, 'expect_stdout': 'x\n', 'area': 'cd:symlink'},
        {'line': 'mkdir d1; cd d1; echo x > f; cd ..; cat d1/f', 'files': F, 'expect_stdout': 'x\n', 'area': 'cd:relative-redirect'},
        {'line': 'mkdir -p real/sub; ln -s real lnk; cd $HOME/lnk/sub; test "$PWD" = "$(/bin/pwd -P)" && echo same; sh -c \'test "$PWD" = "$(/bin/pwd -P)" && echo child-same\'; cd $HOME/real/sub/../; basename $PWD; cd $HOME/real/; basename $PWD',
         'files': F, 'expect_stdout': 'same\nchild-same\nreal\nreal\n', 'area': 'cd:absolute-path-is-resolved'},
        {'line': 'export HOME=/nonexistent-xyz; cd; echo rc=$?', 'files': F, 'expect_stdout': 'rc=1\n', 'area': 'cd:no-argument-failed'},
    ]
    # random histories of assign / export / unset / prefixed command over two names, checked after every step against the model the property states
    rnd = random.Random(seed + 9)
    ENV2 = '#!/bin/sh\nprintf "<%s|%s>\\n" "$A" "$B"\n'
    vals = ['x', 'a b', 'p=q', 'r:s', '', 'v2']
    for _ in range(30 if tier == 'quick' else 300):
        sh, ex, lines, exp = {}, {}, [], []
        for step in range(rnd.randint(3, 8)):
            n_ = rnd.choice(['A', 'B'])
            v = rnd.choice(vals)
            op = rnd.choice(['assign', 'assign', 'export', 'unset', 'prefix'])
            if op == 'assign':
                lines.append("%s='%s'" % (n_, v))
                if n_ in ex:
                    ex[n_] = v
                else:
                    sh[n_] = v
            elif op == 'export':
                lines.append("export %s='%s'" % (n_, v))
                ex[n_] = v
                sh.pop(n_, None)
            elif op == 'unset':
                lines.append('unset %s' % n_)
                sh.pop(n_, None); ex.pop(n_, None)
            else:
                lines.append("%s='%s' ./env2" % (n_, v))
                e2 = dict(ex); e2[n_] = v
                exp.append('<%s|%s>' % (e2.get('A', ''), e2.get('B', '')))
            lines.append('./pargs "$A" "${B}"; ./env2')
            exp += ['[%s]' % sh.get('A', ex.get('A', '')), '[%s]' % sh.get('B', ex.get('B', '')), '<%s|%s>' % (ex.get('A', ''), ex.get('B', ''))]
        out.append({'script': '\n'.join(lines) + '\n', 'files': {'pargs': PARGS, 'env2': ENV2}, 'expect_stdout': '\n'.join(exp) + '\n', 'area': 'vars:random-history', 'timeout': 10})
    return out


# ------------------------------------------------------------------ C15: scripts, functions, source, exit
def c15(tier, seed):
    F = {'pargs': PARGS, 'st': ST}
    out = [
        {'script': './pargs "$1" "$2" "${3}" "$@"\n', 'args': ['x', 'y z'], 'files': F, 'expect_stdout_any': [_argv(['x', 'y z', '', 'x y z']), _argv(['x', 'y z', '', 'x', 'y z'])], 'area': 'script:arguments'},
        {'script': './pargs "[$1]" "[${2}]"\n', 'args': [], 'files': F, 'expect_stdout': _argv(['[]', '[]']), 'area': 'script:missing-arguments'},
        # KNOWN FINDING (recorded, not repaired): an argument's text is pasted into the line before it is split and expanded again
        {'script': './pargs [$1]\n', 'args': ['a;echo INJECTED'], 'files': F, 'expect_stdout': _argv(['[a;echo INJECTED]']), 'area': 'script:arguments:value-reread-as-syntax'},
        {'script': './pargs "[$1]"\n', 'args': ['p$HOME'], 'files': F, 'expect_stdout': _argv(['[p$HOME]']), 'area': 'script:arguments:value-reread-as-syntax'},
        {'script': 'function f() {\n    ./pargs "$0" "$1" "$2"\n}\nf a b\n', 'files': F, 'expect_stdout': _argv(['f', 'a', 'b']), 'area': 'function:arguments'},
        {'script': 'function f() {\n    ./pargs "$0" "[$1]"\n}\nf\n', 'args': ['outer'], 'files': F, 'expect_stdout': _argv(['f', '[]']), 'area': 'function:missing-arguments'},
        {'script': 'function my-f_1 {\n    echo in\n}\nmy-f_1\n', 'files': F, 'expect_stdout': 'in\n', 'area': 'function:header-spelling'},
        {'script': 'function f() {\n    ./st a 3\n}\nf\necho "st=$?"\n', 'files': F, 'expect_stdout': 'a\nst=3\n', 'area': 'function:status'},
        {'script': 'function f() {\n    ./st a 3\n    ./st b 0\n}\nf\necho "st=$?"\n', 'files': F, 'expect_stdout': 'a\nb\nst=0\n', 'area': 'function:status'},
        {'script': './st a 4\n', 'files': F, 'expect_stdout': 'a\n', 'expect_rc': 4, 'area': 'script:status'},
        {'script': './st a 4\n./st b 0\n', 'files': F, 'expect_stdout': 'a\nb\n', 'expect_rc': 0, 'area': 'script:status'},
        {'script': 'echo a\nexit 5\necho b\n', 'files': F, 'expect_stdout': 'a\n', 'expect_rc': 5, 'area': 'exit'},
        {'script': 'function f() {\n    exit 6\n}\necho a\nf\necho b\n', 'files': F, 'expect_stdout': 'a\n', 'expect_rc': 6, 'area': 'exit:in-function'},
        {'script': 'set -e\necho a\n./st b 3\necho c\n', 'files': F, 'expect_stdout': 'a\nb\n', 'expect_rc': 3, 'area': 'set-e'},
        {'script': 'echo a\n./st b 3\necho c\n', 'files': F, 'expect_stdout': 'a\nb\nc\n', 'expect_rc': 0, 'area': 'no-set-e'},
        {'script': 'function f() {\n    echo in-f\n}\nset -e\nf\n./st b 3\necho c\n', 'files': F, 'expect_stdout': 'in-f\nb\n', 'expect_rc': 3, 'area': 'set-e:after-function-call'},
        {'script': 'function f() {\n    ./st in-f 4\n    echo not-reached\n}\nset -e\nf\necho c\n', 'files': F, 'expect_stdout': 'in-f\n', 'expect_rc': 4, 'area': 'set-e:inside-function'},
        {'script': 'set -e\n./st a 0\n./st b 0\n', 'files': F, 'expect_stdout': 'a\nb\n', 'expect_rc': 0, 'area': 'set-e'},
        # ... also in the middle of a line, and after a file was sourced; a failure inside an && / || list that goes on is not one
        {'script': 'set -e\n./st a 4; ./st no 0\necho no2\n', 'files': F, 'expect_stdout': 'a\n', 'expect_rc': 4, 'area': 'set-e:middle-of-a-line'},
        {'script': 'set -e\n./st a 4 && ./st no 0; ./st b 0\n./st c 5 || ./st d 0; ./st e 0\n./st f 0 && ./st g 6; ./st no 0\necho no2\n', 'files': F, 'expect_stdout': 'a\nb\nc\nd\ne\nf\ng\n', 'expect_rc': 6, 'area': 'set-e:middle-of-a-line'},
        {'script': 'set -e\nsource lib.sh\n./st a 3\necho no\n', 'files': dict(F, **{'lib.sh': 'echo inner\n'}), 'expect_stdout': 'inner\na\n', 'expect_rc': 3, 'area': 'set-e:after-source'},
        # set -e at every kind of position: the failing command ends the script wherever it stands
        {'script': 'set -e\nif true\n    ./st a 4\n    echo no1\nfi\necho no2\n', 'files': F, 'expect_stdout': 'a\n', 'expect_rc': 4, 'area': 'set-e:inside-if'},
        {'script': 'set -e\nif false\n    echo no\nelse\n    ./st a 4\n    echo no1\nfi\necho no2\n', 'files': F, 'expect_stdout': 'a\n', 'expect_rc': 4, 'area': 'set-e:inside-else'},
        {'script': 'set -e\nfor x in 1 2\n    ./st $x 5\n    echo no1\ndone\necho no2\n', 'files': F, 'expect_stdout': '1\n', 'expect_rc': 5, 'area': 'set-e:inside-for'},
        {'script': 'set -e\nwhile true\n    ./st a 8\n    echo no1\ndone\necho no2\n', 'files': F, 'expect_stdout': 'a\n', 'expect_rc': 8, 'area': 'set-e:inside-while', 'timeout': 8},
        {'script': 'set -e\nif true\n    if true\n        ./st a 9\n        echo no1\n    fi\n    echo no2\nfi\necho no3\n', 'files': F, 'expect_stdout': 'a\n', 'expect_rc': 9, 'area': 'set-e:nested'},
        {'script': 'set -e\nfor x in 1 2\n    if true\n        ./st $x 3\n    fi\n    echo no1\ndone\necho no2\n', 'files': F, 'expect_stdout': '1\n', 'expect_rc': 3, 'area': 'set-e:nested'},
        # ... and a test that fails, a loop that ends, a branch not taken or a comment line are not failing commands
        {'script': 'set -e\nif false\n    echo no\nfi\necho r1\nx=0\nwhile [ $x -lt 2 ]\n    x=$(expr $x + 1)\ndone\n# a comment\necho r2\n./st z 6\necho no\n', 'files': F,
         'expect_stdout': 'r1\nr2\nz\n', 'expect_rc': 6, 'area': 'set-e:tests-are-not-failures'},
        {'script': 'set -e\nfor x in a b\n    if [ $x = a ]\n        continue\n    fi\n    echo x=$x\ndone\nfor y in a b\n    if [ $y = a ]\n        break\n    fi\ndone\necho r3\n', 'files': F,
         'expect_stdout': 'x=b\nr3\n', 'expect_rc': 0, 'area': 'set-e:tests-are-not-failures'},
        {'script': 'function f() {\n    x=0\n    while [ $x -lt 1 ]\n        x=1\n    done\n    # comment\n    echo in-f\n}\nset -e\nf\necho after\n', 'files': F,
         'expect_stdout': 'in-f\nafter\n', 'expect_rc': 0, 'area': 'set-e:tests-are-not-failures:in-function'},
        # without set -e a failing command inside a construct ends nothing
        {'script': 'if true\n    ./st a 4\n    echo y1\nfi\nfor x in 1\n    ./st b 5\n    echo y2\ndone\necho y3\n', 'files': F, 'expect_stdout': 'a\ny1\nb\ny2\ny3\n', 'expect_rc': 0, 'area': 'no-set-e:inside-constructs'},
        {'script': "./pargs 'x' $1 \"$2\" `echo y` ${1}\n", 'args': ['a', 'b'], 'files': F, 'expect_stdout': _argv(['x', 'a', 'b', 'y', 'a']), 'area': 'script:arguments:after-quoted-words'},
        {'script': 'source lib.sh\n$HOME/pargs "$V"\nlf x\nal\nbasename $PWD\n',
         'files': dict(F, **{'lib.sh': 'V=fromlib\nfunction lf() {\n    echo "lf:$1"\n}\nalias al="echo aliased"\nmkdir -p sub\ncd sub\n'}),
         'expect_stdout': '[fromlib]\nlf:x\naliased\nsub\n', 'area': 'source:persists'},
        {'script': 'for x in a b\n    ./st $x 3\n    break\ndone\n', 'files': F, 'expect_stdout': 'a\n', 'expect_rc': 3, 'area': 'script:status:loop-with-break'},
        {'script': './st z 0\nfor x in a b\n    ./st $x 4\ndone\n', 'files': F, 'expect_stdout': 'z\na\nb\n', 'expect_rc': 4, 'area': 'script:status:loop'},
        {'script': 'function g {\n    ./st g 2\n}\nfunction h() {\n    g\n}\nh\necho "st=$?"\n', 'files': F, 'expect_stdout': 'g\nst=2\n', 'area': 'function:nested-status'},
        {'script': 'function f() { \n    echo in-f\n}\t\n  function g {  \n    echo in-g $1\n  }  \nf\ng x\n', 'files': F, 'expect_stdout': 'in-f\nin-g x\n', 'area': 'function:blanks-around-the-header-and-the-closing-brace'},
        {'script': './pargs `echo $2` $(echo $1) "`echo $1`" x`echo $2`y\nfunction f() {\n    ./pargs `echo $1$0`\n}\nf q\n', 'args': ['AA', 'BB'], 'files': F,
         'expect_stdout': _argv(['BB', 'AA', 'AA', 'xBBy']) + _argv(['qf']), 'area': 'script:arguments:inside-a-backquoted-command'},
        {'script': 'set -e\nif ./st t 1\n    echo no\nfi\necho after\nwhile ./st w 1\n    echo no\ndone\nif ./st u 1\n    echo no\nelse\n    echo else\nfi\nif ./st v 2\n    echo no\nfi\n', 'files': F,
         'expect_stdout': 't\nafter\nw\nu\nelse\nv\n', 'expect_rc': 0, 'area': 'set-e:a-failing-test-is-not-a-failure'},
        {'script': 'function f() {\n    echo one\n}\nf\nfunction f() {\n    echo two $1\n}\nsource lib.sh\nf x\n', 'files': dict(F, **{'lib.sh': 'function g() {\n    echo g\n}\n'}), 'expect_stdout_any': ['two\ntwo x\n', 'one\ntwo x\n'], 'area': 'function:defined-again'},
        {'script': 'function f() {\n    echo mine\n}\nsource lib.sh\nf\n', 'files': dict(F, **{'lib.sh': 'function f() {\n    echo lib\n}\n'}), 'expect_stdout': 'lib\n', 'area': 'function:defined-again:by-a-sourced-file'},
        {'script': 'for x in $1 $@\n    ./pargs "$x"\ndone\nfunction w() {\n    for y in $0 $2\n        ./pargs "$y"\n    done\n}\nw a b\n', 'args': ['P', 'Q'], 'files': F,
         'expect_stdout': _argv(['P']) + _argv(['P']) + _argv(['Q']) + _argv(['w']) + _argv(['b']), 'area': 'script:arguments:in-a-for-list'},
        {'script': 'function a-b_c() {\n    echo "$0:$1"\n}\na-b_c x\n', 'files': F, 'expect_stdout': 'a-b_c:x\n', 'area': 'function:name-charset'},
        {'script': 'source lib.sh\necho "st=$?"\n', 'files': dict(F, **{'lib.sh': './st a 3\n'}), 'expect_stdout': 'a\nst=3\n', 'area': 'source:status'},
        # an argument is inserted as it is, also when it holds `$` followed by digits, a name in braces or a dot
        {'script': 'echo "one:$1:"\necho "two:$2:"\nfunction show() {\n    echo "func:$0:$1:$2:"\n}\nshow "$1" \'$3.50\'\n', 'args': ['US$5', 'tag-${1}-end'], 'files': F,
         'expect_stdout': 'one:US$5:\ntwo:tag-${1}-end:\nfunc:show:US$5:$3.50:\n', 'area': 'script:arguments:value-with-dollar-digits'},
        # `source` with an output redirection on its line still runs the file in the current shell
        {'script': 'source lib.sh > load.log\necho "var:$V:"\nlf x\nbasename $PWD\n', 'files': dict(F, **{'lib.sh': 'V=from-lib\nfunction lf() {\n    echo "lf got $1"\n}\nmkdir -p sub\ncd sub\n'}),
         'expect_stdout': 'var:from-lib:\nlf got x\nsub\n', 'area': 'source:persists:with-a-redirection-on-the-line'},
        # many files that are not there, then one that is: it is run in the current shell like the first one would have been
        {'script': ''.join('source nosuch%d.sh\n' % i for i in range(80)) + 'source lib.sh w\necho "st=$? $LIBV"\nlibf\n', 'files': dict(F, **{'lib.sh': 'LIBV=set\nfunction libf() {\n    echo in-libf\n}\n'}),
         'expect_stdout': 'st=0 set\nin-libf\n', 'area': 'source:after-many-failed-sources', 'timeout': 20},
        # the status of a script that ends in a long loop is that of the last command the loop ran
        {'script': 'for x in ' + ' '.join(str(i) for i in range(300)) + '\n    ./eq $x 299 && ./st last 1\ndone\n', 'files': dict(F, eq=EQ), 'expect_stdout': 'last\n', 'expect_rc': 1, 'area': 'script:status:long-loop', 'timeout': 30},
        {'script': 'function chk() {\n    for y in $@\n        ./eq $y 5 || ./st bad 1\n    done\n}\nchk ' + ' '.join(['5'] * 280) + ' 6\necho "st=$?"\n', 'files': dict(F, eq=EQ), 'expect_stdout': 'bad\nst=1\n', 'area': 'function:status:long-loop', 'timeout': 30},
        {'script': 'source l1.sh\necho "$V3"\n', 'files': dict(F, **{'l1.sh': 'source l2.sh\n', 'l2.sh': 'source l3.sh\n', 'l3.sh': 'V3=deep\n'}), 'expect_stdout': 'deep\n', 'area': 'source:chain'},
    ]
    return out


# ------------------------------------------------------------------ C14: block structure (grammar + interpreter through the real binary)
# cnt <name> <n>: the test of a while loop: passes n times, then fails once and starts over (state in a file, so a loop that is entered again counts again)
CNT = ('#!/bin/sh\nf=".cnt.$1"; c=0; [ -f "$f" ] && c=$(cat "$f"); c=$((c+1))\n'
       'if [ "$c" -le "$2" ]; then echo "$c" > "$f"; echo "w:$1:$c"; exit 0; else rm -f "$f"; echo "w:$1:end"; exit 1; fi\n')
EQ = '#!/bin/sh\n[ "$1" = "$2" ]\n'      # eq <a> <b>: silent comparison


class _Brk(Exception):
    pass


class _Cont(Exception):
    pass


def _c14_gen(rnd, depth, in_loop, ids, budget):
    """a random statement list (nested to `depth`), as a tree: ('cmd', tag) | ('if', [(tag, rc, body)...], else_body|None) | ('for', var, words, body)
    | ('while', name, n, body) | ('break',) | ('continue',) | ('ifeq', var, word, body)  (a break / continue is generated only inside a loop)"""
    out = []
    n = rnd.randint(1, 3)
    for _ in range(n):
        if budget[0] <= 0:
            break
        budget[0] -= 1
        k = rnd.random()
        ids[0] += 1
        t = 'c%d' % ids[0]
        if depth <= 0 or k < 0.35:
            out.append(('cmd', t))
        elif k < 0.55:
            brs = [(t + 'a', rnd.choice([0, 1, 1, 2]), _c14_gen(rnd, depth - 1, in_loop, ids, budget))]
            for j in range(rnd.randint(0, 2)):
                brs.append((t + 'e%d' % j, rnd.choice([0, 1, 1]), _c14_gen(rnd, depth - 1, in_loop, ids, budget)))
            els = _c14_gen(rnd, depth - 1, in_loop, ids, budget) if rnd.random() < 0.5 else None
            out.append(('if', brs, els))
        elif k < 0.72:
            words = [rnd.choice('pqrs') + str(j) for j in range(rnd.randint(0, 3))]
            out.append(('for', 'v%d' % ids[0], words, _c14_gen(rnd, depth - 1, ('for', 'v%d' % ids[0], words), ids, budget)))
        elif k < 0.86:
            out.append(('while', 'l%d' % ids[0], rnd.randint(0, 3), _c14_gen(rnd, depth - 1, ('while',), ids, budget)))
        elif in_loop:
            # a break / continue: plain, or guarded by the value of the loop variable / an if that passes or fails
            kind = rnd.choice(['break', 'continue'])
            if in_loop[0] == 'for' and in_loop[2] and rnd.random() < 0.6:
                out.append(('ifeq', in_loop[1], rnd.choice(in_loop[2]), [(kind,)]))
            elif rnd.random() < 0.5:
                out.append(('if', [(t + 'g', rnd.choice([0, 1]), [('cmd', t + 'x'), (kind,)])], None))
            else:
                out.append((kind,))
        else:
            out.append(('cmd', t))
    if not out:
        ids[0] += 1
        out.append(('cmd', 'c%d' % ids[0]))
    return out


def _c14_text(body, ind, style):
    """the script text of a statement list; style picks between the spellings the grammar accepts (`; then` / `; do` or a bare newline, indentation)"""
    pad = ' ' * (ind * style['w'])
    then = '; then' if style['then'] else ''
    do = '; do' if style['do'] else ''
    tb = style.get('tb', '')     # blanks behind a keyword that stands alone on its line (else / fi / done)
    ls = []
    for st in body:
        if st[0] == 'cmd':
            ls.append(pad + './st %s 0' % st[1])
        elif st[0] in ('break', 'continue'):
            ls.append(pad + st[0])
        elif st[0] == 'ifeq':
            ls.append(pad + 'if ./eq $%s %s%s' % (st[1], st[2], then))
            ls += _c14_text(st[3], ind + 1, style)
            ls.append(pad + 'fi' + tb)
        elif st[0] == 'if':
            for j, (tag, rc, b) in enumerate(st[1]):
                ls.append(pad + ('if' if j == 0 else style.get('elif', 'else if')) + ' ./st %s %d%s' % (tag, rc, then))
                ls += _c14_text(b, ind + 1, style)
            if st[2] is not None:
                ls.append(pad + 'else' + tb)
                ls += _c14_text(st[2], ind + 1, style)
            ls.append(pad + 'fi' + tb)
        elif st[0] == 'for':
            ls.append(pad + 'for %s in %s%s' % (st[1], ' '.join(st[2]) if st[2] else '$NOTHING_SET', do))
            ls.append(pad + ' ' * style['w'] + './st %s=$%s 0' % (st[1], st[1]))
            ls += _c14_text(st[3], ind + 1, style)
            ls.append(pad + 'done' + tb)
        elif st[0] == 'while':
            ls.append(pad + 'while ./cnt %s %d%s' % (st[1], st[2], do))
            ls += _c14_text(st[3], ind + 1, style)
            ls.append(pad + 'done' + tb)
    return ls


def _c14_run(body, env, out, fuel):
    """the structured semantics the statement prescribes (the reference): appends the lines the script must print"""
    for st in body:
        fuel[0] -= 1
        if fuel[0] < 0:
            raise OverflowError
        if st[0] == 'cmd':
            out.append(st[1])
        elif st[0] == 'break':
            raise _Brk()
        elif st[0] == 'continue':
            raise _Cont()
        elif st[0] == 'ifeq':
            if env.get(st[1]) == st[2]:
                _c14_run(st[3], env, out, fuel)
        elif st[0] == 'if':
            done = False
            for tag, rc, b in st[1]:
                out.append(tag)
                if rc == 0:
                    _c14_run(b, env, out, fuel)
                    done = True
                    break
            if not done and st[2] is not None:
                _c14_run(st[2], env, out, fuel)
        elif st[0] == 'for':
            for wd in st[2]:
                env[st[1]] = wd
                out.append('%s=%s' % (st[1], wd))
                try:
                    _c14_run(st[3], env, out, fuel)
                except _Brk:
                    break
                except _Cont:
                    continue
        elif st[0] == 'while':
            # the test helper keeps its count in a file: a loop that was left by `break` goes on counting where it stopped when it is entered again
            cnt = env.setdefault('__cnt', {})
            while True:
                c = cnt.get(st[1], 0) + 1
                if c > st[2]:
                    cnt.pop(st[1], None)
                    out.append('w:%s:end' % st[1])
                    break
                cnt[st[1]] = c
                out.append('w:%s:%d' % (st[1], c))
                try:
                    _c14_run(st[3], env, out, fuel)
                except _Brk:
                    break
                except _Cont:
                    continue


def _c14_has_break_in_while(body, in_while=False):
    for st in body:
        if st[0] == 'break' and in_while:
            return True
        if st[0] in ('ifeq',) and _c14_has_break_in_while(st[3], in_while):
            return True
        if st[0] == 'if':
            if any(_c14_has_break_in_while(b, in_while) for _, _, b in st[1]) or (st[2] is not None and _c14_has_break_in_while(st[2], in_while)):
                return True
        if st[0] == 'for' and _c14_has_break_in_while(st[3], False):
            return True
        if st[0] == 'while' and _c14_has_break_in_while(st[3], True):
            return True
    return False


def c14(tier, seed):
    import random
    F = {'st': ST, 'cnt': CNT, 'eq': EQ}
    out = [
        # fixed cases: one per clause of the statement
        {'script': 'if ./st t1 1\n    ./st no 0\nelse if ./st t2 0\n    ./st yes 0\nelse if ./st t3 0\n    ./st no 0\nelse\n    ./st no 0\nfi\n./st end 0\n', 'files': F, 'expect_stdout': 't1\nt2\nyes\nend\n', 'area': 'if:first-true-branch-only'},
        {'script': 'if ./st t1 2\n    ./st no 0\nelse\n    ./st else 0\nfi\n', 'files': F, 'expect_stdout': 't1\nelse\n', 'area': 'if:else'},
        {'script': 'if ./st t1 1\n    ./st no 0\nfi\n./st end 0\n', 'files': F, 'expect_stdout': 't1\nend\n', 'area': 'if:no-branch'},
        {'script': 'for x in a b c\n    ./st $x 0\ndone\n', 'files': F, 'expect_stdout': 'a\nb\nc\n', 'area': 'for:each-word-in-order'},
        {'script': 'for x in a "b c" \'d e\' f\n    ./st "[$x]" 0\ndone\n', 'files': F, 'expect_stdout': '[a]\n[b c]\n[d e]\n[f]\n', 'area': 'for:quoted-words'},
        {'script': 'while ./cnt k 3\n    ./st body 0\ndone\n./st end 0\n', 'files': F, 'expect_stdout': 'w:k:1\nbody\nw:k:2\nbody\nw:k:3\nbody\nw:k:end\nend\n', 'area': 'while:test-before-every-round'},
        {'script': 'while ./cnt k 0\n    ./st no 0\ndone\n./st end 0\n', 'files': F, 'expect_stdout': 'w:k:end\nend\n', 'area': 'while:zero-rounds'},
        {'script': 'for x in a b\n    for y in 1 2 3\n        if ./eq $y 2\n            break\n        fi\n        ./st $x$y 0\n    done\n    ./st after-$x 0\ndone\n', 'files': F,
         'expect_stdout': 'a1\nafter-a\nb1\nafter-b\n', 'area': 'break:innermost-loop-only'},
        {'script': 'for x in a b\n    for y in 1 2 3\n        if ./eq $y 2\n            continue\n        fi\n        ./st $x$y 0\n    done\n    ./st after-$x 0\ndone\n', 'files': F,
         'expect_stdout': 'a1\na3\nafter-a\nb1\nb3\nafter-b\n', 'area': 'continue:innermost-loop-only'},
        {'script': 'while ./cnt k 3\n    for y in 1 2\n        break\n    done\n    ./st round 0\ndone\n', 'files': F, 'expect_stdout': 'w:k:1\nround\nw:k:2\nround\nw:k:3\nround\nw:k:end\n', 'area': 'break:in-for-inside-while'},
        {'script': 'for x in a b c\n    while ./cnt k 5\n        if ./eq $x b\n            break\n        fi\n        continue\n        ./st no 0\n    done\n    ./st $x 0\ndone\n', 'files': F,
         'expect_stdout_any': ['w:k:1\nw:k:2\nw:k:3\nw:k:4\nw:k:5\nw:k:end\na\nw:k:1\nb\nw:k:2\nw:k:3\nw:k:4\nw:k:5\nw:k:end\nc\n'], 'area': 'break-and-continue:while-inside-for', 'timeout': 12},
        {'script': 'for x in a b c\n    if ./eq $x b\n        if ./st deep 0\n            continue\n        fi\n        ./st no 0\n    fi\n    ./st $x 0\ndone\n', 'files': F, 'expect_stdout': 'a\ndeep\nc\n', 'area': 'continue:through-nested-ifs'},
        {'script': 'for x in a b c\n    if ./eq $x b\n        ./st pre 0\n    else\n        if ./eq $x c\n            break\n        fi\n    fi\n    ./st $x 0\ndone\n./st end 0\n', 'files': F, 'expect_stdout': 'a\npre\nb\nend\n', 'area': 'break:through-else-and-nested-if'},
        {'script': 'if ./st t 0; then\n    ./st a 0\nfi\nfor x in 1 2; do\n    ./st $x 0\ndone\nwhile ./cnt k 1; do\n    ./st b 0\ndone\n', 'files': F, 'expect_stdout': 't\na\n1\n2\nw:k:1\nb\nw:k:end\n', 'area': 'spelling:then-and-do'},
        {'script': 'if ./st t 0\n\n    ./st a 0\n\n    # comment\nfi\n\n./st end 0\n', 'files': F, 'expect_stdout': 't\na\nend\n', 'area': 'spelling:blank-and-comment-lines'},
        {'script': './st a 0\nbreak\n./st b 0\ncontinue\n./st c 0\n', 'files': F, 'expect_stdout': 'a\nb\nc\n', 'area': 'break-continue:outside-a-loop-is-diagnosed-and-ignored'},
        {'script': 'function f() {\n    for x in 1 2 3\n        if ./eq $x 2\n            break\n        fi\n        ./st f$x 0\n    done\n    ./st f-end 0\n}\nfor y in a b\n    f\n    ./st $y 0\ndone\n', 'files': F,
         'expect_stdout': 'f1\nf-end\na\nf1\nf-end\nb\n', 'area': 'break:inside-a-function-called-in-a-loop'},
        {'script': 'if ./st a 0 && ./st b 1\n    ./st no 0\nelse\n    ./st else 0\nfi\nif ./st c 1 || ./st d 0\n    ./st yes 0\nfi\nif ./st e 1; ./st f 0\n    ./st yes2 0\nfi\n', 'files': F,
         'expect_stdout': 'a\nb\nelse\nc\nd\nyes\ne\nf\nyes2\n', 'area': 'if:condition-is-the-status-of-the-test-line'},
        {'script': 'if ./st 1 0\n  if ./st 2 0\n    if ./st 3 0\n      if ./st 4 0\n        if ./st 5 0\n          for x in a\n            while ./cnt k 1\n              ./st deep-$x 0\n            done\n          done\n        fi\n      fi\n    fi\n  fi\nfi\n./st end 0\n', 'files': F,
         'expect_stdout': '1\n2\n3\n4\n5\nw:k:1\ndeep-a\nw:k:end\nend\n', 'area': 'nesting:depth-7'},
    ]
    out += [
        # blanks behind a keyword that stands alone on its line are not part of it
        {'script': 'if ./st t 1\n    ./st no 0\nelse  \n    ./st yes 0\nfi \n./st end 0\n', 'files': F, 'expect_stdout': 't\nyes\nend\n', 'area': 'spelling:blanks-behind-a-keyword'},
        {'script': 'if ./st t 0\n    ./st yes 0\nelse\t\n    ./st no 0\nfi\t\n./st end 0\n', 'files': F, 'expect_stdout': 't\nyes\nend\n', 'area': 'spelling:blanks-behind-a-keyword'},
        {'script': 'for x in 1 2\n    if ./eq $x 1\n        ./st one 0\n    else if ./eq $x 2 \n        ./st two 0\n    else \n        ./st other 0\n    fi  \ndone  \nwhile ./cnt k 1\n    ./st w 0\ndone\t\n./st end 0\n', 'files': F,
         'expect_stdout': 'one\ntwo\nw:k:1\nw\nw:k:end\nend\n', 'area': 'spelling:blanks-behind-a-keyword'},
        # (repair dbcdda2) several blanks between `else` and `if`
        {'script': 'if ./st a 1\n    ./st no 0\nelse  if ./st b 0\n    ./st yes 0\nfi\nif ./st c 1\n    ./st no 0\nelse \t if ./st d 1\n    ./st no 0\nelse\n    ./st else 0\nfi\n', 'files': F,
         'expect_stdout': 'a\nb\nyes\nc\nd\nelse\n', 'area': 'spelling:else-if-with-several-blanks'},
        # a break / continue inside a branch that is FOLLOWED by further branches ends the loop round at once: the later branches are not tried
        {'script': 'for x in 1 2 3\n    if ./eq $x 2\n        break\n    else\n        ./st $x 0\n    fi\ndone\n./st end 0\n', 'files': F, 'expect_stdout': '1\nend\n', 'area': 'break:in-a-branch-followed-by-else'},
        {'script': 'for x in 1 2 3\n    if ./eq $x 2\n        break\n    else if ./st testing-$x 0\n        ./st $x 0\n    fi\ndone\n./st end 0\n', 'files': F, 'expect_stdout': 'testing-1\n1\nend\n', 'area': 'break:in-a-branch-followed-by-else'},
        {'script': 'for x in 1 2 3\n    if ./eq $x 2\n        continue\n    else if ./st testing-$x 0\n        ./st $x 0\n    else\n        ./st no 0\n    fi\n    ./st after-$x 0\ndone\n', 'files': F,
         'expect_stdout': 'testing-1\n1\nafter-1\ntesting-3\n3\nafter-3\n', 'area': 'continue:in-a-branch-followed-by-else'},
        {'script': 'for x in a b\n    while ./cnt k 4\n        if ./st t 0\n            break\n        else\n            ./st no 0\n        fi\n        ./st no2 0\n    done\n    rm -f .cnt.k\n    ./st $x 0\ndone\n', 'files': F,
         'expect_stdout': 'w:k:1\nt\na\nw:k:1\nt\nb\n', 'area': 'break:in-a-branch-followed-by-else:while-inside-for'},
        # a `#` inside quotes or inside a word on the head line of a construct is a character of the test / the list
        {'script': 'if ./eq "k#1" "k#1"\n    ./st yes 0\nelse\n    ./st no 0\nfi\nfor x in a#b "c #d"\n    ./st "[$x]" 0\ndone\nif ./eq a#b a#c\n    ./st no 0\nelse if ./eq "x # y" "x # y"\n    ./st yes2 0\nfi\nwhile ./eq "#" "##"\n    ./st no 0\ndone\n', 'files': F,
         'expect_stdout': 'yes\n[a#b]\n[c #d]\nyes2\n', 'area': 'spelling:hash-inside-a-head-line'},
        # the loop variable is bound to each word also when a variable of that name is exported
        {'script': 'export n=0\nfor n in a b\n    ./st "n=$n" 0\n    sh -c \'echo "child:$n"\'\ndone\n', 'files': F, 'expect_stdout': 'n=a\nchild:a\nn=b\nchild:b\n', 'area': 'for:loop-variable-that-is-exported'},
        # a script that arrives through a pipe or a FIFO is the same script
        {'line': 'cat inner.sh | {CICADA} /dev/stdin; mkfifo p; sh -c "cat inner.sh > p" | {CICADA} p', 'files': dict(F, **{'inner.sh': 'for x in 1 2\n    if ./eq $x 2\n        break\n    fi\n    ./st "x=$x" 0\ndone\n./st end 0\n'}),
         'expect_stdout': 'x=1\nend\nx=1\nend\n', 'area': 'script-source:pipe-or-fifo', 'timeout': 10},
        # every word of the list gets its round -- an empty quoted word is a word
        {'script': 'E=\nfor x in first "" third \'\' "$E" last\n    ./st "[$x]" 0\ndone\n', 'files': F, 'expect_stdout': '[first]\n[]\n[third]\n[]\n[]\n[last]\n', 'area': 'for:empty-quoted-words'},
        # (repair 64cdb33) a comment behind break / continue is not part of the keyword; a `#` glued to it makes another word
        {'script': 'for x in 1 2 3\n    if ./eq $x 2\n        continue\t#skip two\n    fi\n    ./st $x 0\ndone\nfor y in 1 2\n    ./st y$y 0\n    break   #   leave\ndone\n./st end 0\n', 'files': F, 'expect_stdout': '1\n3\ny1\nend\n', 'area': 'break-continue:followed-by-a-comment'},
        {'script': 'for x in 1 2 3\n    ./st $x 0\n    break # leave\ndone\n./st end 0\n', 'files': F, 'expect_stdout': '1\nend\n', 'area': 'break-continue:followed-by-a-comment'},
    ]
    # keywords that do not balance: a diagnostic, and nothing after the point of the imbalance runs silently cut off (with the repair fb11690: nothing runs at all)
    for name, txt in [('if-without-fi', './st a 0\nif ./st t 0\n    ./st b 0\n./st c 0\n'), ('for-without-done', './st a 0\nfor x in 1 2\n    ./st $x 0\n./st c 0\n'),
                      ('while-without-done', './st a 0\nwhile ./cnt k 1\n    ./st b 0\n'), ('stray-fi', './st a 0\nfi\n./st c 0\n'), ('stray-done', './st a 0\ndone\n./st c 0\n'),
                      ('stray-else', './st a 0\nelse\n./st c 0\n'), ('fi-closing-a-for', 'for x in 1\n    ./st $x 0\nfi\n./st c 0\n'), ('done-closing-an-if', 'if ./st t 0\n    ./st b 0\ndone\n./st c 0\n'),
                      ('extra-done-after-a-loop', 'for x in 1\n    ./st $x 0\ndone\ndone\n./st c 0\n'), ('inner-if-not-closed', 'for x in 1 2\n    if ./st t 0\n        ./st b 0\ndone\n./st c 0\n'),
                      ('else-after-else', 'if ./st t 1\n    ./st b 0\nelse\n    ./st c 0\nelse\n    ./st d 0\nfi\n./st e 0\n'), ('empty-if-body', 'if ./st t 0\nfi\n./st c 0\n')]:
        out.append({'script': txt, 'files': F, 'expect_stderr_contains': 'syntax error', 'expect_no_stdout_line': 'c', 'area': 'unbalanced:' + name})
    # generated programs against the reference semantics
    rnd = random.Random(1400 + seed)
    n = 60 if tier == 'quick' else 400
    made = 0
    guard = 0
    while made < n and guard < 20 * n:
        guard += 1
        ids = [0]
        body = _c14_gen(rnd, rnd.randint(1, 4), None, ids, [rnd.randint(4, 16)])
        style = {'w': rnd.choice([0, 2, 4]), 'then': rnd.random() < 0.3, 'do': rnd.random() < 0.3, 'tb': rnd.choice(['', '', ' ', '  ', '\t']), 'elif': rnd.choice(['else if', 'else if', 'else  if', 'else \t if'])}
        exp = []
        try:
            _c14_run(body, {}, exp, [400])
        except OverflowError:
            continue
        except (_Brk, _Cont):
            continue
        text = '\n'.join(_c14_text(body, 0, style)) + '\n'
        if len(exp) < 2:
            continue
        out.append({'script': text, 'files': F, 'expect_stdout': ''.join(x + '\n' for x in exp), 'expect_rc_any': None, 'area': 'generated:depth-%d' % max(1, text.count('\n') // 8), 'timeout': 20})
        made += 1
    return out


# ------------------------------------------------------------------ C02: pipelines
def c02(tier, seed):
    F = {'st': ST}
    out = [
        {'line': 'echo a | cat', 'expect_stdout': 'a\n', 'expect_rc': 0, 'area': 'pipeline:bytes'},
        {'line': 'echo a | cat | cat | cat | cat | cat', 'expect_stdout': 'a\n', 'expect_rc': 0, 'area': 'pipeline:six-stages'},
        {'line': 'head -c 200000 /dev/zero | wc -c', 'expect_stdout': '200000\n', 'area': 'pipeline:large-payload', 'timeout': 10},
        {'line': 'head -c 200000 /dev/zero | cat | cat | wc -c', 'expect_stdout': '200000\n', 'area': 'pipeline:large-payload', 'timeout': 10},
        {'line': 'head -c 300000 /dev/zero | head -c 10 | wc -c', 'expect_stdout': '10\n', 'area': 'pipeline:sigpipe', 'timeout': 10},
        {'line': 'yes | head -n 3', 'expect_stdout': 'y\ny\ny\n', 'area': 'pipeline:sigpipe', 'timeout': 10},
        {'line': 'true | cat', 'expect_stdout': '', 'expect_rc': 0, 'area': 'pipeline:empty-payload'},
        {'line': 'echo \\$HOME|wc -c; ./st x 0 \\|a|./st last 7', 'files': F, 'expect_stdout': '6\nlast\n', 'expect_rc': 7, 'area': 'pipeline:pipe-glued-behind-a-word-that-starts-with-an-escape'},
        # a middle stage that cannot be started (no descriptor for its here-string): the stages behind it are started all the same and see end-of-file
        {'line': "ulimit -n 7; printf 'a\\n' | cat <<< x | wc -l", 'expect_stdout': '0\n', 'expect_rc': 1, 'area': 'pipeline:a-stage-that-cannot-be-started:the-later-stages-run', 'timeout': 10},
        {'line': 'B=$(./big); true <<< $B | cat; echo "st=$?"; sh -c : <<< $B | wc -c; echo done', 'files': {'big': '#!/bin/sh\nhead -c 200000 /dev/zero | tr "\\0" a\n'}, 'expect_stdout': 'st=0\n0\ndone\n', 'area': 'pipeline:here-string-larger-than-a-pipe-that-is-not-read', 'timeout': 15},
        {'line': 'echo caf\u00e9 | wc -c; echo \u00e9 | cat | tr a-z A-Z | cat', 'expect_stdout': '6\n\u00e9\n', 'area': 'pipeline:non-ascii-text-in-front-of-a-pipe', 'timeout': 10},
        {'line': 'seq 3 | ./lg mid > no-such-dir/out.txt | ./lg last; echo "st=$?"; cat log', 'files': {'lg': '#!/bin/sh\necho "start:$1" >> log\ncat > /dev/null\n'},
         'expect_stdout': 'st=0\nstart:last\n', 'area': 'pipeline:a-stage-that-cannot-open-its-output:the-others-start-once', 'timeout': 10},
        {'script': 'seq 3 | ./lg mid > no-such-dir/out.txt | ./lg last\necho after >> log\ncat log\n', 'files': {'lg': '#!/bin/sh\necho "start:$1" >> log\ncat > /dev/null\n'},
         'expect_stdout': 'start:last\nafter\n', 'area': 'pipeline:a-stage-that-cannot-open-its-output:the-others-start-once', 'timeout': 10},
        {'script': 'sleep 0.3 &\nsh -c "sleep 0.8; echo first-done >> m" | sh -c "sleep 1.4; echo last-done >> m; exit 7"\necho "st=$?"\ncat m\n', 'expect_stdout': 'st=7\nfirst-done\nlast-done\n',
         'area': 'pipeline:a-background-job-ends-while-the-pipeline-runs', 'timeout': 12},
        {'line': './st a 3 | ./st b 5', 'files': F, 'expect_stdout': 'b\n', 'expect_rc': 5, 'area': 'pipeline:status-of-last'},
        {'line': './st a 3 | cat', 'files': F, 'expect_stdout': 'a\n', 'expect_rc': 0, 'area': 'pipeline:status-of-last'},
        {'line': 'sh -c "sleep 0.3; exit 3" | sh -c "exit 5"', 'expect_rc': 5, 'area': 'pipeline:finish-order', 'timeout': 10},
        {'line': 'sh -c "exit 3" | sh -c "sleep 0.3; exit 5"', 'expect_rc': 5, 'area': 'pipeline:finish-order', 'timeout': 10},
        {'line': 'sh -c "sleep 0.2; exit 1" | sh -c "sleep 0.4; exit 2" | sh -c "exit 9"', 'expect_rc': 9, 'area': 'pipeline:finish-order', 'timeout': 10},
        {'line': "echo a | sh -c 'kill -9 $$'", 'expect_rc': 137, 'area': 'pipeline:killed-last-stage'},
        {'line': "echo a | sh -c 'kill -15 $$'", 'expect_rc': 143, 'area': 'pipeline:killed-last-stage'},
        {'line': 'sh -c "exit 255"', 'expect_rc': 255, 'area': 'pipeline:exit-codes'},
        {'line': 'echo a | sh -c "cat; exit 77"', 'expect_stdout': 'a\n', 'expect_rc': 77, 'area': 'pipeline:exit-codes'},
        {'line': 'echo a | nosuchcmd-xyz; echo rc=$?', 'expect_stdout_last_line_not': 'rc=0', 'area': 'pipeline:not-found-last', 'timeout': 8},
        {'line': 'nosuchcmd-xyz | cat; echo rc=$?', 'expect_stdout': 'rc=0\n', 'area': 'pipeline:not-found-first', 'timeout': 8},
        {'line': 'echo a | nosuchcmd-xyz | cat; echo rc=$?', 'expect_stdout': 'rc=0\n', 'area': 'pipeline:not-found-middle', 'timeout': 8},
        {'line': 'echo b | cat | echo c', 'expect_stdout': 'c\n', 'area': 'pipeline:builtin-last'},
        {'line': 'echo b | cat', 'expect_stdout': 'b\n', 'area': 'pipeline:builtin-first'},
        {'line': 'echo x > n; echo a | sh -c "echo 1 >> n; cat" | cat; cat n', 'expect_stdout': 'a\nx\n1\n', 'area': 'pipeline:each-stage-once'},
        # a quoted or escaped `&` as the last word is an argument: the pipeline is still waited for and reports the last stage's status
        {'line': "./slow | tr -d '&'; echo \"rc=$?\"; sh -c 'sleep 0.2; exit 7' | ./st last \\&; echo \"rc=$?\"", 'files': {'st': '#!/bin/sh\ncat >/dev/null; echo \"$1 $2\"; exit 9\n', 'slow': "#!/bin/sh\nsleep 0.3; echo 'a&b'; echo c\n"},
         'expect_stdout': 'ab\nc\nrc=0\nlast &\nrc=9\n', 'timeout': 8, 'area': 'pipeline:quoted-ampersand-as-the-last-word'},
        # KNOWN FINDING (recorded, not repaired): a here-string larger than two pipe buffers in a stage that is not the last (the shell writes it before the next stage exists)
        {'line': 'cat <<< "$(head -c 300000 /dev/zero | tr \\0 a)" | wc -c', 'expect_stdout': '300001\n', 'timeout': 4, 'area': 'pipeline:here-string-larger-than-the-pipes-in-a-non-last-stage'},
    ]
    return out


# ------------------------------------------------------------------ C01: quoted / escaped arguments (see probes.probe_c01 for the alphabet)
def c01(tier, seed):
    alpha = ['&', '<', '<<<', '|', ';', '>', '>>', '2>&1', '#', '*', '~', '{a,b}', '$HOME', 'a b', '']
    cases = []
    for a in alpha:
        for q in ("'", '"'):
            if q == '"' and '$' in a:
                continue
            cases.append([(q, a)])
            cases.append([("'", 'x'), (q, a)])
            cases.append([(q, a), ("'", 'y')])
            cases.append([(q, a), ('|', '')])
    for a in alpha + ['a>', '>a', 'a<b', 'a|', '&a', 'a&', 'a$HOME', '~/x', 'a*', '`echo`', '{1..3}', '$$', '$(echo)', '||', '&&', 'a;b', '#a', '(', ')', '!', '=', '%', '^', '?', '[a]', ',', 'é*']:
        if a == '':
            continue
        cases.append([('\\', a)])
        cases.append([('', 'x'), ('\\', a)])
        cases.append([('\\', a), ('', 'y')])
        cases.append([('\\', a), ('\\', a)])
        cases.append([('\\', a), ('|', '')])

    # two escaped words of different kinds next to each other
    for a in ('|', '$HOME', '>', '|x', '$'):
        for b in ('~', '*', '&', '>a', '{a,b}', '<', '`echo`'):
            cases.append([('\\', a), ('\\', b)])
            cases.append([('\\', b), ('\\', a)])

    def wr(q, a):
        if q == '\\':
            return ''.join(ch if (ch.isalnum() or ord(ch) > 127) else '\\' + ch for ch in a)
        return q + a + q
    out = []
    for args in cases:
        piped = args[-1][0] == '|'
        if piped:
            args = args[:-1]
        line = './pargs ' + ' '.join(wr(q, a) for q, a in args) + ('|cat' if piped else '')
        style = {"'": 'single-quoted', '"': 'double-quoted', '\\': 'escaped', '': 'plain'}[args[-1][0]]
        out.append({'line': line, 'files': {'pargs': PARGS, 'afile': '', 'bfile': ''}, 'expect_stdout': _argv([a for q, a in args]),
                    'expect_only_files': ['pargs', 'afile', 'bfile'], 'area': 'argv:' + style + (':before-pipe' if piped else ''), 'timeout': 5})
    for line, exp in (("./pargs 'a' \"b c\" d\\ e", ['a', 'b c', 'd e']), ("./pargs 'x;y' && ./pargs \"p||q\"", ['x;y', 'p||q']),
                      ("./pargs '#not a comment' # a comment", ['#not a comment']), ("./pargs 'a' ; ./pargs \"b\" & wait", None)):
        if exp is not None:
            out.append({'line': line, 'files': {'pargs': PARGS}, 'expect_stdout': _argv(exp), 'area': 'argv:mixed', 'timeout': 5})
    # an escaped blank or a multi-byte blank at the very end of a command is a character of the last argument
    for line, exps in (('./pargs a\\ ', [['a ']]), ('./pargs a\\ ; ./pargs b', [['a '], ['b']]), ('./pargs \\ ', [[' ']]), ('./pargs a\u3000', [['a\u3000']]),
                       ('  ./pargs q   &&   ./pargs r  ', [['q'], ['r']]), ('./pargs a\\\\ ', [['a\\']])):
        out.append({'line': line, 'files': {'pargs': PARGS}, 'expect_stdout': ''.join(_argv(e) for e in exps), 'area': 'argv:escaped:blank-at-the-end', 'timeout': 5})
    # a quoted `<` / `<<<` argument next to a REAL input redirection of the same command stays an argument
    for line, exp in (("./pargs '<' x < in.txt", ['<', 'x']), ("./pargs < in.txt a '<' x", ['a', '<', 'x']), ('./pargs "<<<" y <<< word', ['<<<', 'y']), ("./pargs a '<' in.txt <<< w", ['a', '<', 'in.txt']),
                      ("cat in.txt | ./pargs '<' q < in.txt", ['<', 'q'])):
        out.append({'line': line, 'files': {'pargs': PARGS, 'in.txt': 'DATA\n'}, 'expect_stdout': _argv(exp), 'area': 'argv:quoted-lt-next-to-a-real-input-redirection', 'timeout': 5})
    # the text of a line can arrive on standard input of a shell without a terminal: a quoted newline is a character of the argument there as well
    out.append({'stdin': "./pargs 'one\ntwo' \"x\ny\" end\n", 'files': {'pargs': PARGS}, 'expect_stdout': _argv(['one\ntwo', 'x\ny', 'end']), 'area': 'argv:stdin-entry:quoted-newline', 'timeout': 5})
    out.append({'stdin': "./pargs 'first line\n./pargs INJECTED'\n", 'files': {'pargs': PARGS}, 'expect_stdout': _argv(['first line\n./pargs INJECTED']), 'area': 'argv:stdin-entry:quoted-newline', 'timeout': 5})
    # a quoted tilde (any quoting) is a tilde
    out.append({'line': './pargs "~" "~/my files" \'~\' \\~ "~x"; echo $HOME > /dev/null', 'files': {'pargs': PARGS}, 'expect_stdout': _argv(['~', '~/my files', '~', '~', '~x']), 'area': 'argv:quoted-tilde', 'timeout': 5})
    # an escaped or quoted `?` / `[` is an ordinary character of the argument, whatever files there are
    out.append({'line': "./pargs x a\\? 'a?' \\[ab] \"a[bc]\" y", 'files': {'pargs': PARGS, 'ab': '', 'ac': ''}, 'expect_stdout': _argv(['x', 'a?', 'a?', '[ab]', 'a[bc]', 'y']), 'area': 'argv:escaped:not-a-wildcard', 'timeout': 5})
    # KNOWN FINDING (recorded, not repaired): the same escaped argument on a line of a SCRIPT (the positional-parameter pass re-serialises the words)
    out.append({'script': './pargs a\\ b c\n', 'files': {'pargs': PARGS}, 'expect_stdout': _argv(['a b', 'c']), 'area': 'argv:script:escaped-blank', 'timeout': 5})
    # what an escaped character does to its word ends with that word -- whatever the word ends in
    for first, exp1 in (('\\*"x"', '*x'), ("\\>'y'", '>y'), ('\\~"/q"', '~/q'), ('\\{"a,b}"', '{a,b}')):
        out.append({'line': 'V=val; ./pargs ' + first.replace('\\\\', '\\') + ' af* $V ~ {1,2}', 'files': {'pargs': PARGS, 'afile': ''},
                    'expect_stdout_prefix': _argv([exp1, 'afile', 'val']), 'expect_stdout_contains': _argv(['1', '2']), 'area': 'argv:escaped:tag-does-not-leak', 'timeout': 5})
    return out


# ------------------------------------------------------------------ C05: no line crashes or hangs the shell
def c05(tier, seed):
    alpha = ['>', '<', '|', '&', ';', "'", '"', '$', '(', ')', '{', '}', 'a', ' ', '`', '2', '.', '\\', '*', '~', '=']
    n = 3 if tier == 'quick' else 4
    fixed = ['> f', '<', '2>&1', 'ls | > f', 'echo $(echo >)', 'echo {2147483646..2147483647}', '99999999999999999999 + 1', '2 ^ 64', '2 ^ -1',
             'echo `', 'echo $(', 'echo ${', 'echo "', "echo '", 'a=', '=a', 'A="', "B='", 'export C="', "export D='", 'A="" B=\'\'', "alias e=' '; e; echo after", "alias nop='# nothing'; nop x | cat", '\\ ', 'echo a;\\ ;echo b', 'true&&\\\\\\ ',
             '170141183460469231731687303715884105728 - 1', '-170141183460469231731687303715884105729 + 1', 'echo {9223372036854775806..9223372036854775807}', 'echo x{-9223372036854775807..-9223372036854775808}y', 'echo $(A=1)', 'echo a$( )b', 'X=`B=2 C=3`', 'echo ' + '{' * 40 + 'a,b}', 'echo ' + '{' * 200 + 'a,b}' + '}' * 100, 'echo ' + '{a,' * 60, 'cd a b', 'alias', 'unalias', 'export', 'source', 'fg', 'bg', 'exec', 'exit x; echo no',
             '(', ')', '((', '))', '{', '}', '$', '$$$', '\\', '&&', '||', ';;', '| |', '& &', 'echo {1..}', 'echo {..1}', 'echo {a..b}', 'echo {1..2..0}',
             '1 +', '+ 1', '1 / 0', '(1', '1)', '2 ^ 99999', '1.5.5 + 1', 'é' * 50, 'echo ' + 'a' * 5000, 'echo ' + ' '.join(['x'] * 500)]
    allc = [''.join(t) for k in range(1, n + 1) for t in itertools.product(alpha, repeat=k)]
    lines = fixed + _sample(allc, 500 if tier == 'quick' else 4000, seed)
    out = [{'line': l + '\necho alive' if False else l, 'timeout': 5, 'area': 'no-crash:line'} for l in lines]
    out.append({'line': "X='$X'; echo $X", 'timeout': 3, 'area': 'no-crash:self-referential-value'})
    # (repair a105e61) text nested thousands of levels deep: the passes that call themselves once per level must not be handed it
    for name, l in (('braces', 'echo ' + '{' * 5000 + 'a,b' + '}' * 5000), ('braces-unclosed', 'echo ' + '{' * 20000 + 'a,b'), ('braces-at-the-limit', 'echo ' + '{' * 100 + 'a,b' + '}' * 100),
                    ('substitutions', 'echo ' + '$(' * 5000 + 'echo a' + ')' * 5000), ('substitutions-unclosed', 'echo ' + '$(' * 20000 + 'echo a)'), ('parentheses', '(' * 20000 + '1 + 1' + ')' * 20000),
                    ('parentheses-unclosed', '(' * 50000 + '1 + 1'), ('parentheses-at-the-limit', '(' * 100 + '1 + 1' + ')' * 100), ('brace-ranges', 'echo ' + '{1..2}' * 2000),
                    ('quotes', 'echo ' + '"\'' * 3000), ('backquotes', 'echo ' + '`' * 5001)):
        out.append({'script': l + '\necho alive\n', 'expect_stdout_last_line': 'alive', 'timeout': 20, 'area': 'no-crash:deep-nesting:' + name})
    out.append({'script': '(' * 100 + '1 + 1' + ')' * 100 + '\n', 'expect_stdout': '2\n', 'timeout': 10, 'area': 'no-crash:deep-nesting:parentheses-at-the-limit'})
    # a here-string larger than a pipe, given to a command that does not read it: the shell goes on
    out.append({'line': 'B=$(./big); sh -c : <<< $B; head -c 3 <<< $B; echo; true <<< $B; echo next', 'files': {'big': '#!/bin/sh\nhead -c 200000 /dev/zero | tr "\\0" a\n'}, 'expect_stdout': 'aaa\nnext\n', 'timeout': 15, 'area': 'no-hang:here-string-that-is-not-read'})
    # a lone dot where a number is expected is a syntax error of the calculator, not a panic
    for l in ('1 + .', '2 * (.)', '. / 4', '3 - -.', '.', '. .', '1 .'):
        out.append({'script': l + '\necho alive\n', 'expect_stdout_last_line': 'alive', 'timeout': 5, 'area': 'no-crash:arithmetic:lone-dot'})
    # the shell must remain able to run the next command: a script whose lines are odd, followed by a marker
    for l in [x for x in fixed if not x.startswith(('exit', 'exec'))][:30]:
        out.append({'script': l + '\necho alive\n', 'expect_stdout_last_line': 'alive', 'timeout': 5, 'area': 'no-crash:next-command-runs'})
    return out


# ------------------------------------------------------------------ C08: descriptors
def c08(tier, seed):
    from . import witness as W
    base = W.run_cicada(line='ls /proc/self/fd')
    base_set = base.get('stdout', '').split()
    out = []
    shell_lines = ['minfd', 'echo $(alias); minfd', 'echo a | cat; minfd', 'X=$(echo a | cat); minfd', 'echo a > f1; alias > f2 2>&1; minfd', 'alias 1>&2 > f3; minfd',
                   'alias nosuch > f4 2> f5; minfd', 'nosuchcmd-xyz; minfd', 'nosuchcmd-xyz | cat; minfd', 'echo a | nosuchcmd-xyz; minfd', 'cat < /nonexistent-xyz; minfd',
                   'echo a > /nonexistent-dir/f; minfd', 'cat <<< hs; minfd', 'echo a | cat <<< hs; minfd', 'X=$(nosuchcmd-xyz); minfd', 'X=`echo a`; minfd',
                   'echo a | cat | cat | cat | cat | cat; minfd', 'sh -c "exit 3"; minfd', 'echo x >> f6; echo y >> f6; minfd', 'alias zz=1; unalias zz; minfd',
                   'cd /; minfd', 'export A=1; minfd', 'read v <<< x; minfd', 'mkdir dd; alias < dd; alias < dd; minfd', 'mkdir de; cd . < de; cd . < nosuch; minfd']
    # a here-string larger than a pipe that its command does not read leaves nothing behind, in the shell or in later programs
    out.append({'line': 'B=$(./big); true <<< $B; ls /proc/self/fd | tr "\\n" " "; echo; minfd', 'files': {'big': '#!/bin/sh\nhead -c 200000 /dev/zero | tr "\\0" a\n'}, 'expect_stdout': ' '.join(base_set) + ' \n3\n', 'timeout': 15, 'area': 'fd:here-string-that-is-not-read'})
    # exhaustion while the capture pipes of a substitution are made: nothing stays open, a later substitution works, and a stage that could not be started makes the status non-zero
    for n in (7, 8, 9, 10):
        out.append({'line': 'ulimit -n %d; A=$(echo a | cat); ulimit -n 64; B=$(echo b); echo "[$B]"; minfd' % n, 'timeout': 8, 'expect_stdout': '[b]\n3\n', 'area': 'fd:exhaustion:capture-pipes'})
    for n in (5, 6):
        out.append({'line': 'ulimit -n %d; cat <<< hello | cat; echo "st=$?"; ulimit -n 64; minfd; true || echo no' % n, 'timeout': 8, 'expect_no_stdout_line': 'st=0', 'expect_stdout_last_line': '3', 'area': 'fd:exhaustion:nonzero-status'})
    # descriptor exhaustion: the pipeline fails with a non-zero status and the shell keeps working
    for l, want in (('ulimit -n 4; cat <<< foo; echo st=$?; ulimit -n 64; minfd', None), ('ulimit -n 6; echo a | cat <<< foo | cat; echo st=$?; ulimit -n 64; minfd', None)):
        out.append({'line': l, 'timeout': 8, 'expect_stdout_last_line': '3', 'expect_no_stdout_line': 'st=0', 'area': 'fd:exhaustion:nonzero-status'})
    # a command that exits without reading a here-string larger than a pipe buffer: the shell survives (no SIGPIPE death) and leaks nothing
    out.append({'line': 'true <<< "$(head -c 70000 /dev/zero | tr \\0 a)"; echo alive; minfd', 'timeout': 10, 'expect_stdout': 'alive\n3\n', 'area': 'fd:here-string-not-read'})
    for l in shell_lines:
        out.append({'line': l, 'timeout': 8, 'expect_stdout_last_line': '3', 'area': 'fd:shell-table'})
    # in a script the script file itself is open in the shell: the reference is what a script consisting of `minfd` alone prints
    sbase = (W.run_cicada(script='minfd\n').get('stdout', '').strip().split('\n') or ['?'])[-1]
    out.append({'script': 'sleep 0.2 &\nminfd\n', 'timeout': 8, 'expect_stdout_last_line': sbase, 'area': 'fd:shell-table:background'})
    out.append({'script': 'echo a | cat\nX=$(echo b)\necho c > f\nminfd\n', 'timeout': 8, 'expect_stdout_last_line': sbase, 'area': 'fd:shell-table:script'})
    out.append({'script': 'sleep 0.2 &\nls /proc/self/fd\n', 'timeout': 8, 'expect_fdset': base_set, 'fd_where': 'stdout', 'area': 'fd:child-sees-only-0-1-2:background'})
    out.append({'line': 'ulimit -n 5; echo a | cat <<< b; ulimit -n 64; minfd', 'timeout': 8, 'expect_stdout_last_line': '3', 'area': 'fd:shell-table:failed-start'})
    for lim in (4, 6, 8, 10):
        out.append({'line': 'ulimit -n %d; echo a | cat | cat; echo alive' % lim, 'timeout': 8, 'expect_stdout_last_line': 'alive', 'area': 'fd:exhaustion-keeps-shell-alive'})
    child = [('ls /proc/self/fd', None), ('ls /proc/self/fd 2>&1', None), ('ls /proc/self/fd 1>&2', 'stderr'), ('ls /proc/self/fd > f; cat f', None),
             ('echo a | ls /proc/self/fd', None), ('ls /proc/self/fd | cat', None), ('echo a | ls /proc/self/fd | cat', None),
             ('X=$(ls /proc/self/fd); echo $X', None), ('X=$(echo a | ls /proc/self/fd); echo $X', None), ('X=$(ls /proc/self/fd > f); cat f', None),
             ('echo a | ls /proc/self/fd <<< x', None), ('ls /proc/self/fd <<< x', None), ('ls /proc/self/fd 2> f', None), ('ls /proc/self/fd < /dev/null', None),
             ('echo `ls /proc/self/fd`', None), ('true; ls /proc/self/fd', None), ('echo a > g; ls /proc/self/fd', None), ('alias > g; ls /proc/self/fd', None),
             ]
    for l, where in child:
        out.append({'line': l, 'timeout': 8, 'expect_fdset': base_set, 'fd_where': where or 'stdout', 'area': 'fd:child-sees-only-0-1-2'})
    return out


# ------------------------------------------------------------------ C06: job table histories through the hook module (real library code)
def c06(tier, seed):
    out = []
    pidsets = [[500, 3], [3, 500], [7, 9, 8], [9, 8, 7], [5, 4, 6]]
    for pids in pidsets:
        for order in itertools.permutations(pids):
            gid = pids[0]
            script, expect, live = [], [], list(pids)
            for p_ in pids:
                script.append('insert %d %d 0' % (gid, p_))
            for p_ in order:
                script.append('remove %d %d' % (gid, p_))
                live.remove(p_)
                expect.append('removed_job %d' % (0 if live else 1))
                script.append('dump')
                expect.append('table' + (' [id=1 jid=1 gid=%d status=Running bg=0 pids=%s stopped=[]]' % (gid, live) if live else ''))
            out.append({'via': 'hook', 'script': script, 'expect': expect, 'area': 'job-table:remove-order', 'id': 'pids=%s order=%s' % (pids, list(order))})
    # smallest unused id: three jobs, remove the middle one, the next job takes its id
    script = ['insert 10 10 1', 'insert 20 20 1', 'insert 30 30 1', 'remove 20 20', 'insert 40 40 1', 'dump']
    expect = ['removed_job 1', 'table [id=1 jid=1 gid=10 status=Running bg=1 pids=[10] stopped=[]] [id=2 jid=2 gid=40 status=Running bg=1 pids=[40] stopped=[]] '
              '[id=3 jid=3 gid=30 status=Running bg=1 pids=[30] stopped=[]]']
    out.append({'via': 'hook', 'script': script, 'expect': expect, 'area': 'job-table:smallest-free-id', 'id': 'reuse id 2'})
    # Stopped exactly when all live members are stopped, under member-wise events
    out += [
        {'via': 'hook', 'script': ['insert 10 10 1', 'insert 10 11 1', 'jc_member_stopped 10 10', 'jc_member_stopped 11 10', 'dump', 'jc_member_continued 10 10', 'dump'],
         'expect': ['table [id=1 jid=1 gid=10 status=Stopped bg=1 pids=[10, 11] stopped=[10, 11]]', 'table [id=1 jid=1 gid=10 status=Running bg=1 pids=[10, 11] stopped=[11]]'],
         'area': 'job-table:status:member-continued', 'id': 'two stopped, one continues'},
        {'via': 'hook', 'script': ['insert 10 10 1', 'insert 10 11 1', 'jc_member_stopped 11 10', 'dump', 'jc_done 10 10', 'dump'],
         'expect': ['table [id=1 jid=1 gid=10 status=Running bg=1 pids=[10, 11] stopped=[11]]', 'table [id=1 jid=1 gid=10 status=Stopped bg=1 pids=[11] stopped=[11]]'],
         'area': 'job-table:status:last-running-member-exits', 'id': 'running member exits, stopped member remains'},
        {'via': 'hook', 'script': ['insert 10 10 1', 'insert 10 11 1', 'insert 10 12 1', 'jc_member_stopped 10 10', 'jc_done 10 10', 'jc_member_stopped 11 10', 'dump'],
         'expect': ['table [id=1 jid=1 gid=10 status=Running bg=1 pids=[11, 12] stopped=[11]]'],
         'area': 'job-table:status:stale-stopped-entry', 'id': 'stopped member dies, another stops, a third still runs'},
    ]
    # stop / continue events of a background process that arrive while the shell waits for the foreground job: the latest one decides, at every later poll
    T_S = 'table [id=1 jid=1 gid=30 status=Stopped bg=1 pids=[30] stopped=[30]]'
    T_R = 'table [id=1 jid=1 gid=30 status=Running bg=1 pids=[30] stopped=[]]'
    for evs, final in ((['30,3,0', '30,2,19'], T_S), (['30,2,19', '30,3,0'], T_R), (['30,2,19', '30,3,0', '30,2,19'], T_S), (['30,3,0'], T_R)):
        pre = ['insert 30 30 1', 'jc_member_stopped 30 30'] if evs[0].startswith('30,3') else ['insert 30 30 1']
        out.append({'via': 'hook', 'script': pre + ['insert 20 20 0', 'events ' + ' '.join(evs + ['20,0,0']), 'wait_fg 20 20', 'poll', 'dump', 'poll', 'dump'],
                    'expect': ['wait_fg status=0 pending=0', 'poll pending=0', final, 'poll pending=0', final],
                    'area': 'events:latest-stop-or-continue-decides', 'id': 'parked ' + ' '.join(evs)})
    # ... every alternating history of up to four recorded events, on a job that was stopped or running before: the last one decides
    for pre_stopped in (False, True):
        for n in (2, 3, 4):
            for first in ('30,2,19', '30,3,0'):
                evs, cur = [], first
                for _ in range(n):
                    evs.append(cur)
                    cur = '30,3,0' if cur == '30,2,19' else '30,2,19'
                final = T_S if evs[-1] == '30,2,19' else T_R
                pre = ['insert 30 30 1'] + (['jc_member_stopped 30 30'] if pre_stopped else [])
                out.append({'via': 'hook', 'script': pre + ['insert 20 20 0', 'events ' + ' '.join(evs + ['20,0,0']), 'wait_fg 20 20', 'poll', 'dump', 'poll', 'dump'],
                            'expect': ['wait_fg status=0 pending=0', 'poll pending=0', final, 'poll pending=0', final],
                            'area': 'events:latest-stop-or-continue-decides', 'id': ('stopped before; ' if pre_stopped else 'running before; ') + 'parked ' + ' '.join(evs)})
    # what was recorded about a process that is gone does not meet a later process with the same pid
    T_N = 'table [id=1 jid=1 gid=30 status=Running bg=1 pids=[30] stopped=[]]'
    for evs, nm in ((['30,2,19', '30,0,0'], 'stopped then exited'), (['30,2,19', '30,1,9'], 'stopped then killed'), (['30,2,19', '30,3,0', '30,0,0'], 'continued then exited')):
        out.append({'via': 'hook', 'script': ['insert 30 30 1', 'insert 20 20 0', 'events ' + ' '.join(evs + ['20,0,0']), 'wait_fg 20 20', 'poll', 'dump',
                                              'insert 30 30 1', 'poll', 'dump'],
                    'expect': ['wait_fg status=0 pending=0', 'poll pending=0', 'table', 'poll pending=0', T_N],
                    'area': 'events:record-of-a-dead-process-meets-a-reused-pid', 'id': 'pid reused after ' + nm})
    # the foreground wait returns when every member has exited or is stopped, whatever the order of the events; status = last member's
    waits = [
        (['20,2,19', '20,3,0', '20,0,0', '21,0,7'], 'wait_fg status=7 pending=0'),
        (['21,0,7', '20,0,0'], 'wait_fg status=7 pending=0'),
        (['20,0,3', '21,0,0'], 'wait_fg status=0 pending=0'),
        (['21,2,19', '21,3,0', '20,0,0', '21,0,5'], 'wait_fg status=5 pending=0'),
        (['20,0,0', '21,1,9'], 'wait_fg status=137 pending=0'),
        (['20,0,0', '21,0,4', '99,0,1'], 'wait_fg status=4 pending=1'),
        (['20,0,0', '21,1,9', '99,0,1'], 'wait_fg status=137 pending=1'),
        (['21,1,15', '20,1,9', '99,2,19'], 'wait_fg status=143 pending=1'),
        (['20,2,19', '21,1,2', '99,0,0'], 'wait_fg status=130 pending=1'),
    ]
    for ev, exp in waits:
        out.append({'via': 'hook', 'script': ['insert 20 20 0', 'insert 20 21 0', 'events ' + ' '.join(ev), 'wait_fg 20 20 21'], 'expect': [exp],
                    'area': 'wait:returns-when-every-member-settled', 'id': 'events ' + ' '.join(ev)})
    # the last process of the pipeline is the last one of the list, not the one with the highest pid (process ids are not monotonic)
    for ev, exp in ((['25,0,3', '21,0,5'], 'wait_fg status=5 pending=0'), (['21,0,5', '25,0,3'], 'wait_fg status=5 pending=0'), (['31,0,0', '25,0,2', '21,1,15'], 'wait_fg status=143 pending=0')):
        pids = ['31', '25', '21'] if len(ev) == 3 else ['25', '21']
        out.append({'via': 'hook', 'script': ['insert 20 %s 0' % p_ for p_ in pids] + ['events ' + ' '.join(ev), 'wait_fg 20 ' + ' '.join(pids)], 'expect': [exp],
                    'area': 'wait:status-of-the-last-process-not-of-the-highest-pid', 'id': 'pids ' + ' '.join(pids) + ' events ' + ' '.join(ev)})
    return out


def c07(tier, seed):
    # `jobs` lists the pipelines with their true state (C07): the job-state histories of C06
    return [w for w in c06(tier, seed) if w.get('area', '').startswith(('events:', 'job-table:status', 'wait:'))]


CASES = {'C14': c14, 'C07': c07, 'C06': c06, 'C08': c08, 'C01': c01, 'C05': c05, 'C10': c10, 'C11': c11, 'C12': c12, 'C13': c13, 'C17': c17, 'C19': c19, 'C03': c03, 'C04': c04, 'C09': c09, 'C15': c15, 'C02': c02}
