import sys, importlib, os
ROOT = os.path.dirname(os.path.dirname(os.path.abspath(__file__)))
sys.path.insert(0, ROOT)
from vx import gen, run
def main():
    modname = sys.argv[1]
    canary = '--canary' in sys.argv
    mod = importlib.import_module('contracts.' + modname)
    g = gen.generate(mod.UNIT, canary=canary)
    os.makedirs(ROOT + '/.work', exist_ok=True)
    out = ROOT + '/.work/%s%s.rs' % (modname, '_canary' if canary else '')
    open(out, 'w').write(g.text())
    print('wrote', out, len(g.lines), 'lines;', len(g.rewrites), 'rewrites; labels', len(g.labels))
    r = run.run_verus(out)
    print('rc', r.rc, 'ok', r.ok, 'verified', r.verified, 'errors', r.errors, 'wall %.1fs' % r.wall_s)
    for e in r.tool_errors: print('TOOL', e.get('message'), '\n', e.get('rendered', '')[:1500])
    for e in r.rlimit_hit: print('RLIMIT', e['message'])
    for e in r.failed:
        labs = []
        for (f, a, b, prim, lab) in e['spans']:
            o = g.origin[a-1] if a-1 < len(g.origin) else {}
            labs.append((a, o.get('label') or o.get('origin'), o.get('file'), o.get('line')))
        print('FAILED', e['message'], labs)
    print('obligations', {k: v for k, v in r.obligations.items()})
    print('times', {k: round(v['ms']) for k, v in r.fn_times.items()})
main()
