"""Bounded stand-in for the prompt highlighter (C05): src/highlight.rs is bin-only, byte-offset code over `str` that Verus cannot
reason about (no str byte model).  Its two functions are extracted verbatim into the replay harness on every build (vx/hlgen.py states
what is dropped) and run natively on EVERY line up to a stated length over a stated alphabet: no panic, and every returned range is
ordered, inside the line and on char boundaries (the line editor slices the line with them).  Labelled bounded; never counted as proved."""
from . import hookreplay as H
from . import witness as W

ALPHA = ['a', ' ', '"', "'", '\\', '>', '|', '你', 'é', '$', '(', ';']


def hx(s):
    return s.encode('utf-8').hex() or 'e'


def engine(tier, seed):
    out = {'engine': 'bounded:highlight', 'backend': 'extracted highlight.rs functions run natively inside the replay harness (real parse_line)',
           'obligs': [], 'undecided': [], 'obligations': 0, 'discharged': 0, 'bounded': [], 'samples': [], 'checker_cmds': [], 'trusted': []}
    n = 4 if tier == 'quick' else 5
    if not H.build():
        out['undecided'].append(('tool', 'replay harness not built: ' + H._built.get('log', '')[-300:]))
        return out
    ok, info = H._built.get('hl', (False, {}))
    if not ok:
        out['undecided'].append(('lost-anchor', 'highlighter extraction: %s' % info.get('error')))
        return out
    res, err = H.drive(['hlenum %d %s' % (n, ' '.join(hx(a) for a in ALPHA))], timeout=900)
    if res is None:
        out['undecided'].append(('tool', 'hlenum: ' + str(err)))
        return out
    done = [l for l in res if l.startswith('hlenum done')]
    bad = [l for l in res if l.startswith('hlbad ')]
    if not done:
        out['undecided'].append(('tool', 'hlenum did not finish: %r %r' % (res[-3:], err)))
        return out
    count = int(done[0].split()[2])
    for l in bad[:5]:
        _, h, why = l.split(' ', 2)
        line = bytes.fromhex(h).decode('utf-8', 'replace')
        out['obligs'].append({'name': 'BOUNDED:C05:highlight:%s' % line, 'props': ['C05'], 'message': 'the prompt highlighter fails on this line: ' + why,
                              'kind': 'bounded', 'repo_sites': [], 'rendered': why, 'fn': 'highlight', 'unit': 'bounded:highlight',
                              'witness': {'found': True, 'via': 'hook', 'script': ['hl ' + h], 'expect': ['hl ok'], 'line': line, 'observed': why}})
    out['bounded'].append({'what': 'prompt highlighter (find_token_range_heuristic + CicadaHighlighter::highlight, extracted verbatim): no panic, ranges ordered / in bounds / on char boundaries',
                           'bound': 'every line of 1..%d symbols over the %d-symbol alphabet %r' % (n, len(ALPHA), ALPHA), 'cases': count, 'failing': len(bad),
                           'extraction': info})
    out['samples'].append({'obligation': 'BOUNDED:C05:highlight (%d lines, exhaustive up to %d symbols; labelled bounded, not counted as proved)' % (count, n),
                           'result': 'no panic, all ranges valid' if not bad else '%d failing' % len(bad)})
    return out
