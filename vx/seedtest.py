#!/usr/bin/env python3
"""dev aid: apply each seeded patch to a scratch copy of /repo (never /repo itself) and run the property's check.
usage: seedtest.py <dir-with-ID/k/patch.diff> [ID ...]"""
import os, shutil, subprocess, sys, glob, json
base = sys.argv[1]
ids = sys.argv[2:] or sorted(os.listdir(base))
res = {}
for pid in ids:
    for pd in sorted(glob.glob(os.path.join(base, pid, '*', 'patch.diff'))):
        k = os.path.basename(os.path.dirname(pd))
        scr = '/tmp/seedscr' + os.environ.get('SEED_SLOT', '')
        shutil.rmtree(scr, ignore_errors=True)
        os.makedirs(scr)
        subprocess.run('git -C /repo archive HEAD | tar -x -C %s' % scr, shell=True, check=True)
        a = subprocess.run(['git', 'apply', '--directory', scr, '--unsafe-paths', pd], capture_output=True, text=True, cwd='/')
        if a.returncode != 0:
            a = subprocess.run(['patch', '-p1', '--fuzz=3', '-d', scr, '-i', pd], capture_output=True, text=True)
        if a.returncode != 0:
            res[(pid, k)] = 'PATCH-DOES-NOT-APPLY ' + (a.stderr + a.stdout)[-200:].replace('\n', ' ')
            print(pid, k, res[(pid, k)]); continue
        env = dict(os.environ, VX_REPO=scr, VX_NO_WITNESS=os.environ.get('VX_NO_WITNESS', '1'))
        checks = os.environ.get('SEED_CHECKS', pid).split(',')
        outs = []
        for c in checks:
            p = subprocess.run(['/verif/check', c], capture_output=True, text=True, env=env)
            lines = [l for l in p.stdout.split('\n') if l.startswith(('VIOLATION', 'UNDECIDED', 'OK', 'KNOWN'))]
            outs.append('%s rc=%d %s' % (c, p.returncode, ' | '.join(l[:230] for l in lines[:3])))
        res[(pid, k)] = ' ;; '.join(outs)
        print(pid, k, res[(pid, k)])
        shutil.rmtree(scr, ignore_errors=True)
