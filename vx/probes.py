"""Per-property witness probes: small concrete input spaces run against the real binary,
compared with a reference taken from the property statement. Used only to attach a
counterexample to an obligation that the verifier already failed."""
import itertools
import random
from . import witness as W


def _found(w, detail):
    w = dict(w); w['found'] = True; w['via'] = 'binary'; w['observed'] = detail
    return w


def probe_c03(oblig, tier, seed):
    """operator/status programs: commands are `sh -c "echo i; exit s"`."""
    maxlen = 3 if tier == 'quick' else 4
    rnd = random.Random(seed)
    progs = []
    for n in range(2, maxlen + 1):
        for ops in itertools.product([';', '&&', '||'], repeat=n - 1):
            for sts in itertools.product([0, 3], repeat=n):
                progs.append((ops, sts))
    rnd.shuffle(progs)
    progs.sort(key=lambda p: len(p[1]))
    tried = 0
    for ops, sts in progs[:400 if tier == 'quick' else 2000]:
        parts, out, status = [], [], 0
        for i, s in enumerate(sts):
            cmd = 'sh -c "echo %d; exit %d"' % (i, s)
            if i == 0:
                run = True
            else:
                op = ops[i - 1]
                run = (op == ';') or (op == '&&' and status == 0) or (op == '||' and status != 0)
                parts.append(op)
            parts.append(cmd)
            if run:
                out.append(str(i)); status = s
        line = ' '.join(parts)
        w = {'line': line, 'expect_stdout': ''.join(x + '\n' for x in out), 'expect_rc': status}
        tried += 1
        bad, detail = W.violates(w, W.observe(w))
        if bad:
            return _found(w, detail)
    return {'found': False, 'tried': tried}


def probe_c06(oblig, tier, seed):
    """job-table histories through the hook module: launches with non-monotone pids, removals in every order;
    reference = the table the property statement prescribes (exactly the live pids, smallest free id)."""
    from . import hookreplay as H
    rnd = random.Random(seed)
    pidsets = [[500, 3], [3, 500], [7, 9, 8], [9, 8, 7], [5, 4, 6]]
    tried = 0
    for pids in pidsets:
        for order in itertools.permutations(pids):
            gid = pids[0]
            script, expect, live = [], [], list(pids)
            for p in pids:
                script.append('insert %d %d 0' % (gid, p))
            for p in order:
                script.append('remove %d %d' % (gid, p))
                live.remove(p)
                expect.append('removed_job %d' % (0 if live else 1))
                script.append('dump')
                expect.append('table' + (' [id=1 jid=1 gid=%d status=Running bg=0 pids=%s stopped=[]]' % (gid, live) if live else ''))
            tried += 1
            w = {'via': 'hook', 'script': script, 'expect': expect}
            bad, detail = H.run(w)
            if bad:
                w.update(found=True, observed=detail)
                return w
    return {'found': False, 'tried': tried}


PARGS = '#!/bin/sh\nfor a in "$@"; do printf "[%s]\\n" "$a"; done\n'


def probe_c01(oblig, tier, seed):
    """argument lists written in single / double quotes over the metacharacter alphabet; the program must receive them verbatim."""
    alpha = ['&', '<', '<<<', '|', ';', '>', '>>', '2>&1', '#', '*', '~', '{a,b}', '$HOME', 'a b', '']
    rnd = random.Random(seed)
    cases = []
    for a in alpha:
        for q in ("'", '"'):
            if q == '"' and '$' in a:
                continue
            cases.append([(q, a)])
            cases.append([("'", 'x'), (q, a)])
            cases.append([(q, a), ("'", 'y')])
    # unquoted words whose special characters are each backslash-escaped
    for a in alpha + ['a>', '>a', 'a<b', 'a|', '&a', 'a&', 'a$HOME', '~/x', 'a*', '`echo`', '{1..3}', '$$', '$(echo)', '||', '&&', 'a;b', '#a']:
        if a == '':
            continue
        cases.append([('\\', a)])
        cases.append([('', 'x'), ('\\', a)])
        cases.append([('\\', a), ('', 'y')])
        cases.append([('\\', a), ('\\', a)])
        cases.append([('\\', a), ('|', '')])

    def wr(q, a):
        if q == '\\':
            return ''.join(ch if ch.isalnum() else '\\' + ch for ch in a)
        return q + a + q
    tried = 0
    for args in cases:
        piped = args[-1][0] == '|'
        if piped:   # the last argument directly followed by a pipe, no space in between
            args = args[:-1]
        line = './pargs ' + ' '.join(wr(q, a) for q, a in args) + ('|cat' if piped else '')
        w = {'line': line, 'files': {'pargs': PARGS, 'afile': '', 'bfile': ''}, 'expect_stdout': ''.join('[%s]\n' % a for q, a in args), 'timeout': 5}
        tried += 1
        bad, detail = W.violates(w, W.observe(w))
        if bad:
            return _found(w, detail)
    return {'found': False, 'tried': tried}


def probe_c05(oblig, tier, seed):
    """every short string over the shell alphabet through the real binary under a watchdog: no panic, no hang."""
    alpha = ['>', '<', '|', '&', ';', "'", '"', '$', '(', ')', '{', '}', 'a', ' ', '`', '2', '.']
    n = 3 if tier == 'quick' else 4
    lines = ['> f', '<', '2>&1', 'ls | > f', 'echo $(echo >)', 'echo {2147483646..2147483647}', "X='$X'; echo $X",
             '99999999999999999999 + 1', '2 ^ 64', '2 ^ -1']
    rnd = random.Random(seed)
    allc = [''.join(t) for k in range(1, n + 1) for t in itertools.product(alpha, repeat=k)]
    rnd.shuffle(allc)
    lines += allc[:600 if tier == 'quick' else 4000]
    fn = (oblig.get('fn') or '')
    tried = 0
    for line in lines:
        w = {'line': line, 'timeout': 4}
        tried += 1
        bad, detail = W.violates(w, W.observe(w))
        if bad:
            return _found(w, detail)
    return {'found': False, 'tried': tried}


def probe_c12(oblig, tier, seed):
    """numeric ranges over boundary operands and simple brace lists, against the sequences the property statement prescribes."""
    cases = []
    vals = [0, 1, -1, 3, -3, 10, 2147483646, 2147483647, -2147483647, -2147483648]
    for a in vals:
        for b in vals:
            if abs(a - b) > 6:
                continue
            for st in (None, 1, 2, 3):
                step = st or 1
                seq = list(range(a, b + 1, step)) if a <= b else list(range(a, b - 1, -step))
                txt = '{%d..%d%s}' % (a, b, '' if st is None else '..%d' % st)
                cases.append(('echo ' + txt, ' '.join(str(x) for x in seq) + '\n'))
    cases += [('echo {a,b}', 'a b\n'), ('echo x{a,b}y', 'xay xby\n'), ('echo {a,b}{1,2}', 'a1 a2 b1 b2\n'), ("echo '{a,b}'", '{a,b}\n'),
              ('echo "{1..3}"', '{1..3}\n'), ('echo {a,{b,c}}', 'a b c\n'), ('echo {a,b', '{a,b\n')]
    random.Random(seed).shuffle(cases)
    tried = 0
    for line, exp in cases[:300 if tier == 'quick' else 3000]:
        w = {'line': line, 'expect_stdout': exp, 'timeout': 5}
        tried += 1
        bad, detail = W.violates(w, W.observe(w))
        if bad:
            return _found(w, detail)
    return {'found': False, 'tried': tried}


def probe_c19(oblig, tier, seed):
    """arithmetic lines over boundary operands: never a crash (value or diagnostic)."""
    big = ['9223372036854775807', '9223372036854775808', '99999999999999999999', '2147483648', '0', '1', '2', '3', '63', '64', '70']
    lines = []
    for a in big:
        for op in ['+', '-', '*', '/', '^']:
            for b in big[:6] + ['(0 - 1)', '(0 - 64)']:
                lines.append('%s %s %s' % (a, op, b))
    random.Random(seed).shuffle(lines)
    tried = 0
    for line in lines[:250 if tier == 'quick' else 2000]:
        w = {'line': line, 'timeout': 5}
        tried += 1
        bad, detail = W.violates(w, W.observe(w))
        if bad:
            return _found(w, detail)
    return {'found': False, 'tried': tried}


FDLIST = '#!/bin/sh\nls /proc/$$/fd | tr "\\n" " "\necho\n'


def _fd_cases():
    return [
        ('shell', 'minfd', None),
        ('shell', 'echo $(alias); minfd', None),
        ('shell', 'echo a | cat; minfd', None),
        ('shell', 'X=$(echo a | cat); minfd', None),
        ('shell', 'echo a > f1; alias > f2 2>&1; minfd', None),
        ('shell', 'alias 1>&2 > f3; minfd', None),
        ('shell', 'alias nosuch > f4 2> f5; minfd', None),
        ('shell', 'ulimit -n 5; echo a | cat <<< b; minfd', None),
        ('child', 'ls /proc/self/fd', None), ('child', 'ls /proc/self/fd 2>&1', None), ('child', 'ls /proc/self/fd 1>&2', 'stderr'), ('child', 'ls /proc/self/fd > f; cat f', None),
        ('child', 'echo a | ls /proc/self/fd', None), ('child', 'ls /proc/self/fd | cat', None), ('child', 'echo a | ls /proc/self/fd | cat', None),
        ('child', 'X=$(ls /proc/self/fd); echo $X', None), ('child', 'X=$(echo a | ls /proc/self/fd); echo $X', None), ('child', 'X=$(ls /proc/self/fd > f); cat f', None),
        ('child', 'echo a | ls /proc/self/fd <<< x', None), ('child', 'ls /proc/self/fd <<< x', None), ('child', 'ls /proc/self/fd 2> f', None),
    ]


def probe_c08(oblig, tier, seed):
    """descriptor listings of spawned programs (must be the same set as for a plain command) and the shell's lowest free descriptor (must stay 3)."""
    base = W.run_cicada(line='ls /proc/self/fd')
    base_set = base.get('stdout', '').split()
    tried = 0
    for kind, line, where in _fd_cases():
        tried += 1
        if kind == 'shell':
            w = {'line': line, 'files': {'fdlist': FDLIST}, 'timeout': 6, 'expect_stdout_last_line': '3'}
            r = W.observe(w)
            last = (r.get('stdout', '').strip().split('\n') or [''])[-1]
            if r.get('timeout') or last != '3':
                w.update(found=True, via='binary', observed='the shell\'s lowest free descriptor is %r, expected 3 (stderr: %s)' % (last, r.get('stderr', '')[:120]))
                return w
        else:
            r = W.run_cicada(line=line, files={'fdlist': FDLIST})
            out = (r.get('stderr') if where == 'stderr' else r.get('stdout', '')).split()
            got = [x for x in out if x.isdigit()]
            if got != base_set:
                return {'found': True, 'via': 'binary', 'line': line, 'expect_fdset': base_set, 'fd_where': where or 'stdout',
                        'observed': 'program saw descriptors %s, a plain command sees %s' % (got, base_set)}
    return {'found': False, 'tried': tried}


def probe_c02(oblig, tier, seed):
    cases = [('echo a | cat <<< foo', 'foo\n', 0), ('echo a | cat', 'a\n', 0), ('sh -c "exit 3" | sh -c "exit 5"', '', 5),
             ('sh -c "exit 3" | cat', '', 0), ('echo a | cat | cat | cat', 'a\n', 0), ('echo a | cat < /dev/null', '', 0),
             ('printf "x\\ny\\n" | wc -l <<< z', '1\n', 0), ('echo a | sh -c "kill -9 \\$\\$"', '', 137)]
    tried = 0
    for line, out, rc in cases:
        w = {'line': line, 'expect_stdout': out, 'expect_rc': rc, 'timeout': 8}
        tried += 1
        bad, detail = W.violates(w, W.observe(w))
        if bad:
            return _found(w, detail)
    return probe_c08(oblig, tier, seed)


def probe_c04(oblig, tier, seed):
    cases = [('echo [$(ls /nonexistent-dir-xyz 2>&1 | wc -l)]', '[1]\n'), ('X=$(sh -c "echo E >&2" 2>&1); echo "[$X]"', '[E]\n'),
             ('sh -c "echo O; echo E >&2" > f 2>&1; cat f', 'O\nE\n'), ('sh -c "echo O; echo E >&2" 2>&1 > f | cat; cat f', 'E\nO\n'),
             ('echo a > f; echo b >> f; cat f', 'a\nb\n'), ('echo hi | cat <<< there', 'there\n'), ('cat < /nonexistent-xyz; echo $?', '1\n')]
    tried = 0
    for line, out in cases:
        w = {'line': line, 'expect_stdout': out, 'timeout': 8}
        tried += 1
        bad, detail = W.violates(w, W.observe(w))
        if bad:
            return _found(w, detail)
    return probe_c08(oblig, tier, seed)


def probe_c09(oblig, tier, seed):
    cases = [('export HOME=/nonexistent-xyz; cd; echo rc=$?', 'rc=1\n'), ('cd /nonexistent-xyz; echo rc=$?', 'rc=1\n'),
             ('A=1; echo $A; sh -c "echo [\\$A]"', '1\n[]\n'), ('export A=1; A=2; sh -c "echo [\\$A]"', '[2]\n'),
             ('A=1 sh -c "echo [\\$A]"; echo [$A]', '[1]\n[]\n'), ('export A=1; unset A; echo [$A]; sh -c "echo [\\$A]"', '[]\n[]\n'),
             ('mkdir d1 d2; cd d1; cd ../d2; cd -; basename $PWD', 'd1\n'), ('mkdir d1; cd d1; cd /nonexistent-xyz; basename $PWD', 'd1\n'),
             ('read a b c <<< "1 2 3 4"; echo "$a|$b|$c"', '1|2|3 4\n')]
    tried = 0
    for line, out in cases:
        w = {'line': line, 'expect_stdout': out, 'timeout': 8}
        tried += 1
        bad, detail = W.violates(w, W.observe(w))
        if bad:
            return _found(w, detail)
    return {'found': False, 'tried': tried}


def probe_c15(oblig, tier, seed):
    cases = [
        ({'script': 'function f() {\n    sh -c "exit 3"\n}\nf\necho "st=$?"\n'}, 'st=3\n'),
        ({'script': 'function f() {\n    echo "$0|$1|$2|$@"\n}\nf a b\n'}, 'f|a|b|a b\n'),
        ({'script': 'echo "$1|$2|${3}|$@"\n', 'args': ['x', 'y z']}, 'x|y z||x y z\n'),
        ({'script': 'sh -c "exit 4"\n'}, ''),
    ]
    tried = 0
    for sp, out in cases:
        w = dict(sp, expect_stdout=out, timeout=8)
        if sp['script'].startswith('sh -c "exit 4"'):
            w['expect_rc'] = 4
        tried += 1
        bad, detail = W.violates(w, W.observe(w))
        if bad:
            return _found(w, detail)
    return {'found': False, 'tried': tried}


def probe_c11(oblig, tier, seed):
    cases = [('echo $(echo >) x', ' x\n'), ('echo `echo >` `echo b`', ' b\n'), ('echo a$(echo b)c', 'abc\n'), ('echo "x `echo y` z"', 'x y z\n'),
             ('echo $(echo a) $(echo b)', 'a b\n'), ('echo `echo a``echo b`', 'ab\n'), ("echo '$(echo a)'", '$(echo a)\n'), ('echo pre`echo >`post', 'prepost\n')]
    tried = 0
    for line, out in cases:
        w = {'line': line, 'expect_stdout': out, 'timeout': 5}
        tried += 1
        bad, detail = W.violates(w, W.observe(w))
        if bad:
            return _found(w, detail)
    return {'found': False, 'tried': tried}


PROBES = {'C11': probe_c11, 'C15': probe_c15, 'C09': probe_c09, 'C08': probe_c08, 'C02': probe_c02, 'C04': probe_c04, 'C19': probe_c19, 'C12': probe_c12, 'C01': probe_c01, 'C13': probe_c01, 'C05': probe_c05, 'C03': probe_c03, 'C06': probe_c06}
