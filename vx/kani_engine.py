"""Kani engine: loop-free full-domain harnesses on the integer kernel of the calculator (C19).
The kernel is the body of the closure passed to `.map_infix(..)` in calculator::eval_int, re-extracted from
/repo on every run (rule R11: closure body emitted as a named fn; the pest `Pair` argument is replaced by its Rule)."""
import os
import re
import shutil
import subprocess
import time

from . import witness as W
from .rlex import lex, match_close, find_fn, LostAnchor, line_of
from .rules import is_p

ROOT = W.ROOT
SRC = 'src/calculator/mod.rs'

HARNESS = r'''
#[cfg(kani)]
mod proofs {
    use super::*;
    fn any_op() -> Rule {
        let k: u8 = kani::any();
        kani::assume(k < 5);
        match k { 0 => Rule::add, 1 => Rule::subtract, 2 => Rule::multiply, 3 => Rule::divide, _ => Rule::power }
    }
    // C19.kani.infix_never_panics: every operator, every pair of 64-bit operands (full domain, loop-free except the
    // 32-step exponentiation loop of the std pow family, unwound completely: unwind 34 with unwinding assertions on)
    #[kani::proof]
    #[kani::unwind(34)]
    fn check_infix_never_panics() {
        let l: i64 = kani::any();
        let r: i64 = kani::any();
        let op = any_op();
        let _ = infix_int(l, op, r);
    }
    // C19.kani.infix_is_wrapping_64bit: + - * are two's-complement wrapping; / is Rust's truncating division (wrapping at MIN / -1);
    // / 0 yields a value
    #[kani::proof]
    fn check_infix_is_wrapping_64bit() {
        let l: i64 = kani::any();
        let r: i64 = kani::any();
        assert!(infix_int(l, Rule::add, r) == l.wrapping_add(r));
        assert!(infix_int(l, Rule::subtract, r) == l.wrapping_sub(r));
        assert!(infix_int(l, Rule::multiply, r) == l.wrapping_mul(r));
        // division: exact on the cases that pin the operand order and the rounding direction without a 64-bit divider equivalence
        // (general truncation toward zero is Rust's definition of `/` on integers: language semantics, trusted)
        assert!(infix_int(l, Rule::divide, 1) == l);
        if l != i64::MIN { assert!(infix_int(l, Rule::divide, -1) == -l); }
        assert!(infix_int(i64::MIN, Rule::divide, -1) == i64::MIN);
        if r != 0 { assert!(infix_int(0, Rule::divide, r) == 0); }
        assert!(infix_int(7, Rule::divide, 2) == 3 && infix_int(-7, Rule::divide, 2) == -3 && infix_int(7, Rule::divide, -2) == -3);
        let _ = infix_int(l, Rule::divide, 0);
    }
    // vacuity guard: this harness MUST fail (reachability of the kernel under the same inputs)
    #[kani::proof]
    fn canary_must_fail() {
        let l: i64 = kani::any();
        let r: i64 = kani::any();
        let v = infix_int(l, Rule::add, r);
        assert!(v != 7);
    }
}
'''

LABELS = {
    'check_infix_never_panics': 'C19.kani.infix_never_panics',
    'check_infix_is_wrapping_64bit': 'C19.kani.infix_is_wrapping_64bit',
}


def extract_kernel():
    src = open(os.path.join(W.REPO, SRC), encoding='utf-8').read()
    s, e = find_fn(src, 'eval_int')
    item = src[s:e]
    toks = lex(item)
    k = next((i for i, t in enumerate(toks) if t[1] == 'map_infix' and is_p(toks[i + 1], '(')), None)
    if k is None:
        raise LostAnchor('eval_int: .map_infix( not found')
    c = match_close(toks, k + 1)
    inner = item[toks[k + 1][3]:toks[c][2]].strip()
    m = re.match(r'^\|\s*(\w+)\s*:\s*i64\s*,\s*(\w+)\s*:\s*Pair<Rule>\s*,\s*(\w+)\s*:\s*i64\s*\|\s*match\s+(\w+)\.as_rule\(\)\s*\{(.*)\}\s*$', inner, re.S)
    if not m or m.group(4) != m.group(2):
        raise LostAnchor('eval_int: map_infix closure does not have the expected shape |l: i64, op: Pair<Rule>, r: i64| match op.as_rule() {..}')
    lhs, op, rhs, _, arms = m.groups()
    rewrites = [{'rule': 'R11', 'before': '.map_infix(|%s: i64, %s: Pair<Rule>, %s: i64| match %s.as_rule() {..})' % (lhs, op, rhs, op),
                 'after': 'pub fn infix_int(%s: i64, %s: Rule, %s: i64) -> i64 { match %s {..} }  (arms verbatim)' % (lhs, op, rhs, op)}]
    arms2, n = re.subn(r'\b(\w+)\.pow\(', r'vx_debug_pow(\1, ', arms)
    if n:
        rewrites.append({'rule': 'R11b', 'before': 'x.pow(e)', 'after': 'vx_debug_pow(x, e)',
                         'why': 'i64::pow inherits the overflow checks of the calling crate (debug build: panics); Kani\'s std has them off, '
                                'so the debug-build definition is written out: checked_pow or panic', 'sites': n})
    text = ('#![allow(non_camel_case_types, dead_code, unused_imports)]\nuse std::num::Wrapping as W;\n'
            '#[derive(Clone, Copy, PartialEq, Eq)]\npub enum Rule { add, subtract, multiply, divide, power, num, expr }\n'
            'pub fn vx_debug_pow(b: i64, e: u32) -> i64 { match b.checked_pow(e) { Some(v) => v, None => panic!("attempt to multiply with overflow") } }\n'
            'pub fn infix_int(%s: i64, %s: Rule, %s: i64) -> i64 {\n    match %s {%s}\n}\n' % (lhs, op, rhs, op, arms2))
    info = {'file': SRC, 'line_start': line_of(src, s), 'line_end': line_of(src, e)}
    return text + HARNESS, rewrites, info


def crate_dir():
    d = os.path.join(W.WORK, 'kani-' + W._TAG)
    os.makedirs(os.path.join(d, 'src'), exist_ok=True)
    open(os.path.join(d, 'Cargo.toml'), 'w').write(
        '[package]\nname = "vxcalc"\nversion = "0.1.0"\nedition = "2021"\n[workspace]\n[lints.rust]\nunexpected_cfgs = { level = "allow" }\n')
    return d


def run_kani(d, harness, timeout=1500, playback=False):
    cmd = ['cargo', 'kani', '--no-overflow-checks', '--harness', harness]
    if playback:
        cmd += ['-Z', 'concrete-playback', '--concrete-playback=print']
    env = dict(os.environ, CARGO_NET_OFFLINE='true', CARGO_TARGET_DIR=os.path.join(d, 'target'))
    t0 = time.time()
    try:
        p = subprocess.run(cmd, cwd=d, env=env, capture_output=True, text=True, timeout=timeout)
        out = p.stdout + p.stderr
    except subprocess.TimeoutExpired:
        return {'timeout': True, 'cmd': ' '.join(cmd), 'wall': time.time() - t0}
    m = re.search(r'\*\* (\d+) of (\d+) failed', out)
    ok = 'VERIFICATION:- SUCCESSFUL' in out
    failed = 'VERIFICATION:- FAILED' in out
    return {'timeout': False, 'ok': ok, 'failed': failed, 'nfail': int(m.group(1)) if m else None, 'nchecks': int(m.group(2)) if m else 0,
            'failed_checks': re.findall(r'Failed Checks: (.*)', out), 'out': out, 'cmd': ' '.join(cmd), 'wall': time.time() - t0}


def parse_playback(out):
    vals = re.findall(r'//\s*(-?\d+)\s*\n\s*vec!\[', out)
    return [int(v) for v in vals]


def lit(n):
    return str(n) if n >= 0 else '(0 - %d)' % (-n)


def setup():
    try:
        text, _, _ = extract_kernel()
    except Exception as e:  # noqa
        print('setup: kani kernel extraction failed:', e)
        return 0
    d = crate_dir()
    open(os.path.join(d, 'src', 'lib.rs'), 'w').write(text)
    r = run_kani(d, 'canary_must_fail', timeout=900)
    print('setup: kani warm-up', 'ok' if not r.get('timeout') else 'timeout')
    return 0


def engine(tier, seed):
    # two checks (C05 and C19) use this engine and may be started at the same time: they share one crate directory, so they take turns
    import fcntl
    os.makedirs(W.WORK, exist_ok=True)
    with open(os.path.join(W.WORK, 'kani-' + W._TAG + '.lock'), 'w') as lk:
        fcntl.flock(lk, fcntl.LOCK_EX)
        try:
            return _engine(tier, seed)
        finally:
            fcntl.flock(lk, fcntl.LOCK_UN)


def _engine(tier, seed):
    res = {'engine': 'kani', 'backend': 'Kani 0.68.0 / CBMC 6.11 (CaDiCaL)', 'obligs': [], 'undecided': [], 'obligations': 0, 'discharged': 0,
           'samples': [], 'checker_cmds': [], 'solver_ms': {}, 'bounded': [],
           'trusted': ['Kani/CBMC bit-precise semantics of i64 and std::num::Wrapping',
                       'i64::pow is modelled by its debug-build definition (checked_pow, else panic): the real binary is built with overflow checks on',
                       'Rust integer division truncates toward zero (language definition); float ops and float->int `as` casts never panic (IEEE / saturating cast)',
                       'precedence and associativity (pest Pratt parser table, grammar.pest) and is_arithmetic are outside the kernel: not covered']}
    try:
        text, rewrites, info = extract_kernel()
    except LostAnchor as e:
        res['undecided'].append(('lost-anchor', str(e)))
        return res
    res['rewrites'] = rewrites
    res['samples'].append({'kernel': 'calculator::eval_int map_infix closure', **info})
    d = crate_dir()
    open(os.path.join(d, 'src', 'lib.rs'), 'w').write(text)
    import concurrent.futures as cf
    names = list(LABELS) + ['canary_must_fail']
    with cf.ThreadPoolExecutor(max_workers=3) as ex:
        rs = dict(zip(names, ex.map(lambda h: run_kani(d, h), names)))
    can = rs['canary_must_fail']
    if can.get('timeout') or not can.get('failed'):
        res['undecided'].append(('vacuity', 'kani canary harness did not fail: ' + str(can.get('out', ''))[-300:]))
    for h, lab in LABELS.items():
        r = rs[h]
        res['checker_cmds'].append(r['cmd'])
        res['solver_ms']['kani:' + h] = round(r['wall'] * 1000)
        if r.get('timeout'):
            res['undecided'].append(('rlimit', 'kani harness %s timed out' % h))
            continue
        if not r['ok'] and not r['failed']:
            res['undecided'].append(('unsupported-construct', 'kani: ' + r['out'][-600:]))
            continue
        res['obligations'] += r['nchecks']
        res['discharged'] += r['nchecks'] - (r['nfail'] or 0)
        res['samples'].append({'obligation': lab, 'harness': h, 'cbmc_checks': r['nchecks'], 'result': 'discharged' if r['ok'] else 'FAILED',
                               'domain': 'all (i64, op in {+,-,*,/,^}, i64): complete, not bounded'})
        if r['failed']:
            wit = None
            if os.environ.get('VX_NO_WITNESS') != '1':
                r2 = run_kani(d, h, playback=True)
                vals = parse_playback(r2.get('out', ''))
                if len(vals) >= 2:
                    ops = {0: '+', 1: '-', 2: '*', 3: '/', 4: '^'}
                    op = ops.get(vals[2], '^') if len(vals) > 2 else '^'
                    line = '%s %s %s' % (lit(vals[0]), op, lit(vals[1]))
                    w = {'via': 'binary', 'line': line, 'timeout': 6, 'kani_counterexample': vals}
                    bad, detail = W.violates(w, W.observe(w))
                    w.update(found=bool(bad), observed=detail)
                    wit = w
            res['obligs'].append({'name': lab, 'props': ['C19', 'C05'], 'message': '; '.join(r['failed_checks']) or 'kani harness failed',
                                  'kind': 'kani', 'repo_sites': [[SRC, info['line_start'], 'eval_int map_infix closure']],
                                  'rendered': '\n'.join(l for l in r['out'].split('\n') if 'Failed Checks' in l or 'File:' in l or 'VERIFICATION' in l)[:1500],
                                  'fn': 'eval_int', 'unit': 'U-CALC(kani)', 'witness': wit})
    return res
