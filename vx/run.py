"""Run Verus on a generated unit file; turn diagnostics into named obligations."""
import json
import os
import re
import shutil
import subprocess
import time

WORK = os.environ.get('VX_WORK', '/verif/.work')


class VerusResult:
    def __init__(self):
        self.rc = None
        self.ok = False
        self.failed = []        # list of dict(label|None, message, gen_lines, repo_sites, fn)
        self.tool_errors = []   # non-verification errors (unsupported construct, type error...)
        self.fn_times = {}      # fn -> dict(ms, rlimit, success)
        self.obligations = {}   # fn -> number of asserts in initial AIR
        self.verified = 0
        self.errors = 0
        self.wall_s = 0.0
        self.cmd = ''
        self.raw_err = ''
        self.version = ''
        self.rlimit_hit = []


VERIF_MSG = re.compile(r'postcondition not satisfied|precondition not satisfied|precondition not met|invariant not satisfied|'
                       r'assertion failed|possible arithmetic underflow/overflow|possible division by zero|'
                       r'decreases not satisfied|could not prove termination|loop invariant not satisfied|'
                       r'possible bit shift|recommendation not met|unreachable|'
                       r'failed to show|cannot show invariant|loop must have a decreases|'
                       r'invariant not satisfied before loop|might not be allowed at this program point|'
                       r'value may be out of range|possible|split')
RLIMIT_MSG = re.compile(r'Resource limit \(rlimit\) exceeded|rlimit')


def count_air_asserts(air_path, crate):
    """number of `(assert` nodes per `;; Function-Def crate::fn` block in the initial AIR log."""
    counts = {}
    cur = None
    try:
        with open(air_path, encoding='utf-8', errors='replace') as f:
            for ln in f:
                if ln.startswith(';; Function-Def ') or ln.startswith(';; Function-Decl-Check-Recommends') \
                        or ln.startswith(';; Function-Recommends') or ln.startswith(';; Function-Specs') \
                        or ln.startswith(';; Function-Axioms') or ln.startswith(';; Function-Decl') \
                        or ln.startswith(';; Function-Termination') or ln.startswith(';; Function-Check-Recommends'):
                    m = re.match(r';; Function-(Def|Termination) (\S+)', ln)
                    cur = m.group(2) if m else None
                    continue
                if cur is not None and re.match(r'\s*\(assert\s*$', ln):
                    counts[cur] = counts.get(cur, 0) + 1
    except FileNotFoundError:
        pass
    return counts


def run_verus(path, rlimit=30, extra=(), log_air=True, threads=None, timeout=900):
    r = VerusResult()
    d = os.path.dirname(path)
    base = os.path.basename(path)[:-3]
    logdir = os.path.join(d, base + '.log')
    shutil.rmtree(logdir, ignore_errors=True)
    cmd = ['verus', path, '--output-json', '--time', '--rlimit', str(rlimit), '--multiple-errors', '50',
           '--error-format=json', '--no-report-long-running']
    if log_air:
        cmd += ['--log-dir', logdir, '--log', 'air']
    if threads:
        cmd += ['--num-threads', str(threads)]
    cmd += list(extra)
    r.cmd = ' '.join(cmd)
    t0 = time.time()
    try:
        p = subprocess.run(cmd, cwd=d, capture_output=True, text=True, timeout=timeout)
    except subprocess.TimeoutExpired:
        r.rc = -9
        r.tool_errors.append({'message': 'verus timed out after %ds' % timeout})
        r.wall_s = time.time() - t0
        return r
    r.wall_s = time.time() - t0
    r.rc = p.returncode
    r.raw_err = p.stderr
    try:
        js = json.loads(p.stdout)
    except Exception:
        js = None
    if js:
        vr = js.get('verification-results', {})
        r.verified = vr.get('verified', 0)
        r.errors = vr.get('errors', 0)
        r.ok = bool(vr.get('success'))
        r.version = js.get('verus', {}).get('version', '')
        for m in js.get('times-ms', {}).get('smt', {}).get('smt-run-module-times', []):
            for fb in m.get('function-breakdown', []):
                nm = fb['function']
                cur = r.fn_times.setdefault(nm, {'ms': 0.0, 'rlimit': 0, 'success': True})
                cur['ms'] += fb.get('time-micros', 0) / 1000.0
                cur['rlimit'] += fb.get('rlimit', 0)
                cur['success'] = cur['success'] and fb.get('success', False)
        if vr.get('encountered-vir-error'):
            r.tool_errors.append({'message': 'encountered-vir-error'})
    for ln in p.stderr.split('\n'):
        ln = ln.strip()
        if not ln.startswith('{'):
            continue
        try:
            dg = json.loads(ln)
        except Exception:
            continue
        if dg.get('level') not in ('error',):
            continue
        msg = dg.get('message', '')
        if msg.startswith('aborting due to'):
            continue
        spans = [(s['file_name'], s['line_start'], s['line_end'], s.get('is_primary'), s.get('label'))
                 for s in dg.get('spans', [])]
        entry = {'message': msg, 'spans': spans, 'rendered': dg.get('rendered', '')[:3000]}
        if RLIMIT_MSG.search(msg):
            r.rlimit_hit.append(entry)
        elif VERIF_MSG.search(msg) and not dg.get('code'):
            r.failed.append(entry)
        else:
            r.tool_errors.append(entry)
    if js is None and not r.tool_errors:
        r.tool_errors.append({'message': 'no JSON output from verus', 'rendered': p.stderr[-3000:]})
    if log_air:
        r.obligations = count_air_asserts(os.path.join(logdir, 'root.air'), base)
        shutil.rmtree(logdir, ignore_errors=True)
    return r
