"""vx generator: re-extracts the real functions of /repo on every run, applies the
logged rewrite catalogue, splices contracts, and emits one Verus file per unit
together with a line map (generated line -> repo line | contract label | prelude)."""
import hashlib
import os
import re
from . import rules
from .rlex import lex, match_close, find_fn, find_type_item, line_of, LostAnchor, LexError
from .rules import Unsupported, is_p

REPO = os.environ.get('VX_REPO', '/repo')


class Loop:
    def __init__(self, invariant=(), decreases=None, invariant_except_break=(), ensures=(), no_auto=False):
        self.invariant = list(invariant)
        self.decreases = decreases
        self.invariant_except_break = list(invariant_except_break)
        self.ensures = list(ensures)
        self.no_auto = no_auto


class Rw:
    """Site-specific rewrite. `pat` is a regex when regex=True else a literal. Every
    occurrence (or `count`) is replaced. required=True => missing pattern is a lost anchor."""

    def __init__(self, pat, rep, regex=False, count=0, required=True, why='', rule='R10', balanced=False):
        self.pat, self.rep, self.regex, self.count, self.required, self.why, self.rule = \
            pat, rep, regex, count, required, why, rule
        self.balanced = balanced


class Fn:
    def __init__(self, file, name, impl=None, ret=None, add_params=None, attrs=(), requires=(), ensures=(),
                 decreases=None, loops=None, hints=None, rewrites=(), pre_rewrites=(), loop_kinds=None, chars=('c', 'c_next'),
                 strvars=(), clone_shims=None, int_args=(), external=False, sig=None, rename=None,
                 no_generic=(), props=(), returns=None, ghost_args=None, strip_paths=None, let_types=None, file_drops=False):
        self.file, self.name, self.impl, self.ret = file, name, impl, ret
        self.add_params, self.attrs = add_params, list(attrs)
        self.requires, self.ensures, self.decreases = list(requires), list(ensures), decreases
        self.loops = loops or {}
        self.hints = hints or {}
        self.rewrites, self.pre_rewrites = list(rewrites), list(pre_rewrites)
        self.loop_kinds = loop_kinds or {}
        self.chars, self.strvars = tuple(chars), tuple(strvars)
        self.clone_shims = clone_shims or {}
        self.int_args = tuple(int_args)
        self.external = external
        self.sig = sig          # full replacement signature text (up to but excluding body `{`)
        self.rename = rename
        self.no_generic = set(no_generic)
        self.props = tuple(props)
        self.returns = returns
        self.ghost_args = ghost_args or {}
        self.strip_paths = strip_paths
        self.let_types = let_types or {}
        self.file_drops = file_drops

    @property
    def key(self):
        return (self.impl + '::' if self.impl else '') + (self.rename or self.name)


class TypeItem:
    def __init__(self, file, kw, name, rewrites=(), attrs=()):
        self.file, self.kw, self.name, self.rewrites, self.attrs = file, kw, name, list(rewrites), list(attrs)


class Unit:
    def __init__(self, name, template, fns=(), types=(), props=(), features=(), raw=None):
        self.name, self.template = name, template
        self.fns = {f.key: f for f in fns}
        self.types = {t.name: t for t in types}
        self.props = tuple(props)
        self.features = tuple(features)
        self.raw = raw or {}


class Generated:
    def __init__(self):
        self.lines = []      # text lines
        self.origin = []     # parallel: dict
        self.rewrites = []   # logged rewrites
        self.fn_info = {}    # key -> dict(file,line_start,line_end,sha,loops)
        self.labels = {}     # label -> dict(fn, kind, line)
        self.canary_lines = {}  # line -> description (canary variant only)

    def add(self, text, origin):
        for ln in text.split('\n'):
            self.lines.append(ln)
            self.origin.append(origin)

    def text(self):
        return '\n'.join(self.lines) + '\n'


MARK = re.compile(r'/\*@L(\d+)\*/')


def _mark_lines(src_text, first_line):
    """append /*@Ln*/ to each line end (not inside multi-line string tokens)."""
    toks = lex(src_text)
    in_str = set()
    for t in toks:
        if t[0] == 'str' and '\n' in t[1]:
            p = t[2]
            for i, ch in enumerate(t[1]):
                if ch == '\n':
                    in_str.add(src_text.count('\n', 0, p + i))
    out = []
    for i, ln in enumerate(src_text.split('\n')):
        if i in in_str:
            out.append(ln)
        else:
            out.append(ln + '/*@L%d*/' % (first_line + i))
    return '\n'.join(out)


def _apply_site_rewrites(text, rws, log, fnkey):
    for rw in rws:
        if rw.balanced:
            # the regex ends at an opening brace: the replacement covers everything up to its matching close
            n = 0
            pos = 0
            rx = re.compile(rw.pat, flags=re.S)
            while True:
                m = rx.search(text, pos)
                if not m:
                    break
                ob = m.end() - 1
                if text[ob] != '{':
                    raise LostAnchor('%s: balanced rewrite must end at an opening brace: %r' % (fnkey, rw.pat[:60]))
                toks = lex(text[ob:])
                cb = ob + toks[match_close(toks, 0)][3]
                rep = m.expand(rw.rep)
                text = text[:m.start()] + rep + text[cb:]
                pos = m.start() + len(rep)
                n += 1
                if rw.count and n >= rw.count:
                    break
            if n == 0:
                if rw.required:
                    raise LostAnchor('%s: site rewrite pattern not found: %r' % (fnkey, rw.pat[:80]))
                continue
            log.append({'rule': rw.rule, 'fn': fnkey, 'before': rw.pat[:200] + ' ... }', 'after': rw.rep[:200], 'sites': n, 'why': rw.why})
            continue
        if rw.regex:
            new, n = re.subn(rw.pat, rw.rep, text, count=rw.count, flags=re.S)
        else:
            n = text.count(rw.pat)
            new = text.replace(rw.pat, rw.rep, rw.count if rw.count else -1)
        if n == 0:
            if rw.required:
                raise LostAnchor('%s: site rewrite pattern not found: %r' % (fnkey, rw.pat[:80]))
            continue
        log.append({'rule': rw.rule, 'fn': fnkey, 'before': rw.pat[:200], 'after': rw.rep[:200], 'sites': n, 'why': rw.why})
        text = new
    return text


DEFAULT_STRIP = ['parsers::parser_line', 'libs::re', 'libs::path', 'libs::fork', 'libs::pipes', 'libs', 'core', 'tools',
                 'shell', 'types', 'jobc', 'signals', 'execute', 'scripting', 'calculator', 'parsers', 'crate']


def _strip_paths(text, paths, log):
    paths = DEFAULT_STRIP if paths is None else paths
    if not paths:
        return text
    toks = lex(text)
    edits = []
    alts = sorted(paths, key=lambda x: -len(x))
    for k, t in enumerate(toks):
        if t[0] != 'id':
            continue
        if k > 0 and (is_p(toks[k - 1], ':') or is_p(toks[k - 1], '.')):
            continue
        for a in alts:
            segs = a.split('::')
            ok = True
            j = k
            for sg in segs:
                if j + 2 < len(toks) and toks[j][1] == sg and toks[j][0] == 'id' and is_p(toks[j + 1], ':') and is_p(toks[j + 2], ':'):
                    j += 3
                else:
                    ok = False
                    break
            if ok:
                edits.append((t[2], toks[j][2], ''))
                break
    if edits:
        # drop overlapping (nested) matches
        e2 = []
        for e in sorted(edits):
            if e2 and e[0] < e2[-1][1]:
                continue
            e2.append(e)
        log.append({'rule': 'R0', 'before': 'module path prefixes (%s)' % ', '.join(sorted(set(text[a:b] for a, b, _ in e2))),
                    'after': '(removed: the unit file is a single module)', 'sites': len(e2)})
        text = rules.apply_edits(text, e2)
    return text


def _ghost_args(text, ghost_args, log, self_name):
    if not ghost_args:
        return text
    toks = lex(text)
    edits = []
    for k, t in enumerate(toks):
        if t[0] == 'id' and t[1] in ghost_args and k + 1 < len(toks) and is_p(toks[k + 1], '(') \
                and not (k > 0 and toks[k - 1][1] == 'fn'):
            c = match_close(toks, k + 1)
            inner = MARK.sub('', text[toks[k + 1][3]:toks[c][2]]).strip()
            sep = '' if inner == '' or inner.endswith(',') else ', '
            edits.append((toks[c][2], toks[c][2], sep + ghost_args[t[1]]))
    if edits:
        log.append({'rule': 'R8', 'before': 'calls to %s' % ', '.join(sorted(ghost_args)),
                    'after': 'extra ghost argument (erased at run time)', 'sites': len(edits)})
        text = rules.apply_edits(text, edits)
    return text


def _file_drops(text, log):
    """R9: make Rust's Drop of a File explicit: for `let [mut] F = vx_file_from_raw_fd(..)` insert `vx_drop_file(F, Tracked(k));`
    right before the closing brace of the enclosing block (the binding's lexical scope end)."""
    toks = lex(text)
    edits = []
    for k, t in enumerate(toks):
        if t[0] == 'id' and t[1] == 'vx_file_from_raw_fd' and k >= 2 and is_p(toks[k - 1], '='):
            name = toks[k - 2][1]
            # enclosing block: walk forward counting braces
            depth = 0
            j = k
            while j < len(toks):
                u = toks[j]
                if u[0] == 'p' and u[1] == '{':
                    depth += 1
                elif u[0] == 'p' and u[1] == '}':
                    if depth == 0:
                        edits.append((u[2], u[2], 'vx_drop_file(%s, Tracked(k)); ' % name))
                        break
                    depth -= 1
                j += 1
    if edits:
        log.append({'rule': 'R9', 'before': 'end of the scope of a File binding', 'after': 'explicit vx_drop_file(f, k) (Drop closes the descriptor)', 'sites': len(edits)})
        text = rules.apply_edits(text, edits)
    return text


def strip_marks_for_match(text):
    return MARK.sub('', text)


def _fmt_clauses(kw, clauses, indent):
    """returns list of (line_text, label|None)"""
    out = []
    if not clauses:
        return out
    out.append((indent + kw, None))
    for lab, expr in clauses:
        e = ' '.join(x.strip() for x in expr.strip().split('\n'))
        out.append((indent + '    ' + e + ',', lab))
    return out


def _resolve_loop_keys(fn, headers):
    """return a shallow copy of fn whose loops / loop_kinds / hints are keyed by ordinal; 'hdr:<text>' keys are resolved against the
    loop headers of the current source (a spec for a loop that no longer exists is dropped); __I / __LO / __HI / __V in the clause text
    stand for that loop's generated index / bound / collection variables."""
    import copy as _copy

    def find_all(key):
        sub = key[4:]
        return [i for i, h in enumerate(headers) if sub in h]

    def find(key):
        hits = find_all(key)
        return hits[0] if len(hits) >= 1 else None

    def subst(t, n):
        return t.replace('__I', '__i%d' % n).replace('__LO', '__lo%d' % n).replace('__HI', '__hi%d' % n).replace('__V', '__v%d' % n)

    f2 = _copy.copy(fn)
    f2.loops, f2.loop_kinds, f2.hints = {}, {}, {}
    for key, lp in fn.loops.items():
        ns = find_all(key) if isinstance(key, str) and key.startswith('hdr:') else [key]
        for n in ns:
            l2 = Loop([(a, subst(b, n)) for a, b in lp.invariant], subst(lp.decreases, n) if lp.decreases else None,
                      [(a, subst(b, n)) for a, b in lp.invariant_except_break], [(a, subst(b, n)) for a, b in lp.ensures], lp.no_auto)
            f2.loops[n] = l2
    for key, v in fn.loop_kinds.items():
        if isinstance(key, tuple) and isinstance(key[0], str) and key[0].startswith('hdr:'):
            n = find(key[0])
            if n is not None:
                f2.loop_kinds[(n, key[1])] = v
        elif isinstance(key, str) and key.startswith('hdr:'):
            n = find(key)
            if n is not None:
                f2.loop_kinds[n] = v
        else:
            f2.loop_kinds[key] = v
    for key, v in fn.hints.items():
        m = re.match(r'^(hdr:.*?)\|(body-entry|exit)$', key)
        if m:
            for n in find_all(m.group(1)):
                f2.hints['loop-%d-%s' % (n, m.group(2))] = subst(v, n)
        else:
            m2 = re.match(r'^loop-(\d+)-', key)
            f2.hints[key] = subst(v, int(m2.group(1))) if m2 else v
    return f2


def _hint_text(h):
    h = ' '.join(h.split())
    if ' ;;; ' in h:   # several hints at one anchor (e.g. two labelled assertions)
        return ''.join(_hint_text(x) for x in h.split(' ;;; '))
    if h.startswith('RAW:'):
        return '\n/*@H*/ ' + h[4:].strip()
    m = re.match(r'^LABEL:(\S+?):\s*(.*)$', h)
    if m:   # a labelled intermediate assertion: an obligation of its own, reported under its label
        return '\n/*@HL %s*/ proof { %s }' % (m.group(1), m.group(2))
    return '\n/*@H*/ proof { ' + h + ' }'


def gen_fn(fn, g, canary=False):
    path = os.path.join(REPO, fn.file)
    src = open(path, encoding='utf-8').read()
    s, e = find_fn(src, fn.name, fn.impl)
    item = src[s:e]
    l0 = line_of(src, s)
    info = {'file': fn.file, 'line_start': l0, 'line_end': line_of(src, e),
            'sha256': hashlib.sha256(item.encode()).hexdigest()[:16], 'external': fn.external}
    g.fn_info[fn.key] = info
    log = []
    text = _mark_lines(item, l0)
    # site rewrites that must see the original text (before generic rules)
    text = _apply_site_rewrites(text, fn.pre_rewrites, log, fn.key)
    # generic rules
    if not fn.external:
        if 'R3' not in fn.no_generic:
            text, lg = rules.r3_io_drop(text); log += lg
        if 'R4' not in fn.no_generic:
            text, lg = rules.r4_format(text, fn.int_args, fn.chars); log += lg
        if 'R12' not in fn.no_generic:
            text, lg = rules.r_method_shims(text, fn.chars, fn.clone_shims); log += lg
        if 'R5' not in fn.no_generic:
            text, lg = rules.r5_streq(text, fn.strvars, fn.chars); log += lg
        # loop headers by ordinal (before desugaring) so that loop specs can be keyed by header text: 'hdr:<substring>'
        _lps, _ltoks = rules.find_loops(MARK.sub('', text))
        _clean = MARK.sub('', text)
        headers = [' '.join(_clean[lp['kw_pos']:lp['open_pos']].split()) for lp in _lps]
        fn = _resolve_loop_keys(fn, headers)
        text, lg, autos = rules.r1_for_desugar(text, fn.loop_kinds); log += lg
    else:
        autos = {}
    if not fn.external:
        text = _strip_paths(text, fn.strip_paths, log)
        text = _ghost_args(text, fn.ghost_args, log, fn.name)
        for nm, ty in fn.let_types.items():
            new, n = re.subn(r'\blet\s+(mut\s+)?%s\s*=(?!=)' % re.escape(nm), lambda m: 'let %s%s: %s =' % (m.group(1) or '', nm, ty), text)
            if n:
                log.append({'rule': 'R13', 'before': 'let %s = ..' % nm, 'after': 'let %s: %s = ..  (type annotation only)' % (nm, ty), 'sites': n})
                text = new
    text = _apply_site_rewrites(text, fn.rewrites, log, fn.key)
    if fn.file_drops:
        text = _file_drops(text, log)
    for lg in log:
        lg.setdefault('fn', fn.key)
        lg['before'] = MARK.sub('', lg['before'])
        lg['after'] = MARK.sub('', lg['after'])
    g.rewrites += log

    # split signature / body
    toks = lex(text)
    kf = None
    for k, t in enumerate(toks):
        if t[0] == 'id' and t[1] == 'fn' and toks[k + 1][1] == fn.name:
            kf = k
            break
    if kf is None:
        raise LostAnchor('fn %s vanished after rewrite' % fn.key)
    j = kf + 2
    while True:
        u = toks[j]
        if u[0] == 'p' and u[1] in '([':
            j = match_close(toks, j) + 1
            continue
        if is_p(u, '{'):
            break
        j += 1
    body_open = j
    body_close = match_close(toks, j)
    head = text[:toks[kf][2]]       # attrs + visibility
    sig = text[toks[kf][2]:toks[body_open][2]]
    body = text[toks[body_open][3]:toks[body_close][2]]

    # drop clippy / allow attributes (not understood inside verus!)
    head_clean = re.sub(r'#\[(allow|warn|deny)\([^\]]*\)\]', '', MARK.sub('', head))
    head_clean = re.sub(r'///[^\n]*', '', head_clean)
    head_clean = ' '.join(head_clean.split())
    sig_clean = MARK.sub('', sig)
    if fn.sig is not None:
        sig_clean = fn.sig
    else:
        if fn.rename:
            sig_clean = sig_clean.replace('fn ' + fn.name, 'fn ' + fn.rename, 1)
        if fn.add_params:
            st = lex(sig_clean)
            po = next(i for i, t in enumerate(st) if is_p(t, '('))
            pc = match_close(st, po)
            inner = sig_clean[st[po][3]:st[pc][2]].strip()
            sep = '' if (inner == '' or inner.endswith(',')) else ', '
            sig_clean = sig_clean[:st[pc][2]] + sep + fn.add_params + sig_clean[st[pc][2]:]
        if fn.ret:
            m = re.search(r'->\s*(.+?)\s*$', sig_clean, re.S)
            if not m:
                raise LostAnchor('%s: no return type to name' % fn.key)
            sig_clean = sig_clean[:m.start()] + '-> (%s: %s)' % (fn.ret, m.group(1).strip())
    sig_clean = ' '.join(sig_clean.split())

    org_sig = {'origin': 'repo', 'file': fn.file, 'line': l0, 'fn': fn.key}
    for a in fn.attrs:
        g.add('    ' + a, {'origin': 'contract-attr', 'fn': fn.key})
    if fn.external:
        g.add('    #[verifier::external_body]', {'origin': 'contract-attr', 'fn': fn.key})
    g.add('    ' + (head_clean + ' ' if head_clean else '') + sig_clean, org_sig)
    for kw, cl in (('requires', fn.requires), ('ensures', fn.ensures)):
        for ln, lab in _fmt_clauses(kw, cl, '        '):
            if lab:
                g.labels[lab] = {'fn': fn.key, 'kind': kw, 'line': len(g.lines) + 1}
            g.add(ln, {'origin': 'contract', 'label': lab, 'fn': fn.key, 'kind': kw})
    if fn.returns:
        g.add('        returns ' + fn.returns + ',', {'origin': 'contract', 'label': None, 'fn': fn.key, 'kind': 'returns'})
    if fn.decreases:
        g.add('        decreases ' + fn.decreases + ',', {'origin': 'contract', 'label': None, 'fn': fn.key, 'kind': 'decreases'})
    if fn.external:
        g.add('    { unimplemented!() }', {'origin': 'contract-attr', 'fn': fn.key})
        return

    # loops: insert invariants before each loop's body `{`
    loops, btoks = rules.find_loops(body)
    info['loops'] = len(loops)
    inserts = []  # (pos, text)
    for n, lp in enumerate(loops):
        spec = fn.loops.get(n)
        auto = autos.get(n, {})
        inv = []
        if not (spec and spec.no_auto):
            inv += [('auto.%s.loop%d.%d' % (fn.key, n, i), x) for i, x in enumerate(auto.get('invariant', []))]
        dec = auto.get('decreases')
        ieb, ens = [], []
        if spec:
            inv += spec.invariant
            ieb = spec.invariant_except_break
            ens = spec.ensures
            if spec.decreases:
                dec = spec.decreases
        parts = []
        for kw, cl in (('invariant_except_break', ieb), ('invariant', inv), ('ensures', ens)):
            if cl:
                parts.append('\n/*@C %s*/' % kw)
                for lab, expr in cl:
                    e1 = ' '.join(x.strip() for x in expr.strip().split('\n'))
                    parts.append('\n/*@CL %s*/ %s,' % (lab, e1))
        if dec:
            parts.append('\n/*@C decreases*/ %s' % dec)
        if parts:
            parts.append('\n')
        inserts.append((lp['open_pos'], ''.join(parts)))
        hint = fn.hints.get('loop-%d-body-entry' % n)
        entry = ''
        if canary:
            entry += '\n/*@CANARY loop%d*/ assert(false);' % n
        if hint:
            entry += _hint_text(hint)
        if entry:
            inserts.append((lp['open_pos'] + 1, entry))
        hx = fn.hints.get('loop-%d-exit' % n)
        if hx:
            inserts.append((lp['close_pos'] + 1, _hint_text(hx)))
    # call anchors: before-call:NAME / after-call:NAME (statement containing a call to NAME)
    for anchor, htext in fn.hints.items():
        m = re.match(r'^(before|after)-call:(\w+)$', anchor)
        if not m:
            continue
        found = 0
        for k, t in enumerate(btoks):
            if t[0] == 'id' and t[1] == m.group(2) and k + 1 < len(btoks) and is_p(btoks[k + 1], '('):
                found += 1
                if m.group(1) == 'before':
                    j = k
                    depth = 0
                    while j > 0:
                        u = btoks[j - 1]
                        if u[0] == 'p' and u[1] in ')]}':
                            if u[1] == '}' and depth == 0:
                                break
                            depth += 1
                        elif u[0] == 'p' and u[1] in '([{':
                            if depth == 0:
                                break
                            depth -= 1
                        elif is_p(u, ';') and depth == 0:
                            break
                        j -= 1
                    inserts.append((btoks[j][2], _hint_text(htext) + '\n'))
                else:
                    j = k + 1
                    while j < len(btoks):
                        u = btoks[j]
                        if u[0] == 'p' and u[1] in '([{':
                            j = match_close(btoks, j) + 1
                            continue
                        if is_p(u, ';'):
                            break
                        j += 1
                    inserts.append((btoks[j][3], _hint_text(htext)))
        if found == 0:
            raise LostAnchor('%s: hint anchor %s: no call found' % (fn.key, anchor))
    # text anchors: after-text:<statement text> / before-text:<statement text> (first occurrence in the body)
    for anchor, htext in fn.hints.items():
        m = re.match(r'^(before|after)-text(-all)?:(.+)$', anchor, re.S)
        if not m:
            continue
        p = body.find(m.group(3))
        if p < 0:
            raise LostAnchor('%s: hint anchor %s: text not found' % (fn.key, anchor))
        while p >= 0:
            if m.group(1) == 'before':
                inserts.append((p, _hint_text(htext) + '\n'))
            else:
                inserts.append((p + len(m.group(3)), _hint_text(htext)))
            p = body.find(m.group(3), p + 1) if m.group(2) else -1
    eds = [(p, p, t) for p, t in inserts]
    # stable order for same position: keep list order
    eds_sorted = sorted(range(len(eds)), key=lambda i: (eds[i][0], i))
    out, pos = [], 0
    for i in eds_sorted:
        p, _, t = eds[i]
        out.append(body[pos:p]); out.append(t); pos = p
    out.append(body[pos:])
    body2 = ''.join(out)
    entry = ''
    if canary:
        entry += '\n/*@CANARY fn-entry*/ assert(false);'
    if fn.hints.get('fn-entry'):
        entry += _hint_text(fn.hints['fn-entry'])
    body2 = entry + body2
    g.add('    {', org_sig)
    cur = l0
    for ln in body2.split('\n'):
        ms = MARK.findall(ln)
        clean = MARK.sub('', ln)
        m = re.match(r'^\s*/\*@CL (.+?)\*/ (.*)$', clean)
        if m:
            lab = m.group(1)
            g.labels[lab] = {'fn': fn.key, 'kind': 'loop', 'line': len(g.lines) + 1}
            g.add('            ' + m.group(2), {'origin': 'contract', 'label': lab, 'fn': fn.key, 'kind': 'loop'})
            continue
        m = re.match(r'^\s*/\*@C (\w+)\*/(.*)$', clean)
        if m:
            g.add('        ' + m.group(1) + m.group(2), {'origin': 'contract', 'label': None, 'fn': fn.key, 'kind': 'loop'})
            continue
        m = re.match(r'^\s*/\*@CANARY (.+?)\*/(.*)$', clean)
        if m:
            g.canary_lines[len(g.lines) + 1] = '%s:%s' % (fn.key, m.group(1))
            g.add('        ' + m.group(2).strip(), {'origin': 'canary', 'fn': fn.key, 'where': m.group(1)})
            continue
        m = re.match(r'^\s*/\*@H\*/(.*)$', clean)
        if m:
            g.add('        ' + m.group(1).strip(), {'origin': 'hint', 'fn': fn.key})
            continue
        m = re.match(r'^\s*/\*@HL (.+?)\*/(.*)$', clean)
        if m:
            lab = m.group(1)
            g.labels[lab] = {'fn': fn.key, 'kind': 'assert', 'line': len(g.lines) + 1}
            g.add('        ' + m.group(2).strip(), {'origin': 'contract', 'label': lab, 'fn': fn.key, 'kind': 'assert'})
            continue
        if ms:
            cur = int(ms[0])
        if clean.strip() == '':
            continue
        g.add(clean, {'origin': 'repo', 'file': fn.file, 'line': cur, 'fn': fn.key})
    g.add('    }', org_sig)


def gen_type(ti, g):
    path = os.path.join(REPO, ti.file)
    src = open(path, encoding='utf-8').read()
    s, e = find_type_item(src, ti.kw, ti.name)
    item = src[s:e]
    log = []
    item = _apply_site_rewrites(item, ti.rewrites, log, ti.name)
    g.rewrites += log
    item = re.sub(r'#\[derive\([^\]]*\)\]', '', item)
    item = re.sub(r'#\[allow\([^\]]*\)\]', '', item)
    item = '\n'.join(l for l in item.split('\n') if not l.strip().startswith('//'))
    l0 = line_of(src, s)
    g.fn_info['type ' + ti.name] = {'file': ti.file, 'line_start': l0, 'line_end': line_of(src, e),
                                    'sha256': hashlib.sha256(src[s:e].encode()).hexdigest()[:16]}
    for a in ti.attrs:
        g.add(a, {'origin': 'contract-attr'})
    for i, ln in enumerate(item.split('\n')):
        if ln.strip():
            g.add(ln, {'origin': 'repo', 'file': ti.file, 'line': l0 + i})


def generate(unit, canary=False, tier='quick'):
    g = Generated()
    for ft in unit.features:
        g.add('#![feature(%s)]' % ft, {'origin': 'prelude'})
    for ln in unit.template.split('\n'):
        m = re.match(r'^\s*//@FN (\S+)\s*$', ln)
        if m:
            gen_fn(unit.fns[m.group(1)], g, canary)
            continue
        m = re.match(r'^\s*//@RAW (\S+)\s*$', ln)
        if m:
            unit.raw[m.group(1)](g, canary)
            continue
        m = re.match(r'^\s*//@TYPE (\S+)\s*$', ln)
        if m:
            gen_type(unit.types[m.group(1)], g)
            continue
        m = re.match(r'^(.*?)\s*//@L (\S+)\s*$', ln)
        if m:
            g.labels[m.group(2)] = {'fn': 'prelude', 'kind': 'requires', 'line': len(g.lines) + 1}
            g.add(m.group(1), {'origin': 'contract', 'label': m.group(2), 'fn': None, 'kind': 'requires'})
            continue
        g.add(ln, {'origin': 'prelude'})
    return g
