#!/usr/bin/env python3
"""Regenerate MANIFEST.json from contracts/registry.py (run after editing the registry)."""
import json, os, sys
ROOT = os.path.dirname(os.path.dirname(os.path.abspath(__file__)))
sys.path.insert(0, ROOT)
from contracts import registry as reg
from vx import axcheck as _ax
from vx import cases as _cs

props = [json.loads(l)['id'] for l in open(os.path.join(ROOT, 'properties.jsonl'))]
checks = []
for pid in props:
    if pid not in reg.PROPERTY_UNITS:
        continue
    meta = reg.META[pid]
    checks.append({
        'property_id': pid,
        'quick_cmd': './check %s --tier quick' % pid,
        'thorough_cmd': './check %s --tier thorough' % pid,
        'evidence_file': '/verif/evidence/%s.json' % pid,
        'replay_cmd_template': './check %s --replay {path}' % pid,
        'engine': 'vx+verus' + ('+kani' if pid == 'C19' else '') + ('+axcheck' if pid in _ax.AXIOMS else '') + ('+bounded' if pid in _cs.CASES else ''),
        'level_claimed': {'category': 'proof', 'text': meta['text'], 'design_ref': meta.get('design_ref', 'DESIGN.md §5 ' + pid)},
        'level_note': meta['note'] + (' A bounded stand-in (enumerated inputs through the real binary, labelled bounded in the evidence, not counted in '
                                      'obligations/discharged) covers the parts of the property whose code is outside the verifier\'s reach.' if pid in _cs.CASES else ''),
        'technique': meta.get('technique', 'contract-based deductive verification (Verus) of functions re-extracted from /repo on every run'),
    })
man = {
    'version': 1,
    'setup_cmd': './check setup',
    'hooks': {
        'guard': 'cicada_verif',
        'enable': 'RUSTFLAGS="--cfg cicada_verif" cargo build --offline (used only by the witness/replay harness; Verus and Kani work on extracted text)',
        'baseline_off_cmd': 'cd /repo && cargo nextest run --workspace --no-fail-fast --offline || cargo test --workspace --no-fail-fast --offline',
        'source_commits': reg.HOOK_COMMITS,
        'add_only': True,
    },
    'engines': [
        {'name': 'vx+verus', 'path': '/verif/vx', 'serves_properties': sorted(reg.PROPERTY_UNITS),
         'kind_free_text': 'mechanical extractor/annotator (vx) + Verus 0.2026.09.13 (Z3): contracts, loop invariants, lemmas; obligations named and counted from the AIR log'},
        {'name': 'kani', 'path': '/verif/vx/kani_engine.py', 'serves_properties': ['C19'],
         'kind_free_text': 'Kani 0.68 / CBMC 6.11 loop-free full-domain harnesses on extracted integer kernels'},
        {'name': 'axcheck', 'path': '/verif/vx/axcheck.py', 'serves_properties': sorted(_ax.AXIOMS),
         'kind_free_text': 'bounded validation of the regex assumptions of the contracts against the real regex crate and the pattern literals in the current source (bounded, not proof)'},
        {'name': 'bounded', 'path': '/verif/vx/bounded.py', 'serves_properties': sorted(_cs.CASES),
         'kind_free_text': 'bounded stand-in: enumerated inputs per property through the real binary / hook harness against the result the property statement prescribes (bounded, not proof)'},
    ],
    'checks': checks,
    'not_applicable': [{'property_id': p, 'reason': r} for p, r in sorted(reg.NOT_APPLICABLE.items()) if p not in reg.PROPERTY_UNITS],
    'notes': 'exit 0 = all obligations for the property discharged (or failing only as listed in known_findings.jsonl with a reproducing witness); '
             'exit 1 = VIOLATION line(s); exit 2 = UNDECIDED (lost anchor / unsupported construct / rlimit / vacuity), never an alarm.',
}
json.dump(man, open(os.path.join(ROOT, 'MANIFEST.json'), 'w'), indent=1)
print('MANIFEST.json: %d checks, %d not_applicable' % (len(checks), len(man['not_applicable'])))
