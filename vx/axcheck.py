"""Bounded validation of the regex assumptions the contracts rely on, against the REAL regex crate and the pattern literals
found in the CURRENT source. This is a bounded stand-in (exhaustive over all strings up to a stated length over a stated alphabet),
never counted as proved; a failed validation with a concrete string is reported with that string as the witness."""
import itertools
import os
import re

from . import witness as W
from . import hookreplay as H
from .rlex import lex, find_fn, LostAnchor


def hx(s):
    return s.encode('utf-8').hex() or 'e'


def unhx(s):
    return '' if s == 'e' else bytes.fromhex(s).decode('utf-8', 'replace')


def fn_literals(file, fn, impl=None):
    src = open(os.path.join(W.REPO, file), encoding='utf-8').read()
    s, e = find_fn(src, fn, impl)
    out = []
    for t in lex(src[s:e]):
        if t[0] == 'str':
            txt = t[1]
            m = re.match(r'^r(#*)"(.*)"\1$', txt, re.S)
            if m:
                out.append(m.group(2))
            elif txt.startswith('"'):
                body = txt[1:-1]
                body = body.replace('\\\\', '\x00').replace('\\"', '"').replace('\\n', '\n').replace('\\t', '\t').replace('\x00', '\\')
                out.append(body)
    return out


def strings(alpha, n):
    for k in range(0, n + 1):
        for t in itertools.product(alpha, repeat=k):
            yield ''.join(t)


class Session:
    """one replay-harness process per batch"""

    def __init__(self):
        self.cmds = []

    def set(self, ptn):
        self.cmds.append('re_set ' + hx(ptn))

    def caps(self, t):
        self.cmds.append('re_caps ' + hx(t))

    def replace(self, to, t):
        self.cmds.append('re_replace %s %s' % (hx(to), hx(t)))

    def run(self):
        out, err = H.drive(self.cmds, timeout=120)
        if out is None:
            raise RuntimeError('replay harness: ' + str(err))
        return [l for l in out if l.strip()]


def parse_caps(line):
    # "caps | g0 g1 g2 | ..." -> list of lists
    if not line.startswith('caps'):
        return None
    res = []
    for part in line[4:].split('|')[1:]:
        res.append([None if g == '-' else unhx(g) for g in part.split()])
    return res


def count_sub(t, sub):
    return t.count(sub)


def ax_re_gt(tier):
    lits = [l for l in fn_literals('src/parsers/parser_line.rs', 'tokens_to_redirections') if l == '>']
    src = open(os.path.join(W.REPO, 'src/parsers/parser_line.rs')).read()
    m = re.search(r're_contains\(word,\s*r"([^"]*)"\)', src)
    if not m:
        raise LostAnchor('axcheck re_gt: re_contains(word, r"..") not found')
    ptn = m.group(1)
    n = 3 if tier == 'quick' else 4
    ts = list(strings(['a', '>', '&', '1', ' '], n))
    s = Session(); s.set(ptn)
    for t in ts:
        s.caps(t)
    out = s.run()[1:]
    for t, l in zip(ts, out):
        got = bool(parse_caps(l))
        if got != ('>' in t):
            return {'string': t, 'detail': 're_contains(%r, %r) = %s but contains(">") = %s' % (t, ptn, got, '>' in t)}, len(ts)
    return None, len(ts)


def ax_args_ref(tier):
    lits = fn_literals('src/scripting.rs', 'expand_args_for_single_token')
    cands = [l for l in lits if '\\$' in l]
    if len(cands) != 1:
        raise LostAnchor('axcheck args_ref: positional-reference pattern not found')
    ptn = cands[0]
    n = 4 if tier == 'quick' else 5
    ts = list(strings(['a', '$', '{', '}', '1', '0', '@'], n))
    shaped = []
    for pre in ['', 'a', 'x-']:
        for key, ref in [('0', '$0'), ('1', '$1'), ('10', '$10'), ('1', '${1}'), ('10', '${10}'), ('12', '${12}'), ('@', '$@'), ('@', '${@}')]:
            for post in ['', 'b', '/y']:
                shaped.append((pre + ref + post, pre, key, post))
    s = Session(); s.set(ptn)
    for t in ts:
        s.caps(t)
    for t, _, _, _ in shaped:
        s.caps(t)
    out = s.run()[1:]
    for t, l in zip(ts, out[:len(ts)]):
        c = parse_caps(l)
        if c is None:
            return {'string': t, 'detail': 'pattern does not compile'}, len(ts)
        if len(c) > 1:
            return {'string': t, 'detail': 'anchored pattern matched %d times' % len(c)}, len(ts)
        if c and (c[0][3] is None or len(c[0][3]) >= len(t)):
            return {'string': t, 'detail': 'group 3 %r is not a proper suffix of the text' % (c[0][3],)}, len(ts)
    for (t, pre, key, post), l in zip(shaped, out[len(ts):]):
        c = parse_caps(l)
        if not c or [c[0][1], c[0][2], c[0][3]] != [pre, key, post]:
            return {'string': t, 'detail': 'reference split %r, expected (%r, %r, %r)' % (c[0][1:] if c else None, pre, key, post),
                    'script': 'echo "[%s]"\n' % t, 'args': ['A1'] + ['A%d' % i for i in range(2, 13)]}, len(ts) + len(shaped)
    return None, len(ts) + len(shaped)


def ax_dollar_splice(tier):
    gate = fn_literals('src/shell.rs', 'should_do_dollar_command_extension')
    if len(gate) != 2:
        raise LostAnchor('axcheck dollar_splice: gate patterns not found')
    lits = fn_literals('src/shell.rs', 'do_command_substitution_for_dollar')
    splice = [l for l in lits if '(?P<head>' in l]
    first = [l for l in lits if l.startswith('\\$\\(') and '(?P' not in l]
    if len(splice) != 1 or len(first) != 1:
        raise LostAnchor('axcheck dollar_splice: splice / inner-command patterns not found')
    n = 5 if tier == 'quick' else 6
    ts = list(strings(['a', '$', '(', ')', ' '], n))
    s = Session()
    s.set(gate[0])
    for t in ts:
        s.caps(t)
    s.set(gate[1])
    for t in ts:
        s.caps(t)
    s.set(splice[0])
    for t in ts:
        s.replace('${head}X${tail}', t)
    s.set(first[0])
    for t in ts:
        s.caps(t)
    out = s.run()
    k = len(ts)
    g1 = out[1:1 + k]; g2 = out[2 + k:2 + 2 * k]; rp = out[3 + 2 * k:3 + 3 * k]; ff = out[4 + 3 * k:4 + 4 * k]
    for i, t in enumerate(ts):
        gated = bool(parse_caps(g1[i])) and not bool(parse_caps(g2[i]))
        if not gated:
            continue
        new = unhx(rp[i][4:]) if rp[i].startswith('rep ') and rp[i] != 'rep !' else None
        if new is None or count_sub(new, '$(') >= count_sub(t, '$('):
            return {'string': t, 'detail': 'one replace step does not remove a substitution: %r -> %r' % (t, new), 'line': 'echo %s' % t.replace('$(a)', '$(echo a)')}, 4 * k
        if not parse_caps(ff[i]):
            return {'string': t, 'detail': 'gate says substitute but the inner command pattern finds none'}, 4 * k
    return None, 4 * k


def ax_dollar_template(tier):
    """Regex::replace with template "${head}" + (o with every `$` doubled) + "${tail}" yields head + o + tail (U-EXP3 replace shim)."""
    lits = fn_literals('src/shell.rs', 'do_command_substitution_for_dollar')
    splice = [l for l in lits if '(?P<head>' in l]
    if len(splice) != 1:
        raise LostAnchor('axcheck dollar_template: splice pattern not found')
    n = 4 if tier == 'quick' else 5
    ts = [t for t in strings(['a', '$', '(', ')'], n) if '$(' in t]
    outs = ['x', '', '$1', '${a}', '$$', 'a$', '$', '$head', '\\1', '$(a)']
    s = Session()
    s.set(splice[0])
    for t in ts:
        s.caps(t)
    for t in ts:
        for o in outs:
            s.replace('${head}' + o.replace('$', '$$') + '${tail}', t)
    out = s.run()
    k = len(ts)
    cp = out[1:1 + k]; rp = out[1 + k:]
    j = 0
    for i, t in enumerate(ts):
        c = parse_caps(cp[i])
        for o in outs:
            new = unhx(rp[j][4:]) if rp[j].startswith('rep ') and rp[j] != 'rep !' else None
            j += 1
            if not c:
                continue
            # the unmatched prefix (text before the leftmost match) is kept by Regex::replace: it belongs to the "head" of the contract
            g0 = c[0][0] or ''
            want = t[:len(t) - len(g0)] + (c[0][1] or '') + o + (c[0][2] or '')
            if new != want:
                return {'string': t, 'detail': 'template replacement of %r with output %r gives %r, not head+output+tail %r' % (t, o, new, want)}, k * (1 + len(outs))
    return None, k * (1 + len(outs))


def ax_env_ref(tier):
    """the two reference patterns of expand_one_env: group 3 is a proper suffix of the text and head + reference + tail is the text (U-EXP2 captures shim)"""
    lits = [l for l in fn_literals('src/shell.rs', 'expand_one_env') if '(.*?)' in l and '\\$' in l]
    if len(lits) != 2:
        raise LostAnchor('axcheck env_ref: the two reference patterns of expand_one_env were not found (%d)' % len(lits))
    n = 5 if tier == 'quick' else 6
    ts = list(strings(['a', '$', '{', '}', '?', '\u00e9'], n))
    total = 0
    for k_, ptn in enumerate(lits):
        s = Session(); s.set(ptn)
        for t in ts:
            s.caps(t)
        out = s.run()[1:]
        total += len(ts)
        for t, l in zip(ts, out):
            c = parse_caps(l)
            if not c:
                continue
            g0, g1, g2, g3 = (c[0] + [None] * 4)[:4]
            if g3 is None or len(g3) >= len(t):
                return {'string': t, 'detail': 'pattern %d: group 3 %r is not a proper suffix of %r' % (k_ + 1, g3, t)}, total
            # a name is made of the characters an assignment accepts (ASCII letters, digits, `_`): a letter of another script ends it
            if g2 not in ('$', '?') and not (g2 and all(ch.isascii() and (ch.isalnum() or ch == '_') for ch in g2)):
                return {'string': t, 'detail': 'pattern %d: the referenced name %r of %r is not an ASCII name, `$` or `?`' % (k_ + 1, g2, t)}, total
            ref = ('$' + g2) if k_ == 0 else ('${' + g2 + '}')
            if t[:len(t) - len(g0)] + g1 + ref + g3 != t:
                return {'string': t, 'detail': 'pattern %d: head %r + reference %r + tail %r is not the text %r' % (k_ + 1, g1, ref, g3, t)}, total
    return None, total


def ax_dot(tier):
    lits = [l for l in fn_literals('src/shell.rs', 'do_command_substitution_for_dot') if '`' in l and '(' in l]
    if len(lits) != 1:
        raise LostAnchor('axcheck dot: backquote pattern not found')
    n = 5 if tier == 'quick' else 6
    ts = list(strings(['a', '`', ' ', '$'], n))
    s = Session(); s.set(lits[0])
    for t in ts:
        s.caps(t)
    out = s.run()[1:]
    for t, l in zip(ts, out):
        c = parse_caps(l)
        if c is None or len(c) > 1:
            return {'string': t, 'detail': 'not anchored / does not compile'}, len(ts)
        if c and (c[0][3] is None or len(c[0][3]) >= len(t)):
            return {'string': t, 'detail': 'group 3 %r is not a proper suffix' % (c[0][3],)}, len(ts)
    return None, len(ts)


def ax_assign_ptn(tier):
    """the pattern drain_env_tokens uses to take assignments off the line and the pattern in_assignment_prefix uses to exempt words from data
    tagging (C13) accept the same texts: those that start with one or more of [a-zA-Z0-9_] followed by `=` (also when the value spans lines)"""
    l1 = [l for l in fn_literals('src/types.rs', 'drain_env_tokens') if '=' in l and '^' in l]
    l2 = [l for l in fn_literals('src/shell.rs', 'is_assignment_word') if '=' in l and '^' in l]
    if not l1 or len(l1) > 2 or len(l2) != 1:
        raise LostAnchor('axcheck assign_ptn: the assignment patterns of drain_env_tokens / is_assignment_word were not found')
    n = 4 if tier == 'quick' else 5
    ts = list(strings(['a', '_', '1', '=', '>', '\n', '-', ' '], n))
    total = 0
    # every pattern involved (the test and the capture of drain_env_tokens, the exemption of the expansion passes) accepts exactly the texts
    # that start with NAME= -- and a pattern with groups takes such a text apart into its name and the whole rest, the empty rest included
    for which, ptn in [('drain_env_tokens', p_) for p_ in l1] + [('is_assignment_word', l2[0])]:
        s_ = Session(); s_.set(ptn)
        for t in ts:
            s_.caps(t)
        out = s_.run()[1:]
        total += len(ts)
        for t, l in zip(ts, out):
            c = parse_caps(l)
            want = re.match(r'^[a-zA-Z0-9_]+=', t) is not None
            if bool(c) != want:
                return {'string': t, 'line': t + ' env' if '\n' not in t else None,
                        'detail': 'the pattern %r of %s matches=%s, "starts with NAME=" is %s for %r' % (ptn, which, bool(c), want, t)}, total
            if c and len(c[0]) >= 3 and c[0][1] is not None:
                if c[0][1] + '=' + (c[0][2] or '') != t:
                    return {'string': t, 'detail': 'the pattern %r of %s takes %r apart into %r and %r' % (ptn, which, t, c[0][1], c[0][2])}, total
    return None, total


def protected_chars(cands):
    """the characters the REAL tokenizer protects when they are written with a backslash in front: the word `x\\c` comes out tagged"""
    out, err = H.drive(['parse_line ./p x\\' + c for c in cands], timeout=60)
    if out is None:
        raise RuntimeError('replay harness: ' + str(err))
    out = [l for l in out if l.startswith('tokens')]
    prot = set()
    for c, l in zip(cands, out):
        toks = re.findall(r'\("((?:[^"\\]|\\.)*)", "((?:[^"\\]|\\.)*)"\)', l)
        if len(toks) == 2 and toks[1][0] != '':
            prot.add(c)
    return prot


def ax_glob_gate(tier):
    """the gate of expand_glob against the tokenizer: a word the gate sends to the glob library holds a character that the tokenizer protects
    when it is escaped (today: `*`), and every word with a `*` is a pattern. A gate that knows more wildcards than the tokenizer protects
    makes an escaped `\\?` expand (C01)."""
    lits = [l for l in fn_literals('src/shell.rs', 'needs_globbing') if '*' in l]
    if len(lits) != 1:
        raise LostAnchor('axcheck glob_gate: the pattern of needs_globbing was not found')
    alpha = ['a', '*', '?', '[', ']', '.']
    prot = protected_chars([c for c in alpha if c != 'a'])
    n = 4 if tier == 'quick' else 5
    ts = list(strings(alpha, n))
    s_ = Session(); s_.set(lits[0])
    for t in ts:
        s_.caps(t)
    out = s_.run()[1:]
    for t, l in zip(ts, out):
        m = bool(parse_caps(l))
        if m and not any(c in prot for c in t):
            return {'string': t, 'line': './pargs ' + ''.join('\\' + c if c != 'a' else c for c in t),
                    'detail': 'needs_globbing pattern %r takes %r for a pattern, but the tokenizer protects only %s when escaped' % (lits[0], t, sorted(prot))}, len(ts)
        if '*' in t and not m:
            return {'string': t, 'detail': 'needs_globbing pattern %r does not take %r for a pattern although it holds a `*`' % (lits[0], t)}, len(ts)
    return None, len(ts)


# ---------------------------------------------------------------- required languages of the remaining pattern literals
# One-directional by design: each entry says what a statement NEEDS the pattern to accept (and how it must take the text apart), never what else
# it may accept -- a literal that is widened for a new feature stays quiet, one that loses a required text is reported with that text.
def _one_literal(file, fn, must, impl=None, which=0):
    lits = [l for l in fn_literals(file, fn, impl) if all(m in l for m in must)]
    uniq = []
    for l in lits:
        if l not in uniq:
            uniq.append(l)
    if len(uniq) <= which:
        raise LostAnchor('axcheck: no pattern literal with %r in %s::%s' % (must, file, fn))
    return uniq[which]


def _caps_of(ptn, ts):
    s_ = Session(); s_.set(ptn)
    for t in ts:
        s_.caps(t)
    return [parse_caps(l) for l in s_.run()[1:]]


def _required(name, ptn, cases):
    """cases: (text, expected groups of the first match or True for `matches` / False for `must not match`)"""
    got = _caps_of(ptn, [c[0] for c in cases])
    for (t, want), c in zip(cases, got):
        if want is False:
            if c:
                return {'string': t, 'detail': '%s: the pattern %r matches %r, which it must not' % (name, ptn, t)}
            continue
        if not c:
            return {'string': t, 'detail': '%s: the pattern %r does not match %r' % (name, ptn, t)}
        if want is not True and [g or '' for g in c[0][1:len(want) + 1]] != list(want):
            return {'string': t, 'detail': '%s: the pattern %r takes %r apart into %r, needed %r' % (name, ptn, t, c[0][1:], want)}
    return None


NAMES_ID = ['a', 'A', '_', 'a1', '_x', 'Ab_9', 'PATH', 'x_y_z']
VALUES = ['', 'v', 'a b', 'a=b', '=', '"q"', "'s'", 'x:y', '~/p', '$H', 'a\nb'.replace('\\n', '\n')]


def ax_name_value(tier):
    """NAME=VALUE words as the `export` and `alias` builtins take them apart: the name is what stands in front of the FIRST `=`, the value is everything
    behind it -- the empty value, values with blanks, quotes and further `=` included (C09, C17)"""
    bad = None; total = 0
    ex = _one_literal('src/builtins/export.rs', 'run', ['=', '^('])
    cases = [(n_ + '=' + v, (n_, v)) for n_ in NAMES_ID for v in VALUES if '\n' not in v]
    total += len(cases)
    bad = _required('export', ex, cases)
    if not bad:
        al = _one_literal('src/builtins/alias.rs', 'run', ['=', '^('])
        names = NAMES_ID + ['g-s', 'my-n.1_x', 'll', '1x', '..']
        cases = [(n_ + '=' + v, (n_, v)) for n_ in names for v in VALUES if '\n' not in v]
        total += len(cases)
        bad = _required('alias', al, cases)
    if not bad:
        rd = _one_literal('src/builtins/read.rs', '_find_invalid_identifier', ['^['])
        cases = [(n_, True) for n_ in NAMES_ID] + [(x, False) for x in ('1a', 'a-b', 'a b', '', 'a=', '$a')]
        total += len(cases)
        bad = _required('read', rd, cases)
    return bad, total


def ax_ref_gates(tier):
    """the gates that decide whether a word is looked at by an expansion pass at all accept every word that holds a reference of the kind the pass
    expands (C10: $NAME ${NAME} $$ $?; C15: $0.. ${n} $@; C11: $(..))"""
    total = 0
    ctx = [('', ''), ('a', 'b'), ('x-', '/y'), ('"', '"'), ('=', ''), ('a b ', ' c')]
    refs10 = ['$A', '${A}', '$a_1', '${a_1}', '$_', '$$', '$?', '${$}', '${?}']
    # env_in_word: the first literal is the $$ / $? gate, the name gate is assembled with format! from two literals
    g1 = _one_literal('src/shell.rs', 'env_in_word', ['[\\$\\?]'])
    bad = _required('env_in_word($$ $?)', g1, [(p_ + r + q_, True) for r in ('$$', '$?', '${$}', '${?}') for p_, q_ in ctx])
    total += 24
    if not bad:
        nm = _one_literal('src/shell.rs', 'env_in_word', ['[a-zA-Z_]'])
        tpl = _one_literal('src/shell.rs', 'env_in_word', ['\\$\\{{?{}'])
        ptn = tpl.replace('{{', '\x00').replace('}}', '\x01').replace('{}', nm).replace('\x00', '{').replace('\x01', '}')
        bad = _required('env_in_word($NAME)', ptn, [(p_ + r + q_, True) for r in refs10[:5] for p_, q_ in ctx] + [('abc', False), ('a$', False), ('$', False)])
        total += 33
    if not bad:
        ga = _one_literal('src/scripting.rs', 'is_args_in_token', ['\\$'])
        bad = _required('is_args_in_token', ga, [(p_ + r + q_, True) for r in ('$0', '$1', '$9', '$10', '${1}', '${12}', '$@', '${@}') for p_, q_ in ctx] + [('abc', False), ('$a', False)])
        total += 50
    if not bad:
        gd = _one_literal('src/shell.rs', 'should_do_dollar_command_extension', ['\\$\\('])
        bad = _required('should_do_dollar_command_extension', gd, [(p_ + r + q_, True) for r in ('$(x)', '$(echo a b)', '$(a|b)', '$(a)$(b)') for p_, q_ in ctx] + [('abc', False), ('$x', False), ('$()', False)])
        total += 27
    return bad, total


def ax_brace_gates(tier):
    """C12: every word with a comma group without blanks or quotes goes to the brace parser; every {m..n} / {m..n..s} is recognised with its numbers"""
    total = 0
    gb = _one_literal('src/shell.rs', 'need_expand_brace', ['\\{'])
    words = ['{a,b}', 'x{a,b}y', '{a,b,c}', '{,a}', '{a,}', '{a{1..2},b}', 'f{{3..1},z}.txt', 'pre{b{c}d,a,}post', '{a,b}{c,d}', '{{a,b},c}', 'a{b}c{d,e}', '{a,{b,c}d}e', '{1,2}{3..4}']
    bad = _required('need_expand_brace', gb, [(w, True) for w in words] + [('abc', False), ('{a}', False), ('a,b', False)])
    total += len(words) + 3
    if not bad:
        gr = _one_literal('src/shell.rs', 'expand_brace_range', ['\\.\\.'])
        cases = []
        for m_ in ('1', '-3', '10', '0'):
            for n_ in ('4', '-1', '0', '2147483647'):
                cases.append(('{%s..%s}' % (m_, n_), (m_, n_)))
                cases.append(('x{%s..%s}y' % (m_, n_), (m_, n_)))
                cases.append(('{%s..%s..2}' % (m_, n_), (m_, n_, '..', '2')))
        bad = _required('expand_brace_range', gr, cases + [('{a..b}', False), ('{1.2}', False), ('1..2', False)])
        total += len(cases) + 3
    return bad, total


def ax_redirect_ptns(tier):
    """C04: the two patterns of tokens_to_redirections take a word with ONE output operator apart into (what stands in front, the operator, the target);
    the second one recognises an operator whose target is the next word"""
    total = 0
    p1 = _one_literal('src/parsers/parser_line.rs', 'tokens_to_redirections', ['(>>?)', '+)$'])
    cases = []
    for pre in ('', '1', '2', 'x', 'ab'):
        for op in ('>', '>>'):
            for tgt in ('f', 'a.txt', '&1', '&2', '/dev/null', 'd/e'):
                cases.append((pre + op + tgt, (pre, op, tgt)))
    bad = _required('redirection with its target', p1, cases + [('abc', False), ('>', False), ('2>>', False)])
    total += len(cases) + 3
    if not bad:
        p2 = _one_literal('src/parsers/parser_line.rs', 'tokens_to_redirections', ['(>>?)$'])
        cases = [(pre + op, (pre, op)) for pre in ('', '1', '2', 'x') for op in ('>', '>>')]
        bad = _required('redirection whose target is the next word', p2, cases + [('abc', False), ('>f', False)])
        total += len(cases) + 2
    return bad, total


def ax_arith_ptns(tier):
    """C19: the three patterns of tools::is_arithmetic -- a digit, an operator (+ - * / ^ and nothing else: a dot or a comma is not one), and the alphabet of the whole line"""
    total = 0
    lits = fn_literals('src/tools.rs', 'is_arithmetic')
    if len(lits) != 3:
        raise LostAnchor('axcheck arith_ptns: the three patterns of is_arithmetic were not found (%d)' % len(lits))
    dig, op, whole = lits
    bad = _required('is_arithmetic: a digit', dig, [(t, True) for t in ('1', 'a1', '1+2', ' 9 ')] + [(t, False) for t in ('', '+', 'a', '(.)')])
    total += 8
    if not bad:
        bad = _required('is_arithmetic: an operator', op, [(t, True) for t in ('1+2', '1-2', '1*2', '1/2', '1^2', '+')] + [(t, False) for t in ('1.5', '.', ',', '(2)', '1 2', '10.0.0.1', '')])
        total += 13
    if not bad:
        yes = ['1+2', ' 1 + 2 ', '(1.5+1)*2', '2^3', '7/2', '1 - (2 * 3)', '((1))+((2))', '2.0 ^ 0.5', '1+2 ']
        no = ['a+1', '1+a', 'echo 1+2', '1+2;', '1+2|3', '$1+2', '1+2 #c', '']
        bad = _required('is_arithmetic: the alphabet of the line', whole, [(t, True) for t in yes] + [(t, False) for t in no])
        total += len(yes) + len(no)
    return bad, total


def ax_fn_head(tier):
    """C15: both header spellings of a function definition, names with letters, digits, `-` and `_`, give the name; the closing line is a lone `}`"""
    head = _one_literal('src/scripting.rs', 'run_script', ['function'])
    cases = []
    for n_ in ('f', 'foo', 'a-b', 'a_b', '_x', 'f1', 'do-it_2'):
        for form in ('function %s {', 'function %s() {', 'function %s () {', 'function %s(){', 'function %s  {'):
            cases.append((form % n_, (n_,)))
    bad = _required('function header', head, cases + [('functionf {', False), ('function {', False), ('function f', False), ('echo function f {', False)])
    total = len(cases) + 4
    if not bad:
        tail = [l for l in fn_literals('src/scripting.rs', 'run_script') if l.startswith('^') and '}' in l and 'function' not in l and '(' not in l]
        if len(tail) != 1:
            raise LostAnchor('axcheck fn_head: the pattern of the closing line was not found')
        bad = _required('function closing line', tail[0], [('}', True), ('} x', False), ('x }', False), ('{}', False), ('', False)])
        total += 5
    return bad, total


def ax_env_word(tier):
    """C09: a NAME=VALUE word (identifier name, any value, the empty one included) is recognised as an assignment by tools::is_env"""
    lit = _one_literal('src/tools.rs', 'is_env', ['=', '^['])
    cases = [(n_ + '=' + v, True) for n_ in NAMES_ID for v in VALUES if '\n' not in v]
    bad = _required('is_env', lit, cases + [('=v', False), ('1a=v', False), ('a b=v', False), ('abc', False)])
    return bad, len(cases) + 4


AXIOMS = {
    'C01': [('re_gt', ax_re_gt), ('glob_gate', ax_glob_gate)], 'C13': [('re_gt', ax_re_gt), ('assign_ptn', ax_assign_ptn)], 'C04': [('re_gt', ax_re_gt), ('redirect_ptns', ax_redirect_ptns)],
    'C09': [('assign_ptn', ax_assign_ptn), ('name_value', ax_name_value), ('env_word', ax_env_word)], 'C12': [('glob_gate', ax_glob_gate), ('brace_gates', ax_brace_gates)],
    'C17': [('name_value', ax_name_value)], 'C11': [('ref_gates', ax_ref_gates)],
    'C15': [('args_ref', ax_args_ref), ('ref_gates', ax_ref_gates), ('fn_head', ax_fn_head)],
    'C19': [('arith_ptns', ax_arith_ptns)],
    'C10': [('env_ref', ax_env_ref), ('ref_gates', ax_ref_gates)],
    # (the substitution passes no longer use regexes: nothing to validate for C11)
    'C05': [('args_ref', ax_args_ref), ('env_ref', ax_env_ref)],
}


def engine_for(pid):
    def engine(tier, seed):
        res = {'engine': 'axcheck', 'backend': 'regex crate (real), exhaustive short strings', 'obligs': [], 'undecided': [], 'obligations': 0, 'discharged': 0,
               'samples': [], 'checker_cmds': [], 'solver_ms': {}, 'bounded': [], 'trusted': []}
        for name, fnc in AXIOMS.get(pid, []):
            try:
                bad, n = fnc(tier)
            except LostAnchor as e:
                res['undecided'].append(('lost-anchor', str(e)))
                continue
            except Exception as e:  # noqa
                res['undecided'].append(('axiom-validation', 'axcheck %s: %r' % (name, e)))
                continue
            res['bounded'].append({'axiom': name, 'strings_checked': n, 'result': 'holds on all' if not bad else 'FAILS on %r' % bad['string'],
                                   'bound': 'all strings up to the stated length over the stated alphabet, plus shaped cases'})
            if bad:
                w = None
                if os.environ.get('VX_NO_WITNESS') != '1' and ('line' in bad or 'script' in bad):
                    w = {'via': 'binary', 'timeout': 5}
                    for k_ in ('line', 'script', 'args'):
                        if k_ in bad:
                            w[k_] = bad[k_]
                    r = W.observe(w)
                    hung = r.get('timeout')
                    w.update(found=bool(hung) or 'panicked' in r.get('stderr', ''), observed='hang' if hung else (r.get('stdout', '')[:100]))
                res['obligs'].append({'name': 'AXIOM:%s' % name, 'props': [pid], 'message': 'regex assumption violated by the current pattern: ' + bad['detail'],
                                      'kind': 'axiom', 'repo_sites': [], 'rendered': bad['detail'], 'fn': name, 'unit': 'axcheck',
                                      'witness': w or {'found': True, 'via': 'regex', 'string': bad['string'], 'observed': bad['detail']}})
        return res
    return engine
