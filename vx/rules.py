"""Closed catalogue of mechanical rewrite rules applied to extracted Rust text.

Every rule takes the function text and returns (new_text, log) where log is a
list of dicts {rule, before, after}. Text outside the logged spans is unchanged.
"""
import re
from .rlex import lex, match_close, match_open, LexError

KEYWORDS = {'if', 'while', 'return', 'match', 'in', 'let', 'else', 'mut', 'for', 'loop',
            'break', 'continue', 'as', 'ref', 'move', 'fn', 'where', 'unsafe'}


class Unsupported(Exception):
    pass


def apply_edits(text, edits):
    """edits: list of (start, end, replacement); non-overlapping."""
    edits = sorted(edits, key=lambda e: e[0])
    for a, b in zip(edits, edits[1:]):
        if a[1] > b[0]:
            raise Unsupported('overlapping edits %r %r' % (a, b))
    out = []
    pos = 0
    for s, e, r in edits:
        out.append(text[pos:s]); out.append(r); pos = e
    out.append(text[pos:])
    return ''.join(out)


def is_p(t, ch):
    return t[0] == 'p' and t[1] == ch


def operand_start(toks, e):
    """index of the first token of the postfix expression that ends at token e."""
    j = e
    while True:
        t = toks[j]
        if t[0] == 'p' and t[1] in ')]':
            o = match_open(toks, j)
            if o - 1 >= 0 and ((toks[o - 1][0] == 'id' and toks[o - 1][1] not in KEYWORDS)
                               or (toks[o - 1][0] == 'p' and toks[o - 1][1] in ')]')):
                j = o - 1
                continue
            start = o
            break
        elif t[0] in ('id', 'num', 'str', 'chr') and not (t[0] == 'id' and t[1] in KEYWORDS):
            if j - 1 >= 0 and is_p(toks[j - 1], '.') and j - 2 >= 0:
                j -= 2
                continue
            if j - 2 >= 0 and is_p(toks[j - 1], ':') and is_p(toks[j - 2], ':'):
                j -= 3
                continue
            start = j
            break
        else:
            raise Unsupported('cannot find operand start at token %r' % (t,))
    # unary prefixes
    while start - 1 >= 0 and toks[start - 1][0] == 'p' and toks[start - 1][1] in '&*':
        # `a && b`: the token before would be another '&' adjacent: treat `&&` as binary
        if toks[start - 1][1] == '&' and start - 2 >= 0 and is_p(toks[start - 2], '&') \
                and toks[start - 2][3] == toks[start - 1][2]:
            break
        prev = toks[start - 2] if start - 2 >= 0 else None
        if prev is not None and (prev[0] in ('id', 'num', 'str', 'chr') and prev[1] not in KEYWORDS
                                 or (prev[0] == 'p' and prev[1] in ')]')):
            break  # binary operator
        start -= 1
    return start


def operand_end(toks, s):
    """index of the last token of the (unary-prefixed) postfix expression starting at s."""
    j = s
    while toks[j][0] == 'p' and toks[j][1] in '&*!-':
        j += 1
    t = toks[j]
    if t[0] == 'p' and t[1] in '([':
        j = match_close(toks, j)
    elif t[0] in ('id', 'num', 'str', 'chr'):
        pass
    else:
        raise Unsupported('cannot find operand end at token %r' % (t,))
    while j + 1 < len(toks):
        n = toks[j + 1]
        if is_p(n, '.') and j + 2 < len(toks) and toks[j + 2][0] in ('id', 'num'):
            j += 2
            continue
        if is_p(n, ':') and j + 2 < len(toks) and is_p(toks[j + 2], ':'):
            # path or turbofish
            if j + 3 < len(toks) and is_p(toks[j + 3], '<'):
                depth = 0
                k = j + 3
                while k < len(toks):
                    if is_p(toks[k], '<'):
                        depth += 1
                    elif is_p(toks[k], '>'):
                        depth -= 1
                        if depth == 0:
                            break
                    k += 1
                j = k
                continue
            j += 3
            continue
        if n[0] == 'p' and n[1] in '([' and n[2] == toks[j][3]:
            j = match_close(toks, j + 1)
            continue
        if is_p(n, '?'):
            j += 1
            continue
        break
    return j


# ---------------------------------------------------------------- R3: I/O macros
IO_MACROS = {'println', 'println_stderr', 'log', 'print', 'eprintln', 'print_stderr'}


def r3_io_drop(text):
    toks = lex(text)
    edits, log = [], []
    for k, t in enumerate(toks):
        if t[0] == 'id' and t[1] in IO_MACROS and k + 2 < len(toks) and is_p(toks[k + 1], '!') \
                and is_p(toks[k + 2], '('):
            c = match_close(toks, k + 2)
            s, e = t[2], toks[c][3]
            if c + 1 < len(toks) and is_p(toks[c + 1], ';') and \
                    (k == 0 or (toks[k - 1][0] == 'p' and toks[k - 1][1] in '{};')):
                e = toks[c + 1][3]
                rep = ''
            else:
                rep = '()'
            edits.append((s, e, rep))
            log.append({'rule': 'R3', 'before': text[s:e], 'after': rep})
    return apply_edits(text, edits), log


# ---------------------------------------------------------------- R4: format!
def _split_format(lit):
    """lit: Rust string literal text including quotes. Returns list of ('lit', s) / ('hole', spec)
    or None when not a plain string literal."""
    if not (lit.startswith('"') and lit.endswith('"')):
        return None
    body = lit[1:-1]
    out, cur, i = [], '', 0
    while i < len(body):
        if body.startswith('{{', i):
            cur += '{'; i += 2
        elif body.startswith('}}', i):
            cur += '}'; i += 2
        elif body[i] == '{':
            j = body.find('}', i)
            if j < 0:
                return None
            if cur:
                out.append(('lit', cur)); cur = ''
            out.append(('hole', body[i + 1:j])); i = j + 1
        else:
            if body[i] == '\\':
                cur += body[i:i + 2]; i += 2
            else:
                cur += body[i]; i += 1
    if cur:
        out.append(('lit', cur))
    return out


def split_args(toks, o, c):
    """split tokens strictly between o and c at top-level commas -> list of (first,last) idx."""
    args, j, start = [], o + 1, o + 1
    while j < c:
        t = toks[j]
        if t[0] == 'p' and t[1] in '([{':
            j = match_close(toks, j) + 1
            continue
        if is_p(t, ','):
            if start <= j - 1:
                args.append((start, j - 1))
            start = j + 1
        j += 1
    if start <= c - 1:
        args.append((start, c - 1))
    return args


def r4_format(text, int_args=(), chars=(), opaque_args=('e',)):
    """format!("..{}..", a, b) with only `{}` holes -> vx_concatN(..); anything else -> vx_opaque_string()."""
    toks = lex(text)
    edits, log = [], []
    for k, t in enumerate(toks):
        if t[0] == 'id' and t[1] == 'format' and k + 2 < len(toks) and is_p(toks[k + 1], '!') \
                and is_p(toks[k + 2], '('):
            c = match_close(toks, k + 2)
            args = split_args(toks, k + 2, c)
            s, e = t[2], toks[c][3]
            rep = None
            if args and args[0][0] == args[0][1] and toks[args[0][0]][0] == 'str':
                parts = _split_format(toks[args[0][0]][1])
                rest = [text[toks[a][2]:toks[b][3]] for a, b in args[1:]]
                if parts is not None and all(p[0] == 'lit' or p[1] == '' for p in parts) \
                        and sum(1 for p in parts if p[0] == 'hole') == len(rest) \
                        and not any(r.strip().lstrip('&') in opaque_args for r in rest):
                    items, ri = [], 0
                    for p in parts:
                        if p[0] == 'lit':
                            items.append('"%s"' % p[1])
                        else:
                            a = rest[ri].strip(); ri += 1
                            if a in chars:
                                items.append('&vx_char_to_string(%s)' % a)
                            elif a in int_args:
                                items.append('&vx_int_to_string(%s as i64)' % a)
                            else:
                                items.append('&' + a if not a.startswith('&') else a)
                    if 1 <= len(items) <= 5:
                        rep = 'vx_concat%d(%s)' % (len(items), ', '.join(items))
            if rep is None:
                rep = 'vx_opaque_string()'
            edits.append((s, e, rep))
            log.append({'rule': 'R4', 'before': text[s:e], 'after': rep})
    # keep only outermost (nested format! inside args of another would overlap)
    edits2, log2 = [], []
    for (ed, lg) in sorted(zip(edits, log), key=lambda x: x[0][0]):
        if edits2 and ed[0] < edits2[-1][1]:
            continue
        edits2.append(ed); log2.append(lg)
    return apply_edits(text, edits2), log2


# ---------------------------------------------------------------- R5: string equality
def r5_streq(text, strvars=(), chars=()):
    toks = lex(text)
    edits, log = [], []
    k = 0
    n = len(toks)
    while k < n - 1:
        t, u = toks[k], toks[k + 1]
        op = None
        if is_p(t, '=') and is_p(u, '=') and t[3] == u[2]:
            prev = toks[k - 1] if k > 0 else None
            if prev is not None and prev[0] == 'p' and prev[1] in '!<>=+-*/|&^%' and prev[3] == t[2]:
                op = None
            elif k + 2 < n and is_p(toks[k + 2], '=') and toks[k + 2][2] == u[3]:
                op = None
            else:
                op = '=='
        elif is_p(t, '!') and is_p(u, '=') and t[3] == u[2]:
            op = '!='
        if op:
            try:
                ls = operand_start(toks, k - 1)
                re_ = operand_end(toks, k + 2)
            except (Unsupported, LexError, IndexError):
                k += 2
                continue
            lhs = text[toks[ls][2]:toks[k - 1][3]]
            rhs = text[toks[k + 2][2]:toks[re_][3]]

            def stringy(x, last_tok):
                xs = x.strip()
                if last_tok[0] == 'str':
                    return True
                if xs.endswith('.to_string()') or xs.endswith('.as_str()'):
                    return True
                base = xs.lstrip('&*')
                return base in strvars

            if stringy(lhs, toks[k - 1]) or stringy(rhs, toks[re_]):
                def ref(x):
                    x = x.strip()
                    return x if x.startswith('&') else '&' + x
                rep = ('' if op == '==' else '!') + 'vx_streq(%s, %s)' % (ref(lhs), ref(rhs))
                s, e = toks[ls][2], toks[re_][3]
                edits.append((s, e, rep))
                log.append({'rule': 'R5', 'before': text[s:e], 'after': rep})
                k = re_ + 1
                continue
        k += 1
    return apply_edits(text, edits), log


# ---------------------------------------------------------------- R2/R12 method shims
def r_method_shims(text, chars=(), clone_shims=None):
    """.to_string(), String::from(lit), .chars().count()/.nth()/.next(), configured clones."""
    clone_shims = clone_shims or {}
    log = []
    changed = True
    guard = 0
    while changed and guard < 200:
        guard += 1
        changed = False
        toks = lex(text)
        n = len(toks)
        for k, t in enumerate(toks):
            # X.chars().count() / .nth(E) / .next()
            if t[0] == 'id' and t[1] == 'chars' and k >= 2 and is_p(toks[k - 1], '.') and k + 5 < n \
                    and is_p(toks[k + 1], '(') and is_p(toks[k + 2], ')') and is_p(toks[k + 3], '.') \
                    and toks[k + 4][1] in ('count', 'nth', 'next') and is_p(toks[k + 5], '('):
                ls = operand_start(toks, k - 2)
                c = match_close(toks, k + 5)
                recv = text[toks[ls][2]:toks[k - 2][3]]
                arg = text[toks[k + 5][3]:toks[c][2]]
                r = recv if recv.startswith('&') else '&' + recv
                if toks[k + 4][1] == 'count':
                    rep = 'vx_chars_count(%s)' % r
                elif toks[k + 4][1] == 'nth':
                    rep = 'vx_chars_nth(%s, %s)' % (r, arg)
                else:
                    rep = 'vx_chars_next(%s)' % r
                s, e = toks[ls][2], toks[c][3]
                log.append({'rule': 'R2', 'before': text[s:e], 'after': rep})
                text = text[:s] + rep + text[e:]
                changed = True
                break
            # X.to_string() / X.to_owned()
            if t[0] == 'id' and t[1] in ('to_string', 'to_owned') and k >= 2 and is_p(toks[k - 1], '.') \
                    and k + 2 < n and is_p(toks[k + 1], '(') and is_p(toks[k + 2], ')'):
                ls = operand_start(toks, k - 2)
                recv = text[toks[ls][2]:toks[k - 2][3]]
                if recv.strip() in chars:
                    rep = 'vx_char_to_string(%s)' % recv.strip()
                elif toks[k - 2][0] == 'str' and ls == k - 2:
                    rep = 'vx_s(%s)' % recv
                else:
                    rep = 'vx_s(%s)' % (recv if recv.startswith('&') else '&' + recv)
                s, e = toks[ls][2], toks[k + 2][3]
                log.append({'rule': 'R12', 'before': text[s:e], 'after': rep})
                text = text[:s] + rep + text[e:]
                changed = True
                break
            # String::from(X)
            if t[0] == 'id' and t[1] == 'String' and k + 4 < n and is_p(toks[k + 1], ':') and is_p(toks[k + 2], ':') \
                    and toks[k + 3][1] == 'from' and is_p(toks[k + 4], '('):
                c = match_close(toks, k + 4)
                arg = text[toks[k + 4][3]:toks[c][2]].strip()
                if arg in chars:
                    rep = 'vx_char_to_string(%s)' % arg
                elif arg.startswith('"'):
                    rep = 'vx_s(%s)' % arg
                else:
                    rep = 'vx_s(%s)' % (arg if arg.startswith('&') else '&' + arg)
                s, e = t[2], toks[c][3]
                log.append({'rule': 'R12', 'before': text[s:e], 'after': rep})
                text = text[:s] + rep + text[e:]
                changed = True
                break
            # X.trim() / X.starts_with(A) / X.ends_with(A) / X.contains(A) on strings (A a char or str literal)
            if t[0] == 'id' and t[1] in ('trim', 'starts_with', 'ends_with', 'contains', 'trim_end', 'trim_start') and k >= 2 and is_p(toks[k - 1], '.') \
                    and k + 1 < n and is_p(toks[k + 1], '('):
                c = match_close(toks, k + 1)
                arg = text[toks[k + 1][3]:toks[c][2]].strip()
                ls = operand_start(toks, k - 2)
                recv = text[toks[ls][2]:toks[k - 2][3]]
                r = recv if recv.startswith('&') else '&' + recv
                rep = None
                if t[1] in ('trim', 'trim_end', 'trim_start') and arg == '':
                    rep = 'vx_%s(%s)' % (t[1], r)
                elif t[1] not in ('trim', 'trim_start') and (arg.startswith("'") or arg in chars):
                    rep = 'vx_%s_char(%s, %s)' % (t[1], r, arg)
                elif t[1] not in ('trim', 'trim_start') and arg.startswith('"'):
                    rep = 'vx_%s_str(%s, %s)' % (t[1], r, arg)
                if rep is not None:
                    s, e = toks[ls][2], toks[c][3]
                    log.append({'rule': 'R12', 'before': text[s:e], 'after': rep})
                    text = text[:s] + rep + text[e:]
                    changed = True
                    break
            # configured clone shims:  X.clone()  where X text is a key
            if t[0] == 'id' and t[1] == 'clone' and k >= 2 and is_p(toks[k - 1], '.') and k + 2 < n \
                    and is_p(toks[k + 1], '(') and is_p(toks[k + 2], ')'):
                ls = operand_start(toks, k - 2)
                recv = text[toks[ls][2]:toks[k - 2][3]].strip()
                if recv in clone_shims:
                    rep = '%s(%s)' % (clone_shims[recv], recv if recv.startswith('&') else '&' + recv)
                    s, e = toks[ls][2], toks[k + 2][3]
                    log.append({'rule': 'R7', 'before': text[s:e], 'after': rep})
                    text = text[:s] + rep + text[e:]
                    changed = True
                    break
    return text, log


# ---------------------------------------------------------------- loops
def find_loops(text):
    """Return loops in order of appearance: dicts(kind, kw_tok, open_tok, close_tok, kw_pos, open_pos, close_pos)."""
    toks = lex(text)
    out = []
    for k, t in enumerate(toks):
        if t[0] == 'id' and t[1] in ('for', 'while', 'loop'):
            # `for` in `impl X for Y` or HRTB `for<'a>` is not a loop
            if t[1] == 'for' and k + 1 < len(toks) and is_p(toks[k + 1], '<'):
                continue
            if k > 0 and is_p(toks[k - 1], '.'):
                continue
            j = k + 1
            ok = False
            while j < len(toks):
                u = toks[j]
                if u[0] == 'p' and u[1] in '([':
                    j = match_close(toks, j) + 1
                    continue
                if is_p(u, '{'):
                    ok = True
                    break
                if is_p(u, ';') or is_p(u, '}'):
                    break
                j += 1
            if not ok:
                continue
            c = match_close(toks, j)
            out.append({'kind': t[1], 'kw_tok': k, 'open_tok': j, 'close_tok': c,
                        'kw_pos': t[2], 'open_pos': toks[j][2], 'close_pos': toks[c][2]})
    return out, toks


def _bind_pat(pat, elem, by_ref=True):
    """Return statements binding pattern `pat` to element expression `elem` (an lvalue path)."""
    pat = pat.strip()
    amp = '&' if by_ref else ''
    if pat.startswith('(') and pat.endswith(')'):
        names = [p.strip() for p in pat[1:-1].split(',')]
        if len(names) == 2 and all(re.match(r'^(mut )?[A-Za-z_][A-Za-z0-9_]*$', x) for x in names):
            return ' '.join('let %s = %s%s.%d;' % (nm, amp, elem, i) for i, nm in enumerate(names))
        raise Unsupported('for-pattern %r' % pat)
    if re.match(r'^(mut )?[A-Za-z_][A-Za-z0-9_]*$', pat):
        return 'let %s = %s%s;' % (pat, amp, elem)
    raise Unsupported('for-pattern %r' % pat)


def r1_for_desugar(text, loop_kinds=None, chars_fn='vx_chars'):
    """Desugar every `for` loop into an index `while` loop (Verus has no `continue` in `for`).
    Loop ordinals (order of appearance of for/while/loop keywords) are preserved.
    Returns (text, log, autos) where autos[ordinal] = dict(invariant=[...], decreases=str)."""
    loop_kinds = loop_kinds or {}
    loops, toks = find_loops(text)
    edits, log, autos = [], [], {}
    for n, lp in enumerate(loops):
        if lp['kind'] != 'for':
            continue
        k, o = lp['kw_tok'], lp['open_tok']
        # find `in` at depth 0
        j = k + 1
        in_tok = None
        while j < o:
            u = toks[j]
            if u[0] == 'p' and u[1] in '([':
                j = match_close(toks, j) + 1
                continue
            if u[0] == 'id' and u[1] == 'in':
                in_tok = j
                break
            j += 1
        if in_tok is None:
            raise Unsupported('for without in')
        pat = text[toks[k + 1][2]:toks[in_tok - 1][3]]
        expr = text[toks[in_tok + 1][2]:toks[o - 1][3]].strip()
        iv, hi = '__i%d' % n, '__hi%d' % n
        kind = loop_kinds.get(n)
        pre = body = None
        auto = {}
        # depth-0 `..` range?
        rng = None
        depth = 0
        for q in range(in_tok + 1, o - 1):
            u = toks[q]
            if u[0] == 'p' and u[1] in '([{':
                depth += 1
            elif u[0] == 'p' and u[1] in ')]}':
                depth -= 1
            elif depth == 0 and is_p(u, '.') and is_p(toks[q + 1], '.') and u[3] == toks[q + 1][2]:
                rng = q
                break
        m_enum_chars = re.match(r'^(.*)\.chars\(\)\.enumerate\(\)$', expr, re.S)
        m_enum = re.match(r'^(.*)\.iter\(\)\.enumerate\(\)$', expr, re.S)
        m_rev = re.match(r'^(.*)\.iter\(\)\.rev\(\)$', expr, re.S)
        m_iter = re.match(r'^(.*)\.iter\(\)$', expr, re.S)
        if rng is not None:
            lo_e = text[toks[in_tok + 1][2]:toks[rng - 1][3]]
            hi_e = text[toks[rng + 2][2]:toks[o - 1][3]]
            lo = '__lo%d' % n
            pre = 'let %s = %s; let %s = %s; let mut %s = %s; ' % (lo, lo_e, hi, hi_e, iv, lo)
            cond = '%s < %s' % (iv, hi)
            body = 'let %s = %s; %s += 1;' % (pat.strip(), iv, iv)
            auto = {'invariant': ['%s <= %s' % (lo, iv), '%s <= %s || %s == %s' % (iv, hi, iv, lo)],
                    'decreases': '%s - %s' % (hi, iv)}
            if re.match(r'^\d+$', lo_e.strip()):
                auto['invariant'].append('%s == %s' % (lo, lo_e.strip()))
        elif m_enum_chars:
            v = '__v%d' % n
            names = [p.strip() for p in pat.strip()[1:-1].split(',')]
            src_e = m_enum_chars.group(1)
            pre = 'let %s: Vec<char> = %s(%s); let mut %s: usize = 0; ' % (v, chars_fn, src_e if src_e.startswith('&') else '&' + src_e, iv)
            cond = '%s < %s.len()' % (iv, v)
            body = 'let %s = %s; let %s = %s[%s]; %s += 1;' % (names[0], iv, names[1], v, iv, iv)
            auto = {'invariant': ['%s <= %s.len()' % (iv, v), '%s@ == %s@' % (v, m_enum_chars.group(1).strip())],
                    'decreases': '%s.len() - %s' % (v, iv)}
        elif re.match(r'^(.*)\.chars\(\)$', expr, re.S):
            src_e = re.match(r'^(.*)\.chars\(\)$', expr, re.S).group(1)
            v = '__v%d' % n
            pre = 'let %s: Vec<char> = %s(%s); let mut %s: usize = 0; ' % (v, chars_fn, src_e if src_e.startswith('&') else '&' + src_e, iv)
            cond = '%s < %s.len()' % (iv, v)
            body = 'let %s = %s[%s]; %s += 1;' % (pat.strip(), v, iv, iv)
            auto = {'invariant': ['%s <= %s.len()' % (iv, v), '%s@ == %s@' % (v, src_e.strip())],
                    'decreases': '%s.len() - %s' % (v, iv)}
        elif m_enum and kind != 'value':
            x = m_enum.group(1)
            names = [p.strip() for p in pat.strip()[1:-1].split(',')]
            pre = 'let mut %s: usize = 0; ' % iv
            cond = '%s < %s.len()' % (iv, x)
            body = 'let %s = %s; %s %s += 1;' % (names[0], iv, _bind_pat(names[1], '%s[%s]' % (x, iv)), iv)
            auto = {'invariant': ['%s <= %s.len()' % (iv, x)], 'decreases': '%s.len() - %s' % (x, iv)}
        elif m_rev:
            x = m_rev.group(1)
            pre = 'let mut %s: usize = %s.len(); ' % (iv, x)
            cond = '%s > 0' % iv
            body = '%s -= 1; %s' % (iv, _bind_pat(pat, '%s[%s]' % (x, iv)))
            auto = {'invariant': ['%s <= %s.len()' % (iv, x)], 'decreases': iv}
        elif kind == 'value':
            v = '__v%d' % n
            pre = 'let %s = %s; let mut %s: usize = 0; ' % (v, expr, iv)
            cond = '%s < %s.len()' % (iv, v)
            cl = loop_kinds.get((n, 'clone'), '{}.clone()')
            body = 'let %s = %s; %s += 1;' % (pat.strip(), cl.format('%s[%s]' % (v, iv)), iv)
            auto = {'invariant': ['%s <= %s.len()' % (iv, v)], 'decreases': '%s.len() - %s' % (v, iv)}
        else:
            x = m_iter.group(1) if m_iter else expr
            x = x.lstrip('&').strip()
            if not re.match(r'^[A-Za-z_][A-Za-z0-9_\.]*$', x):
                raise Unsupported('for over %r needs loop_kinds' % expr)
            pre = 'let mut %s: usize = 0; ' % iv
            cond = '%s < %s.len()' % (iv, x)
            body = '%s %s += 1;' % (_bind_pat(pat, '%s[%s]' % (x, iv)), iv)
            auto = {'invariant': ['%s <= %s.len()' % (iv, x)], 'decreases': '%s.len() - %s' % (x, iv)}
        hs, he = lp['kw_pos'], lp['open_pos']
        new_header = pre + 'while ' + cond + ' '
        edits.append((hs, he, new_header))
        edits.append((lp['open_pos'] + 1, lp['open_pos'] + 1, ' ' + body))
        log.append({'rule': 'R1', 'before': text[hs:he + 1], 'after': new_header + '{ ' + body})
        autos[n] = auto
    return apply_edits(text, edits), log, autos
