"""Witness search and replay against the REAL code (the cicada binary built from the working tree).
Never decides anything: it only attaches a concrete failing input to a failed obligation."""
import hashlib
import json
import os
import shutil
import subprocess
import sys
import tempfile

ROOT = os.path.dirname(os.path.dirname(os.path.abspath(__file__)))
REPO = os.environ.get('VX_REPO', '/repo')
WORK = os.path.join(ROOT, '.work')
_TAG = hashlib.sha1(REPO.encode()).hexdigest()[:6]
TARGET = os.path.join(WORK, 'target-' + _TAG) if REPO != '/repo' else os.path.join(WORK, 'target')
_built = {}


def build_binary():
    """build the real binary from the current working tree (hooks on). Returns path or None."""
    if 'bin' in _built:
        return _built['bin']
    env = dict(os.environ, CARGO_TARGET_DIR=TARGET, CARGO_NET_OFFLINE='true',
               RUSTFLAGS=(os.environ.get('RUSTFLAGS', '') + ' --cfg cicada_verif').strip())
    p = subprocess.run(['cargo', 'build', '--offline', '--bin', 'cicada'], cwd=REPO, env=env,
                       capture_output=True, text=True)
    path = os.path.join(TARGET, 'debug', 'cicada')
    _built['bin'] = path if p.returncode == 0 and os.path.exists(path) else None
    _built['log'] = p.stderr[-2000:]
    return _built['bin']


def setup():
    os.makedirs(WORK, exist_ok=True)
    b = build_binary()
    if not b:
        print('setup: cargo build failed:\n' + _built.get('log', ''))
        return 1
    print('setup: built', b)
    # warm the verus cache (first run is slower)
    t = os.path.join(WORK, 'warm.rs')
    open(t, 'w').write('use vstd::prelude::*;\nverus!{ fn f(x: u8) -> (r: u8) ensures r == x { x } }\nfn main(){}\n')
    subprocess.run(['verus', t], capture_output=True, cwd=WORK)
    try:
        from vx import kani_engine
    except ImportError:
        return 0
    return kani_engine.setup()


def run_cicada(line=None, script=None, timeout=6, files=None, args=(), stdin=None):
    """run `cicada -c line` (or a script file) in a fresh temp dir; returns dict."""
    b = build_binary()
    if not b:
        return {'error': 'binary not built: ' + _built.get('log', '')}
    d = tempfile.mkdtemp(prefix='w', dir=WORK)
    try:
        for name, content in (files or {}).items():
            fp = os.path.join(d, name)
            open(fp, 'w').write(content)
            os.chmod(fp, 0o755)
        env = {'HOME': d, 'PATH': d + ':/usr/local/bin:/usr/bin:/bin', 'LANG': 'C.UTF-8', 'TERM': 'dumb'}
        if script is not None:
            sp = os.path.join(d, 'w.sh')
            open(sp, 'w').write(script)
            cmd = [b, sp] + list(args)
        elif line is None and stdin is not None:
            cmd = [b]       # the text arrives on standard input of a shell without a terminal
        else:
            # {CICADA}: the binary under test itself (for lines that run a second shell with its own descriptors)
            cmd = [b, '-c', line.replace('{CICADA}', b)]
        try:
            p = subprocess.run(cmd, cwd=d, env=env, capture_output=True, timeout=timeout, **({'input': stdin.encode('utf-8')} if stdin is not None else {'stdin': subprocess.DEVNULL}))
            return {'rc': p.returncode, 'stdout': p.stdout.decode('utf-8', 'replace'),
                    'stderr': p.stderr.decode('utf-8', 'replace'), 'timeout': False,
                    'listing': sorted(os.listdir(d))}
        except subprocess.TimeoutExpired as e:
            return {'rc': None, 'stdout': (e.stdout or b'').decode('utf-8', 'replace'), 'stderr': '', 'timeout': True,
                    'listing': sorted(os.listdir(d))}
    finally:
        shutil.rmtree(d, ignore_errors=True)


def match_obligation(k, o):
    if k.get('bounded_area'):
        # a finding of the bounded engine: identified by the part of the code the failing input exercises (and the input class)
        return o['name'].startswith('BOUNDED:') and (o.get('fn') or '').startswith(k['bounded_area'])
    pat = k.get('obligation', '')
    if pat.endswith('*'):
        return o['name'].startswith(pat[:-1])
    return o['name'] == pat


def observe(w):
    r = run_cicada(line=w.get('line'), script=w.get('script'), files=w.get('files'), timeout=w.get('timeout', 6),
                   args=w.get('args', ()), stdin=w.get('stdin'))
    return r


def violates(w, r):
    """does observation r contradict the expectation recorded in witness w?"""
    if 'error' in r:
        return False, 'cannot run: ' + r['error'][:200]
    if r['timeout']:
        return True, 'hang (no exit within %ss)' % w.get('timeout', 6)
    if r['rc'] is not None and (r['rc'] == 101 or r['rc'] < 0 or 'panicked at' in r['stderr']):
        if not w.get('allow_panic'):
            return True, 'panic/abort rc=%s %s' % (r['rc'], r['stderr'].strip().split('\n')[0][:160])
    if 'expect_stdout' in w and r['stdout'] != w['expect_stdout']:
        return True, 'stdout %r != expected %r' % (r['stdout'][:200], w['expect_stdout'][:200])
    if 'expect_fdset' in w:
        got = [x for x in (r['stderr'] if w.get('fd_where') == 'stderr' else r['stdout']).split() if x.isdigit()]
        if got != w['expect_fdset']:
            return True, 'program saw descriptors %s, expected %s' % (got, w['expect_fdset'])
    if 'expect_stdout_any' in w and r['stdout'] not in w['expect_stdout_any']:
        return True, 'stdout %r is none of the expected %r' % (r['stdout'][:200], w['expect_stdout_any'])
    if 'expect_stdout_prefix' in w and not r['stdout'].startswith(w['expect_stdout_prefix']):
        return True, 'stdout %r does not start with %r' % (r['stdout'][:200], w['expect_stdout_prefix'])
    if 'expect_stdout_not_contains' in w and w['expect_stdout_not_contains'] in r['stdout']:
        return True, 'stdout %r contains %r' % (r['stdout'][:200], w['expect_stdout_not_contains'])
    if 'expect_stdout_contains' in w and w['expect_stdout_contains'] not in r['stdout']:
        return True, 'stdout %r does not contain %r' % (r['stdout'][:200], w['expect_stdout_contains'])
    if 'expect_stdout_last_line_not' in w:
        last = (r['stdout'].strip().split('\n') or [''])[-1]
        if last == w['expect_stdout_last_line_not']:
            return True, 'last stdout line is %r' % last
    if 'expect_no_stdout_line' in w and w['expect_no_stdout_line'] in r['stdout'].split('\n'):
        return True, 'stdout has the line %r (the command ran)' % w['expect_no_stdout_line']
    if w.get('expect_home_tilde'):
        ls = r['stdout'].split('\n')
        h = ls[-2] if len(ls) >= 2 else ''
        want = ['[%s]' % h, '[%s/x]' % h, '[a~]', '[~]', '[~]', h, '']
        if ls != want:
            return True, 'stdout %r != expected %r' % (ls, want)
    if w.get('expect_home_tilde2'):
        ls = r['stdout'].split('\n')
        h = ls[-2] if len(ls) >= 2 else ''
        want = ['[%s/n~]' % h, '[%s/d/~x]' % h, h, '']
        if ls != want:
            return True, 'stdout %r != expected %r' % (ls, want)
    if 'expect_only_files' in w:
        extra = [f for f in r.get('listing', []) if f not in w['expect_only_files'] and f != 'w.sh']
        if extra:
            return True, 'files %r were created' % extra
    if 'expect_stdout_last_line' in w:
        last = (r['stdout'].strip().split('\n') or [''])[-1]
        if last != w['expect_stdout_last_line']:
            return True, 'last stdout line %r != expected %r' % (last, w['expect_stdout_last_line'])
    if 'expect_rc' in w and r['rc'] != w['expect_rc']:
        return True, 'exit status %r != expected %r' % (r['rc'], w['expect_rc'])
    if 'expect_no_file' in w and w['expect_no_file'] in r.get('listing', []):
        return True, 'file %r was created' % w['expect_no_file']
    if 'expect_stderr_contains' in w and w['expect_stderr_contains'] not in r['stderr']:
        return True, 'stderr %r does not contain %r' % (r['stderr'][:200], w['expect_stderr_contains'])
    if 'expect_stderr_not' in w and w['expect_stderr_not'] in r['stderr']:
        return True, 'stderr contains %r' % w['expect_stderr_not']
    return False, 'behaves as expected'


def run_witness(w, tier='quick'):
    """(still_fails, detail) for a witness recorded in known_findings.jsonl"""
    if not w:
        return False, 'no witness recorded'
    if w.get('via') == 'hook':
        from vx import hookreplay
        return hookreplay.run(w)
    if w.get('via') == 'kani':
        from vx import kani_engine
        return kani_engine.replay_witness(w)
    r = observe(w)
    bad, detail = violates(w, r)
    return bad, ('%s -> %s' % (w.get('line') or 'script', detail))


def search(pid, oblig, tier, seed):
    """look for a concrete failing input for a failed obligation. Returns a dict or None."""
    if os.environ.get('VX_NO_WITNESS') == '1':
        return {'found': False, 'reason': 'witness search disabled (VX_NO_WITNESS)'}
    try:
        from vx import probes
        fn = probes.PROBES.get(pid)
        if oblig.get('witness'):
            return oblig['witness']
        if not fn:
            return {'found': False, 'reason': 'no probe for this property'}
        return fn(oblig, tier, seed)
    except Exception as e:  # noqa
        return {'found': False, 'reason': 'probe error: %r' % (e,)}


def replay_file(pid, path):
    d = json.load(open(path))
    w = d.get('witness')
    print('replaying obligation %s' % d.get('obligation'))
    if not w or not w.get('found'):
        print('no concrete input recorded for this obligation (verifier output only):')
        print(d.get('verus_output', '')[:2000])
        return 0
    bad, detail = run_witness(w)
    print(detail)
    if bad:
        print('VIOLATION property=%s replay=%s' % (pid, path))
        return 1
    print('witness no longer fails')
    return 0
