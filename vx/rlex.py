"""Small Rust-aware lexer and item locator (stdlib only).

Tokens: (kind, text, start, end) with kind in
  id   identifier / keyword
  lt   lifetime ('a)
  str  string / raw string / byte string literal
  chr  char / byte literal
  num  number literal
  p    single punctuation character
Comments and whitespace are skipped (not tokens).
"""
import re

ID_START = re.compile(r'[A-Za-z_]')
ID_CONT = re.compile(r'[A-Za-z0-9_]')


class LexError(Exception):
    pass


def lex(src):
    toks = []
    i, n = 0, len(src)
    while i < n:
        c = src[i]
        if c in ' \t\r\n':
            i += 1
            continue
        if src.startswith('//', i):
            j = src.find('\n', i)
            i = n if j < 0 else j
            continue
        if src.startswith('/*', i):
            depth, j = 1, i + 2
            while j < n and depth:
                if src.startswith('/*', j):
                    depth += 1; j += 2
                elif src.startswith('*/', j):
                    depth -= 1; j += 2
                else:
                    j += 1
            i = j
            continue
        # raw strings r"..", r#".."#, br#".."#
        m = re.match(r'b?r(#*)"', src[i:i + 40])
        if m:
            hashes = m.group(1)
            close = '"' + hashes
            j = src.find(close, i + len(m.group(0)))
            if j < 0:
                raise LexError('unterminated raw string at %d' % i)
            j += len(close)
            toks.append(('str', src[i:j], i, j)); i = j
            continue
        if c == '"' or (c == 'b' and i + 1 < n and src[i + 1] == '"'):
            j = i + (2 if c == 'b' else 1)
            while j < n and src[j] != '"':
                j += 2 if src[j] == '\\' else 1
            j += 1
            toks.append(('str', src[i:j], i, j)); i = j
            continue
        if c == "'" or (c == 'b' and i + 1 < n and src[i + 1] == "'"):
            k = i + (1 if c == 'b' else 0)
            # char literal or lifetime?
            if k + 1 < n and src[k + 1] == '\\':
                # escaped char: the char after the backslash is consumed, then
                # scan to the closing quote (covers '\'' , '\n', '\u{..}')
                j = k + 3
                while j < n and src[j] != "'":
                    j += 1
                j += 1
                toks.append(('chr', src[i:j], i, j)); i = j
                continue
            if k + 2 < n and src[k + 2] == "'":
                j = k + 3
                toks.append(('chr', src[i:j], i, j)); i = j
                continue
            # multi-byte char literal, e.g. 'é' is still one python char; handled above.
            # lifetime
            j = k + 1
            while j < n and ID_CONT.match(src[j]):
                j += 1
            toks.append(('lt', src[i:j], i, j)); i = j
            continue
        if ID_START.match(c):
            j = i + 1
            while j < n and ID_CONT.match(src[j]):
                j += 1
            toks.append(('id', src[i:j], i, j)); i = j
            continue
        if c.isdigit():
            j = i + 1
            while j < n and (ID_CONT.match(src[j]) or (src[j] == '.' and j + 1 < n and src[j + 1].isdigit())):
                j += 1
            toks.append(('num', src[i:j], i, j)); i = j
            continue
        toks.append(('p', c, i, i + 1)); i += 1
    return toks


OPEN = {'(': ')', '[': ']', '{': '}'}
CLOSE = {')': '(', ']': '[', '}': '{'}


def match_close(toks, k):
    """toks[k] is an opening bracket; return index of its matching close."""
    depth = 0
    for j in range(k, len(toks)):
        t = toks[j]
        if t[0] == 'p':
            if t[1] in OPEN:
                depth += 1
            elif t[1] in CLOSE:
                depth -= 1
                if depth == 0:
                    return j
    raise LexError('unbalanced bracket at token %d' % k)


def match_open(toks, k):
    """toks[k] is a closing bracket; return index of its matching open."""
    depth = 0
    for j in range(k, -1, -1):
        t = toks[j]
        if t[0] == 'p':
            if t[1] in CLOSE:
                depth += 1
            elif t[1] in OPEN:
                depth -= 1
                if depth == 0:
                    return j
    raise LexError('unbalanced bracket at token %d' % k)


def line_of(src, pos):
    return src.count('\n', 0, pos) + 1


class LostAnchor(Exception):
    pass


def _item_start(src, toks, k):
    """Walk back from token k (`fn`/`struct`/`type`/...) over visibility, qualifiers
    and attributes; return byte offset where the item starts (line start of first attr)."""
    j = k
    while j > 0:
        p = toks[j - 1]
        if p[0] == 'id' and p[1] in ('pub', 'unsafe', 'const', 'async', 'extern', 'crate'):
            j -= 1
            continue
        if p[0] == 'str' and j >= 2 and toks[j - 2][1] == 'extern':
            j -= 1
            continue
        if p[0] == 'p' and p[1] == ')':
            o = match_open(toks, j - 1)
            if o > 0 and toks[o - 1][1] == 'pub':
                j = o - 1
                continue
        if p[0] == 'p' and p[1] == ']':
            o = match_open(toks, j - 1)
            if o > 0 and toks[o - 1][1] == '#':
                j = o - 1
                continue
        break
    return toks[j][2]


def find_block_scopes(toks):
    """Yield (kind, name, open_idx, close_idx) for `impl X {`, `mod x {`, at any depth."""
    out = []
    for k, t in enumerate(toks):
        if t[0] == 'id' and t[1] in ('impl', 'mod', 'trait'):
            # find the `{` at bracket depth 0 before any `;`
            j = k + 1
            depth = 0
            name_parts = []
            while j < len(toks):
                u = toks[j]
                if u[0] == 'p' and u[1] in '([':
                    j = match_close(toks, j) + 1
                    continue
                if u[0] == 'p' and u[1] == '<':
                    depth += 1
                elif u[0] == 'p' and u[1] == '>':
                    depth -= 1
                elif u[0] == 'p' and u[1] == ';':
                    break
                elif u[0] == 'p' and u[1] == '{':
                    out.append((t[1], ' '.join(name_parts), j, match_close(toks, j)))
                    break
                elif depth == 0 and u[0] == 'id':
                    name_parts.append(u[1])
                j += 1
    return out


def find_fn(src, name, impl=None, toks=None):
    """Locate `fn name` (free fn when impl is None, else inside `impl <impl>`),
    never inside `mod tests`. Returns (start, end) byte offsets of the whole item."""
    toks = toks or lex(src)
    scopes = find_block_scopes(toks)
    test_spans = [(o, c) for kind, nm, o, c in scopes if kind == 'mod' and nm in ('tests', 'test')]
    impl_spans = [(o, c) for kind, nm, o, c in scopes if kind == 'impl' and impl is not None
                  and nm.split(' ')[-1] == impl]  # `impl X` or `impl T for X`
    all_impl = [(o, c) for kind, nm, o, c in scopes if kind in ('impl', 'trait')]
    hits = []
    for k, t in enumerate(toks):
        if t[0] == 'id' and t[1] == 'fn' and k + 1 < len(toks) and toks[k + 1][1] == name:
            if any(o < k < c for o, c in test_spans):
                continue
            if impl is None:
                if any(o < k < c for o, c in all_impl):
                    continue
            else:
                if not any(o < k < c for o, c in impl_spans):
                    continue
            # body
            j = k + 2
            while j < len(toks):
                u = toks[j]
                if u[0] == 'p' and u[1] in '([':
                    j = match_close(toks, j) + 1
                    continue
                if u[0] == 'p' and u[1] == '{':
                    e = match_close(toks, j)
                    hits.append((_item_start(src, toks, k), toks[e][3]))
                    break
                if u[0] == 'p' and u[1] == ';':
                    break
                j += 1
    if len(hits) != 1:
        raise LostAnchor('fn %s%s: %d definitions found' % ((impl + '::') if impl else '', name, len(hits)))
    return hits[0]


def find_type_item(src, kw, name, toks=None):
    """Locate `struct Name {...}` / `struct Name(..);` / `type Name = ...;` / `enum`."""
    toks = toks or lex(src)
    hits = []
    for k, t in enumerate(toks):
        if t[0] == 'id' and t[1] == kw and k + 1 < len(toks) and toks[k + 1][1] == name:
            j = k + 2
            while j < len(toks):
                u = toks[j]
                if u[0] == 'p' and u[1] == '(':
                    j = match_close(toks, j) + 1
                    continue
                if u[0] == 'p' and u[1] == '{':
                    e = match_close(toks, j)
                    hits.append((_item_start(src, toks, k), toks[e][3]))
                    break
                if u[0] == 'p' and u[1] == ';':
                    hits.append((_item_start(src, toks, k), u[3]))
                    break
                j += 1
    if len(hits) != 1:
        raise LostAnchor('%s %s: %d definitions found' % (kw, name, len(hits)))
    return hits[0]
