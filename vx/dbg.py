"""dev aid: python3 vx/dbg.py <unit> <fnname>  -> /tmp/vx/dbg_<fn>.rs with only that fn body verified (others external_body-free: uses --verify-function)"""
import sys, importlib, os, subprocess
sys.path.insert(0, '/verif')
from vx import gen
mod = importlib.import_module('contracts.' + sys.argv[1])
g = gen.generate(mod.UNIT)
os.makedirs('/tmp/vx', exist_ok=True)
out = '/tmp/vx/dbg_%s.rs' % sys.argv[1]
open(out, 'w').write(g.text())
p = subprocess.run(['verus', out, '--verify-root', '--verify-function', sys.argv[2], '--multiple-errors', '20'] + sys.argv[3:], capture_output=True, text=True)
import re
txt = p.stderr
# drop trigger notes
blocks = re.split(r'\n(?=error|note|warning)', txt)
for b in blocks:
    if b.startswith('error'):
        print(b[:1500]); print()
print(p.stdout[-300:])
