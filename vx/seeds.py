#!/usr/bin/env python3
"""Seeded property-breaking changes kept under /verif/seeded/<ID>-<k>/.

  seeds.py import <dir> <confirm.log>   one-time: copy confirmed changes (patch.diff, demo, notes) and write meta.json
  seeds.py run [ID ...]                 apply each patch to a scratch copy of /repo's HEAD (never /repo itself), run the
                                        property's check against it (VX_REPO), write seeded/RESULTS.md
Nothing here is registered in MANIFEST.json; it is how the checks were tested against realistic breakage."""
import glob
import json
import os
import re
import shutil
import subprocess
import sys

ROOT = os.path.dirname(os.path.dirname(os.path.abspath(__file__)))
SEEDED = os.path.join(ROOT, 'seeded')
BASE_COMMIT = '32052dc'


def section(notes, pat):
    m = re.search(r'^#+\s*[^\n]*(' + pat + r')[^\n]*\n(.*?)(?=^#+\s|\Z)', notes, re.S | re.M | re.I)
    return ' '.join(m.group(2).split())[:900] if m else ''


def do_import(src, log, tag='', base=BASE_COMMIT):
    conf = {}
    for ln in open(log):
        p = ln.split()
        if len(p) > 4 and p[2].startswith('clean_demo'):
            conf[(p[0], p[1])] = ln.strip()
    for d in sorted(glob.glob(os.path.join(src, 'C*', '*'))):
        if not os.path.isfile(os.path.join(d, 'patch.diff')):
            continue
        pid, k = os.path.basename(os.path.dirname(d)), os.path.basename(d)
        out = os.path.join(SEEDED, '%s-%s%s' % (pid, tag, k))
        shutil.rmtree(out, ignore_errors=True)
        os.makedirs(out)
        for f in os.listdir(d):
            fp = os.path.join(d, f)
            if os.path.isfile(fp) and os.path.getsize(fp) < 200000 and not f.startswith('tests_'):
                shutil.copy(fp, out)
        notes = open(os.path.join(d, 'notes.md')).read() if os.path.exists(os.path.join(d, 'notes.md')) else ''
        title = notes.strip().split('\n')[0].lstrip('# ').strip() if notes else ''
        files = sorted(set(re.findall(r'^\+\+\+ b/(\S+)', open(os.path.join(d, 'patch.diff')).read(), re.M)))
        c = conf.get((pid, k), '')
        meta = {
            'property': pid,
            'seed': '%s-%s%s' % (pid, tag, k),
            'title': title,
            'files_changed': files,
            'written_by': 'a fresh sub-agent given only the property text and a scratch git worktree of /repo (nothing from /verif)',
            'what_it_needs_to_manifest': section(notes, r'need|manifest|trigger') or 'see notes.md',
            'base_commit': base,
            'confirmed_by_me': {
                'where': 'scratch worktree of /repo at %s (removed afterwards)' % base,
                'commands': ['bash demo.sh <worktree>   (unmodified tree: must exit 0)', 'git apply patch.diff', 'cargo build --offline',
                             'cargo test --workspace --no-fail-fast --offline   (the 55 baseline tests)', 'bash demo.sh <worktree>   (patched tree: must exit 1)'],
                'result': c,
            },
        }
        if (pid, k) == ('C07', '1'):
            meta['confirmed_by_me']['note'] = ('the batch run reported clean_demo=1 (pty demo disturbed while another build was running); '
                                               're-run alone in /tmp/wt/c07: clean=0 twice, patched=1')
        json.dump(meta, open(os.path.join(out, 'meta.json'), 'w'), indent=1)
        print('imported', out)


def do_run(ids):
    rows = []
    shard = os.environ.get('SEED_SHARD')      # "i/n": this process takes every n-th change, starting with the i-th, and writes /tmp/seedres/<i>.json (merged by `seeds.py merge`)
    si, sn = (int(x) for x in shard.split('/')) if shard else (0, 1)
    for di, d in enumerate(sorted(glob.glob(os.path.join(SEEDED, 'C*-*')))):
        if di % sn != si:
            continue
        meta = json.load(open(os.path.join(d, 'meta.json')))
        pid = meta['property']
        if ids and pid not in ids and meta['seed'] not in ids:
            continue
        if meta.get('no_longer_violates'):
            rows.append((meta['seed'], pid, 'n/a', 'the change no longer breaks the property on the current code: ' + meta.get('superseded', ''), meta['title']))
            print(rows[-1]); continue
        scr = '/tmp/seedscr' + (str(si) if shard else '')
        shutil.rmtree(scr, ignore_errors=True)
        os.makedirs(scr)
        subprocess.run('git -C /repo archive HEAD | tar -x -C %s' % scr, shell=True, check=True)
        # a change that was redone on the current code (after a repair rewrote the lines it edits) is tried first
        for pd in (os.path.join(d, 'patch.rebased.diff'), os.path.join(d, 'patch.diff')):
            if not os.path.exists(pd):
                continue
            a = subprocess.run(['git', 'apply', '--directory', scr, '--unsafe-paths', pd], capture_output=True, text=True, cwd='/')
            if a.returncode != 0:
                a = subprocess.run(['patch', '-p1', '--fuzz=3', '-d', scr, '-i', pd], capture_output=True, text=True)
            if a.returncode == 0:
                break
            subprocess.run('rm -rf %s && mkdir %s && git -C /repo archive HEAD | tar -x -C %s' % (scr, scr, scr), shell=True, check=True)
        if a.returncode != 0:
            rows.append((meta['seed'], pid, 'n/a', 'patch no longer applies to HEAD: ' + meta.get('superseded', 'the code it changed was since repaired'), meta['title']))
            print(rows[-1]); continue
        env = dict(os.environ, VX_REPO=scr, VX_NO_WITNESS=os.environ.get('VX_NO_WITNESS', '1'))
        p = subprocess.run([os.path.join(ROOT, 'check'), pid], capture_output=True, text=True, env=env)
        lines = [l for l in p.stdout.split('\n') if l.startswith(('VIOLATION', 'UNDECIDED'))]
        if p.returncode == 1:
            obl = re.findall(r'obligation=(\S+)', ' '.join(lines))
            rows.append((meta['seed'], pid, 'caught', 'VIOLATION ' + ', '.join(obl), meta['title']))
        elif p.returncode == 2:
            rs = re.findall(r'reason=(\S+)', ' '.join(lines))
            rows.append((meta['seed'], pid, 'undecided', 'UNDECIDED ' + ', '.join(rs) + ' (exit 2: no verdict, no alarm)', meta['title']))
        else:
            rows.append((meta['seed'], pid, 'missed', 'OK (the changed code is outside the functions under contract, or the contract is too weak)', meta['title']))
        print(rows[-1])
        shutil.rmtree(scr, ignore_errors=True)
    if shard:
        os.makedirs('/tmp/seedres', exist_ok=True)
        json.dump(rows, open('/tmp/seedres/%d.json' % si, 'w'))
        return
    write_results(rows, ids)


def write_results(rows, ids):
    if not ids:
        head = subprocess.run(['git', '-C', '/repo', 'rev-parse', '--short', 'HEAD'], capture_output=True, text=True).stdout.strip()
        with open(os.path.join(SEEDED, 'RESULTS.md'), 'w') as f:
            f.write('# Seeded changes against the checks\n\nEach patch applied to a scratch copy of /repo at %s; `./check <ID>` run with VX_REPO pointing at it.\n\n' % head)
            f.write('| seed | property | verdict | check output | change |\n|---|---|---|---|---|\n')
            for r in rows:
                f.write('| %s | %s | %s | %s | %s |\n' % (r[0], r[1], r[2], r[3].replace('|', '/'), r[4].replace('|', '/')[:160]))
            n = len(rows); c = sum(1 for r in rows if r[2] == 'caught')
            f.write('\ncaught %d of %d (undecided %d, missed %d, no longer applicable %d)\n' % (
                c, n, sum(1 for r in rows if r[2] == 'undecided'), sum(1 for r in rows if r[2] == 'missed'), sum(1 for r in rows if r[2] == 'n/a')))


if __name__ == '__main__':
    if sys.argv[1] == 'import':
        do_import(sys.argv[2], sys.argv[3], *(sys.argv[4:6]))
    elif sys.argv[1] == 'merge':
        rows = []
        for f in sorted(glob.glob('/tmp/seedres/*.json')):
            rows += [tuple(r) for r in json.load(open(f))]
        write_results(sorted(rows), [])
    else:
        do_run(sys.argv[2:])
