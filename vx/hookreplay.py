"""Drive the real library through the hook module (replay harness crate in /verif/replay)."""
import os
import shutil
import subprocess
from . import witness as W

_built = {}


def build():
    if 'bin' in _built:
        return _built['bin']
    d = os.path.join(W.WORK, 'replay-' + W._TAG)
    os.makedirs(os.path.join(d, 'src'), exist_ok=True)
    src = os.path.join(W.ROOT, 'replay')
    open(os.path.join(d, 'Cargo.toml'), 'w').write(open(os.path.join(src, 'Cargo.toml.in')).read().replace('@REPO@', W.REPO))
    shutil.copy(os.path.join(src, 'src', 'main.rs'), os.path.join(d, 'src', 'main.rs'))
    from . import hlgen
    _built['hl'] = hlgen.generate(W.REPO, os.path.join(d, 'src'))
    if os.path.exists(os.path.join(W.REPO, 'Cargo.lock')) and not os.path.exists(os.path.join(d, 'Cargo.lock')):
        # start from the repository's lock file so that offline resolution picks the cached versions
        shutil.copy(os.path.join(W.REPO, 'Cargo.lock'), os.path.join(d, 'Cargo.lock'))
    env = dict(os.environ, CARGO_TARGET_DIR=W.TARGET, CARGO_NET_OFFLINE='true',
               RUSTFLAGS=(os.environ.get('RUSTFLAGS', '') + ' --cfg cicada_verif').strip())
    p = subprocess.run(['cargo', 'build', '--offline'], cwd=d, env=env, capture_output=True, text=True)
    path = os.path.join(W.TARGET, 'debug', 'vxreplay')
    _built['bin'] = path if p.returncode == 0 and os.path.exists(path) else None
    _built['log'] = p.stderr[-3000:]
    return _built['bin']


def drive(lines, timeout=20):
    b = build()
    if not b:
        return None, 'replay harness not built: ' + _built.get('log', '')
    try:
        p = subprocess.run([b], input='\n'.join(lines) + '\n', capture_output=True, text=True, timeout=timeout,
                           env={'HOME': W.WORK, 'PATH': '/usr/bin:/bin'}, cwd=W.WORK)
    except subprocess.TimeoutExpired:
        return None, 'timeout'
    return p.stdout.split('\n'), p.stderr[-500:] + (' rc=%d' % p.returncode if p.returncode else '')


def run(w):
    """witness {'via':'hook','script':[lines],'expect':[lines that must appear in order]}"""
    out, err = drive(w['script'], w.get('timeout', 20))
    if out is None:
        if err == 'timeout':
            return True, 'hang in the real library'
        return False, err
    if 'panicked' in err:
        return True, 'panic: ' + err[:200]
    got = [l for l in out if l.strip()]
    exp = w.get('expect', [])
    bad = [(e, g) for e, g in zip(exp, got) if e != g]
    if len(got) < len(exp):
        return True, 'output ended early: %r' % got
    if bad:
        return True, 'real library printed %r, expected %r' % (bad[0][1], bad[0][0])
    return False, 'behaves as expected'
