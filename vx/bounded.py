"""Bounded stand-in engine: a fixed, enumerated set of concrete inputs per property, run through the REAL binary built
from the working tree and compared with the result the property statement prescribes.

This is NOT proof and is never counted as proof: it is the bounded check the brief allows for the parts of a property whose
code is outside the verifier's reach (pest grammar, builtins that are mostly I/O, kernel behaviour).  Every case is reported
in the evidence under `bounded` with its bound (number of cases); a failing case is reported as obligation
`BOUNDED:<property>:<input>` with the input as replayable witness (confirmed three times, serially, before it is reported).
"""
import concurrent.futures as cf
import os
import re
from . import witness as W
from . import cases as C


def _run(w):
    try:
        if w.get('via') == 'hook':
            from . import hookreplay
            return hookreplay.run(w)
        return W.violates(w, W.observe(w))
    except Exception as e:  # noqa
        return False, 'cannot run: %r' % (e,)


def _name(pid, w):
    txt = w.get('line') or w.get('script') or ' '.join(w.get('script_lines', [])) or (('STDIN ' + w['stdin']) if w.get('stdin') and not w.get('line') else '') or repr(w.get('id', ''))
    if isinstance(txt, list):
        txt = ' '.join(txt)
    txt = txt.replace('\n', '\\n')
    if w.get('args'):
        txt += ' ARGS ' + ' '.join(w['args'])
    return 'BOUNDED:%s:%s' % (pid, txt[:160])


def engine(pid):
    def run(tier, seed):
        gen = C.CASES.get(pid)
        out = {'engine': 'bounded:' + pid, 'backend': 'real cicada binary (cargo build of the working tree, --cfg cicada_verif), enumerated inputs',
               'obligs': [], 'undecided': [], 'obligations': 0, 'discharged': 0, 'bounded': [], 'samples': [], 'checker_cmds': [], 'trusted': []}
        if not gen or os.environ.get('VX_NO_BOUNDED') == '1':
            return out
        if not W.build_binary():
            out['undecided'].append(('tool', 'bounded engine: binary not built: ' + W._built.get('log', '')[-300:]))
            return out
        cases = gen(tier, seed)
        bad = []
        with cf.ThreadPoolExecutor(max_workers=int(os.environ.get('VX_BOUNDED_JOBS', '8'))) as ex:
            for w, (b, d) in zip(cases, ex.map(_run, cases)):
                if b:
                    bad.append(w)
        confirmed = []
        for w in bad:
            w2 = dict(w, timeout=2 * w.get('timeout', 6))
            res = [_run(w2) for _ in range(2)]
            if all(b for b, _ in res):
                confirmed.append((w, res[-1][1]))
        for w, detail in confirmed[:12]:
            ww = dict(w, found=True, via=w.get('via', 'binary'), observed=detail)
            out['obligs'].append({'name': _name(pid, w), 'props': [pid], 'message': 'bounded case fails on the real binary: ' + detail,
                                  'kind': 'bounded', 'repo_sites': [], 'rendered': detail, 'fn': w.get('area'), 'unit': 'bounded:' + pid,
                                  'witness': ww})
        out['bounded'].append({'what': 'enumerated inputs through the real binary against the result the property statement prescribes (stand-in, not proof)',
                               'property': pid, 'cases': len(cases), 'failing': len(confirmed), 'tier': tier,
                               'areas': sorted(set(w.get('area', '') for w in cases))})
        out['samples'].append({'obligation': 'BOUNDED:%s (%d enumerated inputs, labelled bounded, not counted as proved)' % (pid, len(cases)),
                               'result': 'all as prescribed' if not confirmed else '%d failing' % len(confirmed)})
        return out
    return run
