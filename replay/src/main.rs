//! Replay harness: drives the REAL cicada library (built with --cfg cicada_verif) through its hook module.
//! Line protocol on stdin, one command per line; results on stdout.
use cicada::verif_hooks as h;
use std::io::{self, BufRead};
mod hl;

fn dump(sh: &h::Shell) {
    let mut ids: Vec<&i32> = sh.jobs.keys().collect();
    ids.sort();
    let mut out = String::from("table");
    for id in ids {
        let j = &sh.jobs[id];
        let mut st: Vec<i32> = j.pids_stopped.iter().cloned().collect();
        st.sort();
        out.push_str(&format!(" [id={} jid={} gid={} status={} bg={} pids={:?} stopped={:?}]",
                              id, j.id, j.gid, j.status, j.is_bg as i32, j.pids, st));
    }
    println!("{}", out);
}

fn ints(parts: &[&str]) -> Vec<i32> {
    parts.iter().filter_map(|x| x.parse::<i32>().ok()).collect()
}

fn unhex(s: &str) -> String {
    if s == "e" { return String::new(); }
    let b: Vec<u8> = (0..s.len() / 2).filter_map(|i| u8::from_str_radix(&s[2 * i..2 * i + 2], 16).ok()).collect();
    String::from_utf8_lossy(&b).to_string()
}
fn hex(s: &str) -> String { if s.is_empty() { return "e".to_string(); } s.bytes().map(|b| format!("{:02x}", b)).collect() }

fn main() {
    let mut sh = h::Shell::new();
    let mut cur_re: Option<regex::Regex> = None;
    let stdin = io::stdin();
    for line in stdin.lock().lines() {
        let line = line.unwrap();
        let parts: Vec<&str> = line.split_whitespace().collect();
        if parts.is_empty() { continue; }
        let a = ints(&parts[1..]);
        match parts[0] {
            "insert" => { sh.insert_job(a[0], a[1], "cmd", "Running", a[2] != 0); }
            "remove" => { let r = sh.remove_pid_from_job(a[0], a[1]); println!("removed_job {}", r.is_some() as i32); }
            "sh_member_stopped" => { sh.mark_job_member_stopped(a[0], a[1]); }
            "sh_member_continued" => { sh.mark_job_member_continued(a[0], a[1]); }
            "sh_running" => { sh.mark_job_as_running(a[0], a[1] != 0); }
            "sh_stopped" => { sh.mark_job_as_stopped(a[0]); }
            "jc_done" => { h::mark_job_as_done(&mut sh, a[0], a[1], "Done"); }
            "jc_member_stopped" => { h::mark_job_member_stopped(&mut sh, a[0], a[1], false); }
            "jc_member_continued" => { h::mark_job_member_continued(&mut sh, a[0], a[1]); }
            "events" => {
                let mut evs = Vec::new();
                for p in &parts[1..] {
                    let t = ints(&p.split(',').collect::<Vec<_>>());
                    if t.len() == 3 { evs.push((t[0], t[1], t[2])); }
                }
                h::set_wait_events(Some(evs));
            }
            "wait_fg" => {
                let cr = h::wait_fg_job(&mut sh, a[0], &a[1..]);
                println!("wait_fg status={} pending={}", cr.status, h::pending_wait_events());
            }
            "poll" => { h::try_wait_bg_jobs(&mut sh, false, false); println!("poll pending={}", h::pending_wait_events()); }
            "dump" => dump(&sh),
            // bounded check of the extracted highlighter: every line over the alphabet (hex, one entry per char group) up to n groups
            "hlenum" => {
                if !hl::AVAILABLE { println!("hlenum unavailable"); continue; }
                let n: usize = parts.get(1).and_then(|x| x.parse().ok()).unwrap_or(3);
                let alpha: Vec<String> = parts[2..].iter().map(|x| unhex(x)).collect();
                std::panic::set_hook(Box::new(|_| {}));
                let mut count: u64 = 0;
                let mut bad = 0;
                let mut idx: Vec<usize> = Vec::new();
                'outer: for len in 1..=n {
                    idx.clear(); idx.resize(len, 0);
                    loop {
                        let line: String = idx.iter().map(|&i| alpha[i].as_str()).collect();
                        count += 1;
                        let l2 = line.clone();
                        let r = std::panic::catch_unwind(move || {
                            let hlr = hl::CicadaHighlighter;
                            hlr.highlight(&l2)
                        });
                        let verdict = match r {
                            Err(_) => Some("PANIC".to_string()),
                            Ok(styles) => {
                                let mut why = None;
                                let mut prev = 0usize;
                                for (rg, _st) in styles.iter() {
                                    if rg.start > rg.end || rg.end > line.len() || !line.is_char_boundary(rg.start) || !line.is_char_boundary(rg.end) || rg.start < prev {
                                        why = Some(format!("BADRANGE {}..{}", rg.start, rg.end)); break;
                                    }
                                    prev = rg.end;
                                }
                                why
                            }
                        };
                        if let Some(v) = verdict {
                            bad += 1;
                            if bad <= 5 { println!("hlbad {} {}", hex(&line), v); }
                        }
                        // next tuple
                        let mut k = len;
                        loop {
                            if k == 0 { break; }
                            k -= 1;
                            idx[k] += 1;
                            if idx[k] < alpha.len() { break; }
                            idx[k] = 0;
                            if k == 0 { continue 'outer; }
                        }
                        if idx.iter().all(|&i| i == 0) { break; }
                    }
                }
                let _ = std::panic::take_hook();
                println!("hlenum done {} bad {}", count, bad);
            }
            "hl" => {
                let l = unhex(parts.get(1).unwrap_or(&"e"));
                let l2 = l.clone();
                std::panic::set_hook(Box::new(|_| {}));
                let r = std::panic::catch_unwind(move || { let hlr = hl::CicadaHighlighter; hlr.highlight(&l2) });
                let _ = std::panic::take_hook();
                match r {
                    Err(_) => println!("hl PANIC"),
                    Ok(st) => {
                        let okr = st.iter().all(|(rg, _)| rg.start <= rg.end && rg.end <= l.len() && l.is_char_boundary(rg.start) && l.is_char_boundary(rg.end));
                        println!("hl {}", if okr { "ok" } else { "BADRANGE" });
                    }
                }
            }
            "parse_line" => {
                let l = &line["parse_line ".len().min(line.len())..];
                let li = h::parse_line(l);
                println!("tokens {:?} complete={}", li.tokens, li.is_complete);
            }
            "line_to_cmds" => {
                let l = &line["line_to_cmds ".len().min(line.len())..];
                println!("cmds {:?}", h::line_to_cmds(l));
            }
            "from_line" => {
                let l = &line["from_line ".len().min(line.len())..];
                match h::CommandLine::from_line(l, &mut sh) {
                    Ok(cl) => println!("cl bg={} cmds={:?}", cl.background as i32,
                                       cl.commands.iter().map(|c| (c.tokens.clone(), c.redirects_to.clone(), c.redirect_from.clone())).collect::<Vec<_>>()),
                    Err(e) => println!("cl err {}", e),
                }
            }
            // regex axiom validation against the REAL regex crate (arguments are hex-encoded utf-8)
            "re_set" => { cur_re = regex::Regex::new(&unhex(parts.get(1).unwrap_or(&""))).ok(); println!("re_set {}", cur_re.is_some() as i32); }
            "re_caps" => {
                let t = unhex(parts.get(1).unwrap_or(&""));
                match &cur_re {
                    Some(re) => {
                        let mut out = String::from("caps");
                        for c in re.captures_iter(&t) {
                            out.push_str(" |");
                            for k in 0..c.len() { out.push(' '); match c.get(k) { Some(m) => out.push_str(&hex(m.as_str())), None => out.push('-') } }
                        }
                        println!("{}", out);
                    }
                    None => println!("caps !"),
                }
            }
            "re_replace" => {
                let to = unhex(parts.get(1).unwrap_or(&""));
                let t = unhex(parts.get(2).unwrap_or(&""));
                match &cur_re { Some(re) => println!("rep {}", hex(&re.replace(&t, to.as_str()))), None => println!("rep !") }
            }
            "calc" => {
                let l = &line["calc ".len().min(line.len())..];
                println!("calc {:?}", h::run_calculator(l));
            }
            _ => println!("?? {}", line),
        }
    }
}
