"""U-FD: descriptor topology of pipelines over a ghost kernel: core::run_pipeline and core::run_single_program.
 - every spawned program starts with exactly {0,1,2} open (C08) wired to the objects the pipeline/redirections prescribe (C02, C04)
 - the shell's own descriptor set is unchanged by running a pipeline, on every path (C08)
 - each stage is forked exactly once, in order; the terminal hand-off protocol (C02, C07)"""
from vx.gen import Unit, Fn, TypeItem, Loop, Rw
from . import common

KERNEL = r'''
pub type RawFd = i32;
// what a descriptor refers to
pub enum Obj {
    Inherited(int),                       // descriptor n of the shell at pipeline start (0 stdin, 1 stdout, 2 stderr)
    PipeR(int),                           // read end of pipe #id
    PipeW(int),                           // write end of pipe #id
    FileW { name: Seq<char>, append: bool },   // opened for writing: append / truncate
    FileR { name: Seq<char> },
}
pub ghost struct Kernel {
    pub fds: Map<int, Obj>,       // the open descriptors of THIS process
    pub cloexec: Set<int>,        // descriptors carrying FD_CLOEXEC (Rust std opens files with O_CLOEXEC; pipe(2)/dup(2)/dup2(2) results do not carry it)
    pub child: bool,              // false: the shell; true: a forked child (flips at fork)
    pub next_id: int,             // fresh pipe ids
    pub forks: Seq<int>,          // pids of the children forked so far (shell side)
    pub tty_pgrp: int,            // foreground process group of the terminal
    pub pgrp: int,                // process group of this process
    pub self_pid: int,            // pid of this process (changes in the child at fork)
}
pub open spec fn std3(m: Map<int, Obj>) -> bool {
    m.dom() =~= set![0int, 1int, 2int] && m[0] == Obj::Inherited(0) && m[1] == Obj::Inherited(1) && m[2] == Obj::Inherited(2)
}

// ---- POSIX semantics of the descriptor calls (ASSUMED) ----
pub struct VxErrno { pub e: i32 }
// pipe(2): two descriptors that are NOT currently open, nothing else is known about their numbers
#[verifier::external_body]
pub fn pipe(Tracked(k): Tracked<&mut Kernel>) -> (r: Result<(RawFd, RawFd), VxErrno>)
    ensures match r {
        Ok(p) => p.0 >= 0 && p.1 >= 0 && p.0 != p.1 && !old(k).fds.contains_key(p.0 as int) && !old(k).fds.contains_key(p.1 as int)
            && final(k).fds == old(k).fds.insert(p.0 as int, Obj::PipeR(old(k).next_id)).insert(p.1 as int, Obj::PipeW(old(k).next_id))
            && final(k).next_id == old(k).next_id + 1,
        Err(_) => final(k).fds == old(k).fds && final(k).next_id == old(k).next_id,
    },
    final(k).cloexec == (match r { Ok(p) => old(k).cloexec.remove(p.0 as int).remove(p.1 as int), Err(_) => old(k).cloexec }) && final(k).child == old(k).child && final(k).forks == old(k).forks && final(k).tty_pgrp == old(k).tty_pgrp && final(k).pgrp == old(k).pgrp && final(k).self_pid == old(k).self_pid,
{ unimplemented!() }
// close(2): EBADF is silently ignored by libs::close
#[verifier::external_body]
pub fn close(fd: i32, Tracked(k): Tracked<&mut Kernel>)
    ensures final(k).fds == old(k).fds.remove(fd as int),
        final(k).cloexec == old(k).cloexec.remove(fd as int) && final(k).child == old(k).child && final(k).forks == old(k).forks && final(k).next_id == old(k).next_id && final(k).tty_pgrp == old(k).tty_pgrp && final(k).pgrp == old(k).pgrp && final(k).self_pid == old(k).self_pid,
{ unimplemented!() }
// dup2(2): copies the object of src onto dst when src is open, else (EBADF) nothing happens
#[verifier::external_body]
pub fn dup2(src: i32, dst: i32, Tracked(k): Tracked<&mut Kernel>)
    ensures final(k).fds == (if old(k).fds.contains_key(src as int) && dst >= 0 { old(k).fds.insert(dst as int, old(k).fds[src as int]) } else { old(k).fds }),
        final(k).cloexec == (if old(k).fds.contains_key(src as int) && dst >= 0 && src != dst { old(k).cloexec.remove(dst as int) } else { old(k).cloexec }) && final(k).child == old(k).child && final(k).forks == old(k).forks && final(k).next_id == old(k).next_id && final(k).tty_pgrp == old(k).tty_pgrp && final(k).pgrp == old(k).pgrp && final(k).self_pid == old(k).self_pid,
{ unimplemented!() }
// dup(2): a descriptor not currently open, or -1
#[verifier::external_body]
pub fn dup(fd: i32, Tracked(k): Tracked<&mut Kernel>) -> (r: i32)
    ensures (r == -1 && final(k).fds == old(k).fds)
        || (r >= 0 && old(k).fds.contains_key(fd as int) && !old(k).fds.contains_key(r as int) && final(k).fds == old(k).fds.insert(r as int, old(k).fds[fd as int])),
        final(k).cloexec == (if r >= 0 { old(k).cloexec.remove(r as int) } else { old(k).cloexec }) && final(k).child == old(k).child && final(k).forks == old(k).forks && final(k).next_id == old(k).next_id && final(k).tty_pgrp == old(k).tty_pgrp && final(k).pgrp == old(k).pgrp && final(k).self_pid == old(k).self_pid,
{ unimplemented!() }
pub enum ForkResult { Parent { child: i32 }, Child }
// fork(2): the child gets a copy of the descriptor table
#[verifier::external_body]
pub fn fork(Tracked(k): Tracked<&mut Kernel>) -> (r: Result<ForkResult, VxErrno>)
    requires !old(k).child
    ensures final(k).fds == old(k).fds && final(k).cloexec == old(k).cloexec && final(k).next_id == old(k).next_id && final(k).tty_pgrp == old(k).tty_pgrp && final(k).pgrp == old(k).pgrp,
        match r {
            Ok(ForkResult::Child) => final(k).child && final(k).forks == old(k).forks && final(k).self_pid > 0,
            Ok(ForkResult::Parent { child }) => !final(k).child && child > 0 && child as int != old(k).self_pid && child as int != old(k).tty_pgrp && final(k).forks == old(k).forks.push(child as int) && final(k).self_pid == old(k).self_pid,
            Err(_) => !final(k).child && final(k).forks == old(k).forks && final(k).self_pid == old(k).self_pid,
        }
{ unimplemented!() }
#[verifier::external_body]
pub fn vx_exit(code: i32) -> ! { unimplemented!() }
// open for writing: a descriptor not currently open
#[verifier::external_body]
pub fn create_raw_fd_from_file(file_name: &str, append: bool, Tracked(k): Tracked<&mut Kernel>) -> (r: Result<i32, String>)
    ensures match r {
        Ok(fd) => (fd == -1 && final(k).fds == old(k).fds)
            || (fd >= 0 && !old(k).fds.contains_key(fd as int) && final(k).fds == old(k).fds.insert(fd as int, Obj::FileW { name: file_name@, append: append })),
        Err(_) => final(k).fds == old(k).fds,
    },
    final(k).cloexec == (match r { Ok(fd) => if fd >= 0 { old(k).cloexec.insert(fd as int) } else { old(k).cloexec }, Err(_) => old(k).cloexec }) && final(k).child == old(k).child && final(k).forks == old(k).forks && final(k).next_id == old(k).next_id && final(k).tty_pgrp == old(k).tty_pgrp && final(k).pgrp == old(k).pgrp && final(k).self_pid == old(k).self_pid,
{ unimplemented!() }
#[verifier::external_body]
pub fn get_fd_from_file(file_name: &str, Tracked(k): Tracked<&mut Kernel>) -> (fd: i32)
    ensures (fd == -1 && final(k).fds == old(k).fds)
            || (fd >= 0 && !old(k).fds.contains_key(fd as int) && final(k).fds == old(k).fds.insert(fd as int, Obj::FileR { name: file_name@ })),
    final(k).cloexec == (if fd >= 0 { old(k).cloexec.insert(fd as int) } else { old(k).cloexec }) && final(k).child == old(k).child && final(k).forks == old(k).forks && final(k).next_id == old(k).next_id && final(k).tty_pgrp == old(k).tty_pgrp && final(k).pgrp == old(k).pgrp && final(k).self_pid == old(k).self_pid,
{ unimplemented!() }
// std::fs::File: owns its descriptor, Drop closes it
pub struct VFile { pub fd: i32 }
pub struct VxIoErr { pub e: i32 }
#[verifier::external_body]
pub fn vx_file_from_raw_fd(fd: i32, Tracked(k): Tracked<&mut Kernel>) -> (f: VFile)
    ensures f.fd == fd, *final(k) == *old(k)
{ unimplemented!() }
#[verifier::external_body]
pub fn vx_drop_file(f: VFile, Tracked(k): Tracked<&mut Kernel>)
    ensures final(k).fds == old(k).fds.remove(f.fd as int),
        final(k).cloexec == old(k).cloexec.remove(f.fd as int) && final(k).child == old(k).child && final(k).forks == old(k).forks && final(k).next_id == old(k).next_id && final(k).tty_pgrp == old(k).tty_pgrp && final(k).pgrp == old(k).pgrp && final(k).self_pid == old(k).self_pid,
{ unimplemented!() }
impl VFile {
    #[verifier::external_body]
    pub fn write_all(&mut self, b: &[u8]) -> (r: Result<(), VxIoErr>) ensures final(self).fd == old(self).fd { unimplemented!() }
    #[verifier::external_body]
    pub fn read_to_string(&mut self, s: &mut String) -> (r: Result<usize, VxIoErr>) ensures final(self).fd == old(self).fd { unimplemented!() }
}
pub uninterp spec fn spec_bytes_of(s: Seq<char>) -> Seq<u8>;
#[verifier::external_body]
pub fn vx_as_bytes(s: &String) -> (r: &[u8]) ensures r@ == spec_bytes_of(s@) { unimplemented!() }
#[verifier::external_body]
pub fn vx_nl_bytes() -> (r: &'static [u8]) { unimplemented!() }
'''

TEMPLATE = common.HEAD + common.STR_SHIMS + common.TOKEN_TYPES + KERNEL + r'''
impl VFile {
    // Write::write_all of the here-string: what is written must be the word followed by one newline (C04), whatever the word ends in
    #[verifier::external_body]
    // ... and while the shell writes it must not hold the read end of that pipe itself: a stage that exits without reading would leave the writer blocked
    // for ever on a full pipe (no reader gone, no EPIPE) as soon as the text is larger than the pipe (C02: the pipeline terminates)
    pub fn write_here_string(&mut self, b: &[u8], Ghost(word): Ghost<Seq<char>>, Ghost(rd): Ghost<int>, Tracked(k): Tracked<&mut Kernel>) -> (r: Result<(), VxIoErr>)
        requires b@ == spec_bytes_of(word.push('\n')), //@L C04.rsp.the_here_string_is_the_word_followed_by_one_newline
            !old(k).fds.contains_key(rd) //@L C02+C05.rsp.the_shell_has_closed_its_read_end_of_the_here_string_pipe_before_it_writes
        ensures final(self).fd == old(self).fd, *final(k) == *old(k)
    { unimplemented!() }
}
//@TYPE Command
//@TYPE CommandLine
//@TYPE CommandResult
//@TYPE CommandOptions
pub struct Shell { pub has_terminal: bool, pub previous_status: i32 }
impl Shell {
    // job-table insertion: contract proved in U-JOBS; its caller-side preconditions are NOT discharged here (assumed)
    #[verifier::external_body]
    pub fn insert_job(&mut self, gid: i32, pid: i32, cmd: &str, status: &str, bg: bool) ensures final(self).has_terminal == old(self).has_terminal { unimplemented!() }
}
impl CommandResult {
//@FN CommandResult::new
//@FN CommandResult::error
}
impl Command {
    #[verifier::external_body]
    pub fn has_redirect_from(&self) -> (r: bool) ensures r == (match self.redirect_from { Some(t) => t.0@ == "<"@, None => false }) { unimplemented!() }
    #[verifier::external_body]
    pub fn has_here_string(&self) -> (r: bool) ensures r == (match self.redirect_from { Some(t) => t.0@ == "<<<"@, None => false }) { unimplemented!() }
    #[verifier::external_body]
    pub fn is_builtin(&self) -> (r: bool) requires self.tokens@.len() > 0 { unimplemented!() }
}
impl CommandLine {
    #[verifier::external_body]
    pub fn is_single_and_builtin(&self) -> (r: bool) ensures r == spec_single_builtin(*self), r ==> self.commands@.len() == 1 { unimplemented!() }
}
pub uninterp spec fn spec_is_builtin(cmd: Command) -> bool;
pub open spec fn spec_single_builtin(cl: CommandLine) -> bool { cl.commands@.len() == 1 && spec_is_builtin(cl.commands@[0]) }
#[verifier::external_body]
pub fn try_run_builtin(sh: &mut Shell, cl: &CommandLine, idx_cmd: usize, capture: bool) -> (r: Option<CommandResult>) { unimplemented!() }
#[verifier::external_body]
pub fn tokens_to_line(tokens: &Tokens) -> (r: String) { unimplemented!() }
#[verifier::external_body]
pub fn vx_reset_child_signals() { unimplemented!() }
// libc::signal(SIGPIPE, SIG_IGN / SIG_DFL) around the here-string write: signal disposition, no descriptor effect
// ghost: the SIGPIPE disposition of the shell (it survives fork and exec): a stage must start with the default action (C02: a writer whose
// reader exits early ends by SIGPIPE), and the shell must have the default action back once the here-string is written
// ... and the dispositions of the keyboard signals SIGTSTP (ctrl-Z) and SIGQUIT: the shell itself ignores both (main.rs: assumed), an ignored
// disposition survives fork and exec, so every stage -- an external program or a builtin run in a forked copy -- must have them reset first
pub ghost struct SigLog { pub ignored: bool, pub tstp_ign: bool, pub quit_ign: bool }
#[verifier::external_body]
pub proof fn new_siglog() -> (tracked r: SigLog) ensures !r.ignored, r.tstp_ign, r.quit_ign { unimplemented!() }
#[verifier::external_body]
pub fn vx_sigpipe(ignore: bool, Tracked(sg): Tracked<&mut SigLog>) ensures final(sg).ignored == ignore, final(sg).tstp_ign == old(sg).tstp_ign, final(sg).quit_ign == old(sg).quit_ign { unimplemented!() }
#[verifier::external_body]
pub fn vx_sigtstp_default(Tracked(sg): Tracked<&mut SigLog>) ensures !final(sg).tstp_ign, final(sg).ignored == old(sg).ignored, final(sg).quit_ign == old(sg).quit_ign { unimplemented!() }
#[verifier::external_body]
pub fn vx_sigquit_default(Tracked(sg): Tracked<&mut SigLog>) ensures !final(sg).quit_ign, final(sg).ignored == old(sg).ignored, final(sg).tstp_ign == old(sg).tstp_ign { unimplemented!() }
// C02 / C07: a stage that is about to run (exec, or a builtin in the forked copy) reacts to ctrl-Z and ctrl-\ the default way
pub proof fn chk_job_signals_default(sg: SigLog)
    requires !sg.tstp_ign && !sg.quit_ign,   //@L C02+C07.rsp.a_stage_runs_with_the_default_action_for_the_stop_and_quit_keys
{ }
#[verifier::external_body]
pub fn vx_push_nl(s: &mut String) ensures final(s)@ == old(s)@.push('\n') { s.push('\n') }
#[verifier::external_body]
pub fn vx_getpid(Tracked(k): Tracked<&mut Kernel>) -> (r: i32) ensures r as int == old(k).self_pid, *final(k) == *old(k) { unimplemented!() }
#[verifier::external_body]
pub fn vx_setpgid(pid: i32, pgid: i32, Tracked(k): Tracked<&mut Kernel>)
    ensures final(k).fds == old(k).fds && final(k).cloexec == old(k).cloexec && final(k).child == old(k).child && final(k).forks == old(k).forks && final(k).next_id == old(k).next_id && final(k).tty_pgrp == old(k).tty_pgrp
        && final(k).self_pid == old(k).self_pid && (pid == 0 ==> final(k).pgrp == pgid as int) && (pid != 0 && pid as int != old(k).self_pid ==> final(k).pgrp == old(k).pgrp),
{ unimplemented!() }
#[verifier::external_body]
pub fn give_terminal_to(gid: i32, Tracked(k): Tracked<&mut Kernel>) -> (r: bool)
    ensures final(k).fds == old(k).fds && final(k).cloexec == old(k).cloexec && final(k).child == old(k).child && final(k).forks == old(k).forks && final(k).next_id == old(k).next_id && final(k).pgrp == old(k).pgrp && final(k).self_pid == old(k).self_pid,
        final(k).tty_pgrp == (if r { gid as int } else { old(k).tty_pgrp }),
{ unimplemented!() }

// ---- what a stage must see at exec time (from the property statements C02 / C04 / C08) ----
pub open spec fn rv(r: Redirection) -> (Seq<char>, Seq<char>, Seq<char>) { (r.0@, r.1@, r.2@) }
// redirections applied left to right; N>&M copies what M refers to AT THAT POINT
pub open spec fn apply_redirs(out: Obj, err: Obj, rs: Seq<Redirection>, n: int) -> (Obj, Obj)
    decreases n
{
    if n <= 0 { (out, err) } else {
        let p = apply_redirs(out, err, rs, n - 1);
        let r = rs[n - 1];
        if r.2@ == "&1"@ && r.0@ == "2"@ { (p.0, p.0) }
        else if r.2@ == "&2"@ && r.0@ == "1"@ { (p.1, p.1) }
        else if r.0@ == "1"@ { (Obj::FileW { name: r.2@, append: r.1@ == ">>"@ }, p.1) }
        else { (p.0, Obj::FileW { name: r.2@, append: r.1@ == ">>"@ }) }
    }
}
pub open spec fn want_stdin(cmd: Command, i: int, pobj: Seq<int>, hs: int) -> Obj {
    match cmd.redirect_from {
        Some(t) => if t.0@ == "<"@ { Obj::FileR { name: t.1@ } } else if t.0@ == "<<<"@ { Obj::PipeR(hs) } else if i > 0 { Obj::PipeR(pobj[i - 1]) } else { Obj::Inherited(0) },
        None => if i > 0 { Obj::PipeR(pobj[i - 1]) } else { Obj::Inherited(0) },
    }
}
pub open spec fn base_out(i: int, n: int, pobj: Seq<int>, capture: bool, cap_out: int) -> Obj {
    if i < n { Obj::PipeW(pobj[i]) } else if capture { Obj::PipeW(cap_out) } else { Obj::Inherited(1) }
}
pub open spec fn base_err(i: int, n: int, capture: bool, cap_err: int) -> Obj {
    if i == n && capture { Obj::PipeW(cap_err) } else { Obj::Inherited(2) }
}
// ghost description of the pipeline being wired: pipe object ids, capture pipe ids, here-string pipe id
pub ghost struct Wiring { pub pobj: Seq<int>, pub cap_out: int, pub cap_err: int, pub hs: int }
// C02: a stage is forked while the shell has the default SIGPIPE action (an ignored disposition would be inherited through exec)
pub proof fn chk_sigpipe_default(sg: SigLog)
    requires !sg.ignored,   //@L C02.rsp.a_stage_starts_with_the_default_sigpipe_action
{ }
// C07: the process group of stage i at exec: stage 0 leads its own group, later stages join the group named by *pgid
pub proof fn chk_pgrp(k: Kernel, i: int, pgid_at_entry: int)
    requires k.pgrp == (if i == 0 { k.self_pid } else { pgid_at_entry }),   //@L C07.exec.stage_runs_in_the_group_of_the_first_stage
{ }

pub open spec fn pkeys(p: Seq<(i32, i32)>, a: int, b: int, fd: int) -> bool {
    exists|j: int| a <= j < b && (fd == (#[trigger] p[j]).0 || fd == p[j].1)
}
pub open spec fn close_range(f: Map<int, Obj>, p: Seq<(i32, i32)>, a: int, b: int) -> Map<int, Obj>
    decreases b - a
{
    if b <= a { f } else { close_range(f, p, a, b - 1).remove(p[b - 1].0 as int).remove(p[b - 1].1 as int) }
}
pub proof fn lemma_close_range(f: Map<int, Obj>, p: Seq<(i32, i32)>, a: int, b: int)
    requires 0 <= a, b <= p.len(),
    ensures
        forall|fd: int| #[trigger] close_range(f, p, a, b).contains_key(fd) == (f.contains_key(fd) && !pkeys(p, a, b, fd)),
        forall|fd: int| close_range(f, p, a, b).contains_key(fd) ==> #[trigger] close_range(f, p, a, b)[fd] == f[fd],
    decreases b - a
{
    if b > a {
        lemma_close_range(f, p, a, b - 1);
        let c0 = close_range(f, p, a, b - 1);
        let c1 = close_range(f, p, a, b);
        assert(c1 == c0.remove(p[b - 1].0 as int).remove(p[b - 1].1 as int));
        assert forall|fd: int| #[trigger] c1.contains_key(fd) == (f.contains_key(fd) && !pkeys(p, a, b, fd)) by {
            lemma_pkeys_split(p, a, b, fd);
        }
    } else {
        assert forall|fd: int| !pkeys(p, a, b, fd) by { }
    }
}
pub proof fn lemma_pkeys_split(p: Seq<(i32, i32)>, a: int, b: int, fd: int)
    requires 0 <= a < b <= p.len(),
    ensures pkeys(p, a, b, fd) == (pkeys(p, a, b - 1, fd) || fd == p[b - 1].0 || fd == p[b - 1].1),
            pkeys(p, a, b, fd) == (pkeys(p, a + 1, b, fd) || fd == p[a].0 || fd == p[a].1),
{
    if pkeys(p, a, b, fd) {
        let j = choose|j: int| a <= j < b && (fd == (#[trigger] p[j]).0 || fd == p[j].1);
        if j < b - 1 { assert(a <= j < b - 1 && (fd == p[j].0 || fd == p[j].1)); }
        if j > a { assert(a + 1 <= j < b && (fd == p[j].0 || fd == p[j].1)); }
    }
    if pkeys(p, a, b - 1, fd) {
        let j = choose|j: int| a <= j < b - 1 && (fd == (#[trigger] p[j]).0 || fd == p[j].1);
        assert(a <= j < b && (fd == p[j].0 || fd == p[j].1));
    }
    if pkeys(p, a + 1, b, fd) {
        let j = choose|j: int| a + 1 <= j < b && (fd == (#[trigger] p[j]).0 || fd == p[j].1);
        assert(a <= j < b && (fd == p[j].0 || fd == p[j].1));
    }
    if fd == p[b - 1].0 || fd == p[b - 1].1 { assert(a <= b - 1 < b && (fd == p[b - 1].0 || fd == p[b - 1].1)); }
    if fd == p[a].0 || fd == p[a].1 { assert(a <= a < b && (fd == p[a].0 || fd == p[a].1)); }
}
pub open spec fn opt_has(o: Option<(i32, i32)>, fd: int) -> bool { match o { Some(p) => fd == p.0 || fd == p.1, None => false } }
pub open spec fn ids_distinct(w: Wiring) -> bool {
    (forall|a: int, b: int| 0 <= a < w.pobj.len() && 0 <= b < w.pobj.len() && a != b ==> w.pobj[a] != w.pobj[b])
    && w.cap_out != w.cap_err && (forall|a: int| 0 <= a < w.pobj.len() ==> w.pobj[a] != w.cap_out && w.pobj[a] != w.cap_err)
}
// THE SHELL'S DESCRIPTOR TABLE when stage i is about to be started: std 0,1,2; both ends of pipes i..n; the read end of pipe i-1;
// the capture pipes; and NOTHING ELSE
pub open spec fn layout(f: Map<int, Obj>, p: Seq<(i32, i32)>, i: int, w: Wiring, cs: Option<(i32, i32)>, ce: Option<(i32, i32)>) -> bool {
    &&& w.pobj.len() == p.len() && 0 <= i <= p.len()
    &&& f.contains_key(0) && f[0] == Obj::Inherited(0) && f.contains_key(1) && f[1] == Obj::Inherited(1) && f.contains_key(2) && f[2] == Obj::Inherited(2)
    &&& forall|fd: int| #[trigger] f.contains_key(fd) <==> (fd == 0 || fd == 1 || fd == 2 || pkeys(p, i, p.len() as int, fd) || (i > 0 && fd == p[i - 1].0) || opt_has(cs, fd) || opt_has(ce, fd))
    &&& forall|j: int| i <= j < p.len() ==> f[(#[trigger] p[j]).0 as int] == Obj::PipeR(w.pobj[j]) && f[p[j].1 as int] == Obj::PipeW(w.pobj[j])
    &&& (i > 0 ==> f[p[i - 1].0 as int] == Obj::PipeR(w.pobj[i - 1]))
    &&& (match cs { Some(c) => f[c.0 as int] == Obj::PipeR(w.cap_out) && f[c.1 as int] == Obj::PipeW(w.cap_out), None => true })
    &&& (match ce { Some(c) => f[c.0 as int] == Obj::PipeR(w.cap_err) && f[c.1 as int] == Obj::PipeW(w.cap_err), None => true })
}
pub open spec fn want_out(cmd: Command, i: int, n: int, w: Wiring, capture: bool) -> Obj {
    apply_redirs(base_out(i, n, w.pobj, capture, w.cap_out), base_err(i, n, capture, w.cap_err), cmd.redirects_to@, cmd.redirects_to@.len() as int).0
}
pub open spec fn want_err(cmd: Command, i: int, n: int, w: Wiring, capture: bool) -> Obj {
    apply_redirs(base_out(i, n, w.pobj, capture, w.cap_out), base_err(i, n, capture, w.cap_err), cmd.redirects_to@, cmd.redirects_to@.len() as int).1
}
pub open spec fn has_amp(rs: Seq<Redirection>) -> bool { exists|q: int| 0 <= q < rs.len() && ((#[trigger] rs[q]).2@ == "&1"@ || rs[q].2@ == "&2"@) }

// the child's table right after fork: the shell's table at stage start plus the here-string pipe created just before
pub open spec fn child_start(f1: Map<int, Obj>, f0: Map<int, Obj>, hs: Option<(i32, i32)>, w: Wiring) -> bool {
    match hs {
        Some(h) => h.0 != h.1 && !f0.contains_key(h.0 as int) && !f0.contains_key(h.1 as int)
                   && f1 == f0.insert(h.0 as int, Obj::PipeR(w.hs)).insert(h.1 as int, Obj::PipeW(w.hs)),
        None => f1 == f0,
    }
}
// file redirections only (what the code does on the captured last stage, where N>&M is skipped)
pub open spec fn apply_files(out: Obj, err: Obj, rs: Seq<Redirection>, n: int) -> (Obj, Obj)
    decreases n
{
    if n <= 0 { (out, err) } else {
        let p = apply_files(out, err, rs, n - 1);
        let r = rs[n - 1];
        if (r.2@ == "&1"@ && r.0@ == "2"@) || (r.2@ == "&2"@ && r.0@ == "1"@) { p }
        else if r.0@ == "1"@ { (Obj::FileW { name: r.2@, append: r.1@ == ">>"@ }, p.1) }
        else { (p.0, Obj::FileW { name: r.2@, append: r.1@ == ">>"@ }) }
    }
}
pub open spec fn redirected(rs: Seq<Redirection>, n: int, to_out: bool) -> bool
    decreases n
{
    if n <= 0 { false } else {
        let r = rs[n - 1];
        redirected(rs, n - 1, to_out)
        || (!((r.2@ == "&1"@ && r.0@ == "2"@) || (r.2@ == "&2"@ && r.0@ == "1"@)) && ((r.0@ == "1"@) == to_out))
    }
}
// without N>&M, the left-to-right result is: the last file per descriptor, else the base object
pub proof fn lemma_files_vs_redirs(out: Obj, err: Obj, o2: Obj, e2: Obj, rs: Seq<Redirection>, n: int)
    requires 0 <= n <= rs.len(), !has_amp(rs),
    ensures
        apply_redirs(out, err, rs, n).0 == (if redirected(rs, n, true) { apply_files(o2, e2, rs, n).0 } else { out }),
        apply_redirs(out, err, rs, n).1 == (if redirected(rs, n, false) { apply_files(o2, e2, rs, n).1 } else { err }),
        !redirected(rs, n, true) ==> apply_files(o2, e2, rs, n).0 == o2,
        !redirected(rs, n, false) ==> apply_files(o2, e2, rs, n).1 == e2,
    decreases n
{
    if n > 0 {
        lemma_files_vs_redirs(out, err, o2, e2, rs, n - 1);
        assert(!(rs[n - 1].2@ == "&1"@ || rs[n - 1].2@ == "&2"@));
    }
}

pub proof fn chk_argv(built_by_the_idiom: bool)
    requires built_by_the_idiom,   //@L C01.exec.argv_is_the_token_texts_in_order
{ }
pub proof fn lemma_lits()
    ensures "<"@ != "<<<"@, "&1"@ != "&2"@, "1"@ != "2"@, ">>"@ != ">"@, "<"@.len() == 1, "<<<"@.len() == 3,
{
    reveal_strlit("<"); reveal_strlit("<<<"); reveal_strlit("&1"); reveal_strlit("&2"); reveal_strlit("1"); reveal_strlit("2");
    reveal_strlit(">>"); reveal_strlit(">");
    assert("<"@.len() == 1 && "<<<"@.len() == 3 && ">>"@.len() == 2 && ">"@.len() == 1);
    assert("&1"@.len() == 2 && "&2"@.len() == 2 && "&1"@[1] == '1' && "&2"@[1] == '2');
    assert("1"@.len() == 1 && "2"@.len() == 1 && "1"@[0] == '1' && "2"@[0] == '2');
}

// one obligation per clause, so that each is reported (and listed) separately
pub proof fn chk_exec_only_0_1_2_open(k: Kernel)
    requires forall|fd: int| (#[trigger] k.fds.contains_key(fd) && !k.cloexec.contains(fd)) <==> (fd == 0 || fd == 1 || fd == 2),   //@L C02+C08.exec.only_0_1_2_open
{ }
pub proof fn chk_stdin(k: Kernel, cmd: Command, i: int, w: Wiring)
    requires k.fds.contains_key(0) && k.fds[0] == want_stdin(cmd, i, w.pobj, w.hs),   //@L C02+C04.exec.stdin_is_prev_stage_or_redirect
{ }
pub proof fn chk_stdout(k: Kernel, cmd: Command, i: int, n: int, w: Wiring, capture: bool)
    requires k.fds.contains_key(1) && k.fds[1] == want_out(cmd, i, n, w, capture),   //@L C02+C04.exec.stdout_is_next_stage_or_redirect
{ }
pub proof fn chk_stderr(k: Kernel, cmd: Command, i: int, n: int, w: Wiring, capture: bool)
    requires k.fds.contains_key(2) && k.fds[2] == want_err(cmd, i, n, w, capture),   //@L C04.exec.stderr_as_redirected
{ }
// carved forms (known finding: `N>&M` on the captured last stage is ignored by the code)
pub proof fn chk_stdout_carved(k: Kernel, cmd: Command, i: int, n: int, w: Wiring, capture: bool)
    requires !(capture && i == n && has_amp(cmd.redirects_to@)) ==> k.fds.contains_key(1) && k.fds[1] == want_out(cmd, i, n, w, capture),   //@L C02+C04.exec.stdout_wired_unless_amp_on_captured_stage
{ }
pub proof fn chk_stderr_carved(k: Kernel, cmd: Command, i: int, n: int, w: Wiring, capture: bool)
    requires !(capture && i == n && has_amp(cmd.redirects_to@)) ==> k.fds.contains_key(2) && k.fds[2] == want_err(cmd, i, n, w, capture),   //@L C04.exec.stderr_wired_unless_amp_on_captured_stage
{ }

// execve with the argv/envp built from cmd (R10 region): REQUIRES the property's descriptor state
#[verifier::external_body]
pub fn vx_execve_region(cl: &CommandLine, cmd: &Command, Tracked(k): Tracked<&mut Kernel>)
    requires old(k).child
{ unimplemented!() }
#[verifier::external_body]
pub fn try_run_builtin_in_subprocess(sh: &mut Shell, cl: &CommandLine, idx_cmd: usize, capture: bool) -> (r: Option<i32>) { unimplemented!() }

// the descriptors the shell holds for one stage alone
pub open spec fn stage_key(fd: int, i: int, p: Seq<(i32, i32)>, hs: Option<(i32, i32)>, cap_last: bool, cs: Option<(i32, i32)>, ce: Option<(i32, i32)>) -> bool {
    opt_has(hs, fd) || (0 <= i < p.len() && fd == p[i].1 as int) || (0 < i <= p.len() && fd == p[i - 1].0 as int)
    || (cap_last && (opt_has(cs, fd) || opt_has(ce, fd)))
}
//@FN release_stage_fds
//@FN run_single_program

pub open spec fn mk_wiring(base: int, n: int, hs: int) -> Wiring {
    Wiring { pobj: Seq::new(n as nat, |j: int| base + j), cap_out: base + n, cap_err: base + n + 1, hs: hs }
}
pub proof fn lemma_mk_wiring(base: int, n: int, hs: int)
    requires n >= 0,
    ensures ids_distinct(mk_wiring(base, n, hs)), mk_wiring(base, n, hs).pobj.len() == n,
        forall|j: int| 0 <= j < n ==> #[trigger] mk_wiring(base, n, hs).pobj[j] == base + j,
{ }
pub proof fn lemma_close_all(f: Map<int, Obj>, p: Seq<(i32, i32)>, w: Wiring)
    requires layout(f, p, 0, w, None, None),
    ensures std3(close_range(f, p, 0, p.len() as int)),
{
    lemma_close_range(f, p, 0, p.len() as int);
    let c = close_range(f, p, 0, p.len() as int);
    assert(c.dom() =~= set![0int, 1int, 2int]) by {
        assert forall|fd: int| c.contains_key(fd) <==> (fd == 0 || fd == 1 || fd == 2) by {
            if fd == 0 || fd == 1 || fd == 2 {
                if pkeys(p, 0, p.len() as int, fd) {
                    let j = choose|j: int| 0 <= j < p.len() && (fd == (#[trigger] p[j]).0 || fd == p[j].1);
                    assert(f[p[j].0 as int] == Obj::PipeR(w.pobj[j]) && f[p[j].1 as int] == Obj::PipeW(w.pobj[j]));
                }
            }
        }
    }
}
// pushing a freshly created pipe keeps the stage-0 layout
pub proof fn lemma_layout_push(f: Map<int, Obj>, p: Seq<(i32, i32)>, base: int, a: i32, b: i32)
    requires layout(f, p, 0, mk_wiring(base, p.len() as int, 0), None, None), a != b, !f.contains_key(a as int), !f.contains_key(b as int),
    ensures layout(f.insert(a as int, Obj::PipeR(base + p.len())).insert(b as int, Obj::PipeW(base + p.len())), p.push((a, b)), 0,
                   mk_wiring(base, (p.len() + 1) as int, 0), None, None),
{
    let f2 = f.insert(a as int, Obj::PipeR(base + p.len())).insert(b as int, Obj::PipeW(base + p.len()));
    let p2 = p.push((a, b));
    let n = p.len() as int;
    assert forall|fd: int| #[trigger] f2.contains_key(fd) <==> (fd == 0 || fd == 1 || fd == 2 || pkeys(p2, 0, n + 1, fd)) by {
        lemma_pkeys_split(p2, 0, n + 1, fd);
        if pkeys(p2, 0, n, fd) {
            let j = choose|j: int| 0 <= j < n && (fd == (#[trigger] p2[j]).0 || fd == p2[j].1);
            assert(p2[j] == p[j]);
            assert(0 <= j < n && (fd == p[j].0 || fd == p[j].1));
        }
        if pkeys(p, 0, n, fd) {
            let j = choose|j: int| 0 <= j < n && (fd == (#[trigger] p[j]).0 || fd == p[j].1);
            assert(p2[j] == p[j]);
            assert(0 <= j < n && (fd == p2[j].0 || fd == p2[j].1));
        }
    }
    assert forall|j: int| 0 <= j < n + 1 implies f2[(#[trigger] p2[j]).0 as int] == Obj::PipeR(mk_wiring(base, n + 1, 0).pobj[j])
        && f2[p2[j].1 as int] == Obj::PipeW(mk_wiring(base, n + 1, 0).pobj[j]) by {
        if j < n {
            assert(p2[j] == p[j]);
            assert(pkeys(p, 0, n, p[j].0 as int) && pkeys(p, 0, n, p[j].1 as int));
            assert(f.contains_key(p[j].0 as int) && f.contains_key(p[j].1 as int));
            assert(mk_wiring(base, n, 0).pobj[j] == base + j);
        }
    }
}

// the here-string pipe id does not occur in the layout
pub proof fn lemma_layout_hs(f: Map<int, Obj>, p: Seq<(i32, i32)>, i: int, w1: Wiring, w2: Wiring, cs: Option<(i32, i32)>, ce: Option<(i32, i32)>)
    requires w1.pobj == w2.pobj, w1.cap_out == w2.cap_out, w1.cap_err == w2.cap_err,
    ensures layout(f, p, i, w1, cs, ce) == layout(f, p, i, w2, cs, ce),
{ }

// creating the capture pipes (stdout first, then stderr) keeps the stage-0 layout
pub proof fn lemma_layout_cap(f: Map<int, Obj>, p: Seq<(i32, i32)>, w: Wiring, cs: Option<(i32, i32)>, a: i32, b: i32)
    requires layout(f, p, 0, w, cs, None), a != b, !f.contains_key(a as int), !f.contains_key(b as int),
    ensures match cs {
        None => layout(f.insert(a as int, Obj::PipeR(w.cap_out)).insert(b as int, Obj::PipeW(w.cap_out)), p, 0, w, Some((a, b)), None),
        Some(c) => layout(f.insert(a as int, Obj::PipeR(w.cap_err)).insert(b as int, Obj::PipeW(w.cap_err)), p, 0, w, Some(c), Some((a, b))),
    }
{
    let n = p.len() as int;
    assert forall|j: int| 0 <= j < n implies f.contains_key((#[trigger] p[j]).0 as int) && f.contains_key(p[j].1 as int) by {
        assert(pkeys(p, 0, n, p[j].0 as int) && pkeys(p, 0, n, p[j].1 as int));
    }
    match cs {
        None => {},
        Some(c) => { assert(f.contains_key(c.0 as int) && f.contains_key(c.1 as int)); },
    }
}

// C19: a line that is arithmetic is evaluated as arithmetic -- try_run_calculator answers exactly for those lines (tools::is_arithmetic, uninterpreted) ...
pub uninterp spec fn spec_is_arith(line: Seq<char>) -> bool;
#[verifier::external_body]
pub fn try_run_calculator(line: &str, capture: bool) -> (r: Option<CommandResult>) ensures r.is_some() == spec_is_arith(line@) { unimplemented!() }
// ... so a function (names may look like `-5` or `2-1`) is looked up for the other lines only.
// functions run nested command lines; their pipelines preserve the shell's table by this very contract (induction, assumed)
#[verifier::external_body]
pub fn try_run_func(sh: &mut Shell, cl: &CommandLine, capture: bool, log_cmd: bool) -> (r: Option<CommandResult>)
    requires !spec_is_arith(cl.line@),   //@L C19.pipeline.an_arithmetic_line_is_evaluated_not_looked_up_as_a_function
{ unimplemented!() }
#[verifier::external_body]
pub fn vx_isatty1() -> bool { unimplemented!() }
#[verifier::external_body]
pub fn vx_clone_envs(m: &HashMap<String, String>) -> HashMap<String, String> { unimplemented!() }
#[verifier::external_body]
pub fn vx_print_bg_job(sh: &Shell, pgid: i32) { unimplemented!() }
// jobc::wait_fg_job: contract in U-WAIT; no descriptor effect
#[verifier::external_body]
pub fn wait_fg_job(sh: &mut Shell, gid: i32, pids: &[i32], Tracked(wl): Tracked<&mut WaitLog>) -> (r: CommandResult)
    ensures final(wl).st == Some(r.status as int)
{ unimplemented!() }
// ghost: whether this activation waited for its foreground stages, and the status the wait reported
pub ghost struct WaitLog { pub st: Option<int> }
#[verifier::external_body]
pub proof fn new_waitlog() -> (tracked r: WaitLog) ensures r.st.is_none() { unimplemented!() }

//@FN run_pipeline
''' + common.TAIL

C = 'src/core.rs'

RSP_RW = [
    Rw('libc::signal(libc::SIGPIPE, libc::SIG_IGN);', 'vx_sigpipe(true, Tracked(&mut sg));', required=False, rule='R8', why='signal disposition while the here-string is written: shim, no descriptor effect'),
    Rw('libc::signal(libc::SIGPIPE, libc::SIG_DFL);', 'vx_sigpipe(false, Tracked(&mut sg));', required=False, rule='R8'),
    Rw('libc::signal(libc::SIGTSTP, libc::SIG_DFL);', 'vx_sigtstp_default(Tracked(&mut sg));', required=False, rule='R8', why='signal disposition of the child: shim with a ghost record, no descriptor effect'),
    Rw('libc::signal(libc::SIGQUIT, libc::SIG_DFL);', 'vx_sigquit_default(Tracked(&mut sg));', required=False, rule='R8'),
    Rw("text.push('\\n');", 'vx_push_nl(&mut text);', required=False, rule='R12'),
    Rw('text.as_bytes()', 'vx_as_bytes(&text)', required=False, rule='R12'),
    Rw('f.write_all(', 'f.write_here_string(', required=False, rule='R8', why='the one write of run_single_program is the here-string: shim with the content clause'),
    Rw(r'Err\(ref e\) if e\.kind\(\) == std::io::ErrorKind::BrokenPipe => \{\}', '', regex=True, required=False, rule='R10', why='EPIPE arm of the here-string write: same (empty) effect as the general arm for the descriptor model'),
    Rw('drop(f);', '', required=False, rule='R9', why='explicit drop of the File: modelled by R9 at the end of the enclosing block (same descriptor effect)'),
    Rw(r'if cfg!\(target_os = "macos"\) \{', '', regex=True, balanced=True, rule='R10', why='macOS-only busy wait on getpgid (cfg! is false on this platform): dropped'),
    Rw('let c_args: Vec<_> = cmd\\s*(?:/\\*@L\\d+\\*/)?\\s*\\.tokens\\s*(?:/\\*@L\\d+\\*/)?\\s*\\.iter\\(\\)\\s*(?:/\\*@L\\d+\\*/)?\\s*\\.map\\(\\|x\\| CString::new\\(x\\.1\\.as_str\\(\\)\\)\\.expect\\("CString error"\\)\\)\\s*(?:/\\*@L\\d+\\*/)?\\s*\\.collect\\(\\);', 'VXARGV_OK;', regex=True, required=False, rule='R12',
       why='argv idiom: cmd.tokens.iter().map(|x| CString::new(x.1.as_str())..).collect() has the std contract argv == token texts in order; any other construction is opaque'),
    Rw(r'let mut c_envs: Vec<_> = env::vars\(\)[\s\S]*?VXARGV_OK;[\s\S]*?match execve\(&c_program, &c_args, &c_envs\) \{',
       'proof { chk_argv(true); } proof { lemma_lits(); if !has_amp(cmd.redirects_to@) { lemma_files_vs_redirs(base_out(idx_cmd as int, pipes_count as int, w.pobj, options.capture_output, w.cap_out), base_err(idx_cmd as int, pipes_count as int, options.capture_output, w.cap_err), Obj::Inherited(1), Obj::Inherited(2), cmd.redirects_to@, cmd.redirects_to@.len() as int); } } proof { chk_exec_only_0_1_2_open(*k); } proof { chk_stdin(*k, *cmd, idx_cmd as int, w); } proof { chk_stdout(*k, *cmd, idx_cmd as int, pipes_count as int, w, options.capture_output); } proof { chk_stderr(*k, *cmd, idx_cmd as int, pipes_count as int, w, options.capture_output); } proof { chk_stdout_carved(*k, *cmd, idx_cmd as int, pipes_count as int, w, options.capture_output); } proof { chk_stderr_carved(*k, *cmd, idx_cmd as int, pipes_count as int, w, options.capture_output); } proof { chk_job_signals_default(sg); } vx_execve_region(cl, cmd, Tracked(k));', regex=True, balanced=True, required=False, rule='R10',
       why='argv/envp CString construction (argv by the known idiom), PATH lookup (exit 127 when not found) and execve: one opaque region; its REQUIRES carry the C02/C04/C08 descriptor state'),
    Rw(r'let mut c_envs: Vec<_> = env::vars\(\)[\s\S]*?match execve\(&c_program, &c_args, &c_envs\) \{',
       'proof { chk_argv(false); } proof { lemma_lits(); if !has_amp(cmd.redirects_to@) { lemma_files_vs_redirs(base_out(idx_cmd as int, pipes_count as int, w.pobj, options.capture_output, w.cap_out), base_err(idx_cmd as int, pipes_count as int, options.capture_output, w.cap_err), Obj::Inherited(1), Obj::Inherited(2), cmd.redirects_to@, cmd.redirects_to@.len() as int); } } proof { chk_exec_only_0_1_2_open(*k); } proof { chk_stdin(*k, *cmd, idx_cmd as int, w); } proof { chk_stdout(*k, *cmd, idx_cmd as int, pipes_count as int, w, options.capture_output); } proof { chk_stderr(*k, *cmd, idx_cmd as int, pipes_count as int, w, options.capture_output); } proof { chk_stdout_carved(*k, *cmd, idx_cmd as int, pipes_count as int, w, options.capture_output); } proof { chk_stderr_carved(*k, *cmd, idx_cmd as int, pipes_count as int, w, options.capture_output); } proof { chk_job_signals_default(sg); } vx_execve_region(cl, cmd, Tracked(k));', regex=True, balanced=True, required=False, rule='R10',
       why='as above, but argv is NOT built by the known idiom: its content is unknown'),
    Rw('vx_execve_region(cl, cmd, Tracked(k));', 'vx_execve_region(cl, cmd, Tracked(k));', rule='R10', why='(anchor check: the exec region must have been found)'),
    Rw(r'\bunsafe\s*\{', '{', regex=True, required=False, rule='R14', why='unsafe marker removed; the operations inside are shims'),
    Rw('libc::getpid()', 'vx_getpid(Tracked(k))', required=False, rule='R8'),
    Rw(r'libc::setpgid\(', 'vx_setpgid(', regex=True, required=False, rule='R8'),
    Rw('cl.commands.get(idx_cmd).unwrap()', '&cl.commands[idx_cmd]', required=False, rule='R12', why='slice::get(i).unwrap() is indexing'),
    Rw(r'redirect_from\.clone\(\)\.(\d)', r'redirect_from.\1', regex=True, required=False, rule='R7', why='clone of a tuple only to read one field'),
    Rw(r'File::from_raw_fd\(', 'vx_file_from_raw_fd(', regex=True, required=False, rule='R8', why='File::from_raw_fd: the File owns the descriptor (Drop closes it: R9)'),
    Rw(r'redirect_from\.1(?:\.clone\(\))?\.as_bytes\(\)', 'vx_as_bytes(&redirect_from.1)', regex=True, required=False, rule='R12'),
    Rw('b"\\n"', 'vx_nl_bytes()', required=False, rule='R12'),
    Rw('child.into()', 'child', required=False, rule='R12', why='Pid -> i32'),
    Rw('ForkResult::Parent { child, .. }', 'ForkResult::Parent { child }', required=False, rule='R12'),
    Rw(r'process::exit\(', 'vx_exit(', regex=True, required=False, rule='R8', why='std::process::exit: diverges'),
    Rw('shell::Shell', 'Shell', required=False, rule='R0'),
]

CTX = 'k.child && idx_cmd < cl.commands@.len() && pipes@.len() + 1 == cl.commands@.len() && pipes_count == pipes@.len() && layout(f0, pipes@, idx_cmd as int, w, *fds_capture_stdout, *fds_capture_stderr) && ids_distinct(w) && child_start(f1, f0, fds_stdin, w) && (options.capture_output ==> fds_capture_stdout.is_some() && fds_capture_stderr.is_some()) && (!options.capture_output ==> fds_capture_stdout.is_none() && fds_capture_stderr.is_none()) && cmd == &cl.commands@[idx_cmd as int] && (cmd.redirect_from.is_some() && cmd.redirect_from.unwrap().0@ == "<<<"@ ==> fds_stdin.is_some())'

release_stage_fds = Fn(C, 'release_stage_fds',
    pre_rewrites=[Rw('libs::close(', 'close(', rule='R0', required=False)],
    add_params='Tracked(k): Tracked<&mut Kernel>', ghost_args={'close': 'Tracked(k)'},
    requires=[('C05.pre.release.idx', 'idx_cmd <= pipes@.len()')],
    ensures=[('C02+C08+C11.release.exactly_the_descriptors_of_that_stage_are_closed',
              '(forall|fd: int| #[trigger] final(k).fds.contains_key(fd) <==> (old(k).fds.contains_key(fd) && !stage_key(fd, idx_cmd as int, pipes@, fds_stdin, captured_last_stage, *fds_capture_stdout, *fds_capture_stderr))) '
              '&& (forall|fd: int| final(k).fds.contains_key(fd) ==> #[trigger] final(k).fds[fd] == old(k).fds[fd]) '
              '&& (forall|fd: int| #[trigger] final(k).cloexec.contains(fd) ==> old(k).cloexec.contains(fd)) '
              '&& final(k).child == old(k).child && final(k).forks == old(k).forks && final(k).next_id == old(k).next_id && final(k).tty_pgrp == old(k).tty_pgrp '
              '&& final(k).pgrp == old(k).pgrp && final(k).self_pid == old(k).self_pid')])

run_single_program = Fn(C, 'run_single_program', ret='r', pre_rewrites=RSP_RW, file_drops=True,
    add_params='Ghost(w): Ghost<Wiring>, Tracked(k): Tracked<&mut Kernel>',
    ghost_args={'pipe': 'Tracked(k)', 'close': 'Tracked(k)', 'dup': 'Tracked(k)', 'dup2': 'Tracked(k)', 'fork': 'Tracked(k)', 'release_stage_fds': 'Tracked(k)', 'write_here_string': 'Ghost(redirect_from.1@), Ghost(fds.0 as int), Tracked(k)',
                'create_raw_fd_from_file': 'Tracked(k)', 'get_fd_from_file': 'Tracked(k)', 'vx_setpgid': 'Tracked(k)',
                'give_terminal_to': 'Tracked(k)', 'vx_file_from_raw_fd': 'Tracked(k)'},
    let_types={'fds_stdin': 'Option<(RawFd, RawFd)>'},
    requires=[('C05.pre.rsp.idx', 'idx_cmd < cl.commands@.len() && pipes@.len() + 1 == cl.commands@.len() && pipes@.len() < 0x7fff_ffff'),
              ('C05.pre.rsp.cmds_nonempty', 'forall|i: int| 0 <= i < cl.commands@.len() ==> (#[trigger] cl.commands@[i]).tokens@.len() > 0'),
              ('C08.pre.rsp.shell_table_is_stage_layout',
               '!old(k).child && old(k).cloexec =~= Set::<int>::empty() && layout(old(k).fds, pipes@, idx_cmd as int, w, *fds_capture_stdout, *fds_capture_stderr) && ids_distinct(w) && w.hs == old(k).next_id'),
              ('C08.pre.rsp.capture_pipes_iff_capture',
               '(options.capture_output && !spec_single_builtin(*cl) ==> fds_capture_stdout.is_some() && fds_capture_stderr.is_some()) '
               '&& (!(options.capture_output && !spec_single_builtin(*cl)) ==> fds_capture_stdout.is_none() && fds_capture_stderr.is_none())')],
    ensures=[
        ('C08.rsp.still_the_shell', '!final(k).child && final(k).cloexec =~= Set::<int>::empty()'),
        ('C02.rsp.stage_forked_exactly_once',
         '(final(k).forks == old(k).forks.push(r as int) && r > 0) || (final(k).forks == old(k).forks && (r < 0 || spec_single_builtin(*cl)))'),
        # C08: a stage that is not a lone builtin and could not be started is reported as such (negative), never as a process id
        ('C08.rsp.failed_start_is_reported', '!spec_single_builtin(*cl) ==> (r > 0) == (final(k).forks.len() > old(k).forks.len())'),
        ('C08.rsp.shell_table_after_started_stage', '!spec_single_builtin(*cl) && final(k).forks != old(k).forks ==> ' + 'if (idx_cmd as int) < pipes@.len() { layout(final(k).fds, pipes@, idx_cmd + 1, w, *fds_capture_stdout, *fds_capture_stderr) } else { std3(final(k).fds) }'),
        ('C08.rsp.shell_table_after_failed_start', '!spec_single_builtin(*cl) && final(k).forks == old(k).forks ==> ' + 'if (idx_cmd as int) < pipes@.len() { layout(final(k).fds, pipes@, idx_cmd + 1, w, *fds_capture_stdout, *fds_capture_stderr) } else { std3(final(k).fds) }'),
        ('C08.rsp.shell_table_after_single_builtin', 'spec_single_builtin(*cl) ==> std3(final(k).fds)'),
        ('C07.rsp.group_id_is_first_stage_pid',
         '(idx_cmd == 0 && final(k).forks != old(k).forks ==> *final(pgid) == r) && (idx_cmd > 0 ==> *final(pgid) == *old(pgid)) && final(k).pgrp == old(k).pgrp'),
        ('C07.rsp.terminal_only_to_foreground_first_stage',
         'final(k).tty_pgrp != old(k).tty_pgrp ==> *final(term_given) && idx_cmd == 0 && final(k).tty_pgrp == r as int && r > 0 && !cl.background && options.isatty && old(sh).has_terminal'),
        # ... and the converse: the first stage of a foreground pipeline on a terminal IS offered the terminal, whatever kind of stage it is (an external program or a
        # builtin in a forked copy): the flag reported to the caller says exactly whether the terminal is now that stage's
        ('C07.rsp.the_first_stage_of_a_foreground_pipeline_is_offered_the_terminal',
         'idx_cmd == 0 && r > 0 && final(k).forks != old(k).forks && !cl.background && options.isatty && old(sh).has_terminal ==> *final(term_given) == (final(k).tty_pgrp == r as int)'),
        ('C07.rsp.single_builtin_keeps_terminal', 'spec_single_builtin(*cl) ==> final(k).tty_pgrp == old(k).tty_pgrp && *final(term_given) == *old(term_given)'),
        ('C07.rsp.term_given_flag_monotone', '*old(term_given) ==> *final(term_given) || idx_cmd == 0'),
    ],
    loops={
        'hdr:idx_cmd + 1..pipes_count': Loop(invariant=[
            ('C02+C08.inv.rsp.child_ctx1', CTX),
            ('C02+C08.inv.rsp.right_closed', 'k.cloexec =~= Set::<int>::empty() && k.fds == close_range(f1, pipes@, idx_cmd + 1, __I as int) && __LO == idx_cmd + 1 && __HI == pipes_count'),
        ]),
        'hdr:&cmd.redirects_to': Loop(invariant=[
            ('C02+C08.inv.rsp.child_ctx2', CTX),
            ('C08.inv.rsp.redir_dom_std', 'k.fds.contains_key(0) && k.fds.contains_key(1) && k.fds.contains_key(2) && !k.cloexec.contains(0) && !k.cloexec.contains(1) && !k.cloexec.contains(2)'),
            ('C08.inv.rsp.redir_dom_only',
             'forall|fd: int| (#[trigger] k.fds.contains_key(fd) && !k.cloexec.contains(fd)) ==> (fd == 0 || fd == 1 || fd == 2)'),
            ('C02+C04.inv.rsp.stdin', 'k.fds[0] == want_stdin(*cmd, idx_cmd as int, w.pobj, w.hs)'),
            # redirections are applied left to right on top of the pipeline / capture wiring, on every stage alike
            ('C02+C04.inv.rsp.out_err_left_to_right',
             '(k.fds[1], k.fds[2]) == apply_redirs('
             'base_out(idx_cmd as int, pipes_count as int, w.pobj, options.capture_output, w.cap_out), '
             'base_err(idx_cmd as int, pipes_count as int, options.capture_output, w.cap_err), cmd.redirects_to@, __I as int)'),
        ]),
    },
    hints={
        'fn-entry': 'RAW: let tracked mut sg = new_siglog();',
        'before-call:fork': 'RAW: let ghost f0 = old(k).fds; let ghost f1 = k.fds; proof { chk_sigpipe_default(sg); }',
        'before-call:try_run_builtin_in_subprocess': 'chk_job_signals_default(sg);',
        # C09: the NAME=v words a line starts with go into the environment of the command they stand in front of -- the first stage -- and of no other
        'before-text:proof { chk_argv(': 'LABEL:C09.rsp.a_prefix_assignment_reaches_the_first_stage_only: assert((idx_cmd == 0 ==> prefix@ == cl.envs@) && (idx_cmd > 0 ==> prefix@ == Map::<String, String>::empty()));',
        'before-text:// (in parent) close unused pipe ends': 'LABEL:C02+C08.rsp.the_shell_has_the_default_sigpipe_action_back_after_the_here_string: assert(!sg.ignored);',
        'before-call:has_redirect_from': 'lemma_lits();',
        'hdr:&cmd.redirects_to|body-entry': 'lemma_lits();',
        'hdr:idx_cmd + 1..pipes_count|exit': 'lemma_close_range(f1, pipes@, idx_cmd + 1, pipes@.len() as int); '
                                             'if (idx_cmd as int) < pipes@.len() { lemma_pkeys_split(pipes@, idx_cmd as int, pipes@.len() as int, 0); }',
    },
)


run_pipeline = Fn(C, 'run_pipeline', ret='r',
    pre_rewrites=[
        Rw('shell::Shell', 'Shell', required=False, rule='R0'),
        Rw(r'unsafe \{ libc::isatty\(1\) == 1 \}', 'vx_isatty1()', regex=True, rule='R8', why='libc::isatty(1): shim'),
        Rw('cl.envs.clone()', 'vx_clone_envs(&cl.envs)', rule='R7', why='HashMap clone: shim'),
        Rw(r'if let Some\(job\) = sh\.get_job_by_gid\(pgid\) \{', 'vx_print_bg_job(sh, pgid);', regex=True, balanced=True, rule='R3',
           why='prints "[id] gid" of the background job: I/O only'),
        Rw('jobc::wait_fg_job(', 'wait_fg_job(', required=False, rule='R0'),
    ],
    add_params='Tracked(k): Tracked<&mut Kernel>',
    ghost_args={'pipe': 'Tracked(k)', 'close': 'Tracked(k)',
                'run_single_program': 'Ghost(mk_wiring(base_id, pipes@.len() as int, k.next_id)), Tracked(k)', 'wait_fg_job': 'Tracked(&mut wl)'},
    let_types={'pipes': 'Vec<(RawFd, RawFd)>', 'fds_capture_stdout': 'Option<(RawFd, RawFd)>', 'fds_capture_stderr': 'Option<(RawFd, RawFd)>'},
    loop_kinds={'hdr:for fds in pipes': 'value', ('hdr:for fds in pipes', 'clone'): '{}'},
    requires=[('C08.pre.pipeline.shell_has_only_0_1_2', '!old(k).child && std3(old(k).fds) && old(k).cloexec =~= Set::<int>::empty()'),
              ('C05.pre.pipeline.cmds_nonempty', 'forall|i: int| 0 <= i < cl.commands@.len() ==> (#[trigger] cl.commands@[i]).tokens@.len() > 0'),
              ('C05.pre.pipeline.len', 'cl.commands@.len() < 0x7fff_fff0')],
    ensures=[
        ('C08.pipeline.still_the_shell', '!final(k).child && final(k).cloexec =~= Set::<int>::empty()'),
        ('C08.pipeline.shell_descriptors_unchanged', 'final(k).fds == old(k).fds'),
        ('C07.pipeline.terminal_given_only_if_reported',
         'final(k).tty_pgrp != old(k).tty_pgrp ==> r.0 && !cl.background && tty && final(k).tty_pgrp > 0'),
        ('C07.pipeline.shell_group_unchanged', 'final(k).pgrp == old(k).pgrp'),
        ('C02.pipeline.at_most_one_fork_per_stage', 'old(k).forks.len() <= final(k).forks.len() <= old(k).forks.len() + cl.commands@.len()'),
    ],
    loops={
        'hdr:for _ in 0..length - 1': Loop(invariant=[
            ('C02+C08.inv.pipeline.created', '!k.child && k.pgrp == old(k).pgrp && k.tty_pgrp == old(k).tty_pgrp && k.self_pid == old(k).self_pid && k.cloexec =~= Set::<int>::empty() && length == cl.commands@.len() && length > 0 && __HI == length - 1 && pipes@.len() <= __I && (!errored_pipes ==> pipes@.len() == __I) '
             '&& k.next_id == base_id + pipes@.len() && k.forks == old(k).forks '
             '&& layout(k.fds, pipes@, 0, mk_wiring(base_id, pipes@.len() as int, 0), None, None)'),
        ], ensures=[('C08.inv.pipeline.all_pipes_or_error', 'errored_pipes || pipes@.len() + 1 == length')]),
        'hdr:for fds in pipes': Loop(invariant=[
            ('C08.inv.pipeline.release_on_error', '!k.child && k.pgrp == old(k).pgrp && k.tty_pgrp == old(k).tty_pgrp && k.self_pid == old(k).self_pid && k.cloexec =~= Set::<int>::empty() && k.forks == old(k).forks && k.fds == close_range(f_err, __V@, 0, __I as int) '
             '&& layout(f_err, __V@, 0, mk_wiring(base_id, __V@.len() as int, 0), None, None)'),
        ]),
        'hdr:for fds in &pipes': Loop(invariant=[
            ('C08.inv.pipeline.release_on_capture_error', '!k.child && k.pgrp == old(k).pgrp && k.tty_pgrp == old(k).tty_pgrp && k.self_pid == old(k).self_pid && k.cloexec =~= Set::<int>::empty() && k.forks == old(k).forks && k.fds == close_range(f_err, pipes@, 0, __I as int) '
             '&& layout(f_err, pipes@, 0, w0, None, None)'),
        ]),
        'hdr:for i in 0..length': Loop(invariant=[
            ('C02+C08.inv.pipeline.stage_layout',
             '!k.child && k.cloexec =~= Set::<int>::empty() && length == cl.commands@.len() && pipes@.len() + 1 == length && __HI == length && length < 0x7fff_fff0 '
             '&& (forall|q: int| 0 <= q < cl.commands@.len() ==> (#[trigger] cl.commands@[q]).tokens@.len() > 0) '
             '&& options.capture_output == capture && (capture && !spec_single_builtin(*cl) ==> fds_capture_stdout.is_some() && fds_capture_stderr.is_some()) '
             '&& (!(capture && !spec_single_builtin(*cl)) ==> fds_capture_stdout.is_none() && fds_capture_stderr.is_none()) '
             '&& (if __I < length { layout(k.fds, pipes@, __I as int, mk_wiring(base_id, pipes@.len() as int, 0), fds_capture_stdout, fds_capture_stderr) } else { std3(k.fds) })'),
            ('C02.inv.pipeline.forks', 'old(k).forks.len() <= k.forks.len() <= old(k).forks.len() + __I'),
            # C08: the flag is set exactly when a stage (of a pipeline that is not a lone builtin) was not started
            ('C08.inv.pipeline.start_failed_iff_a_stage_was_not_forked', 'k.forks.len() <= __forks0 + __I && (!spec_single_builtin(*cl) ==> (start_failed <==> k.forks.len() < __forks0 + __I))'),
            ('C07.inv.pipeline.tty', 'k.pgrp == old(k).pgrp && (options.isatty ==> tty) && options.background == cl.background '
                                     '&& (k.tty_pgrp != old(k).tty_pgrp ==> term_given && !cl.background && tty && k.tty_pgrp > 0) && (__I == 0 ==> k.tty_pgrp == old(k).tty_pgrp) && (spec_single_builtin(*cl) ==> k.tty_pgrp == old(k).tty_pgrp)'),
        ]),
    },
    hints={
        'fn-entry': 'RAW: let ghost base_id = k.next_id;',
        'hdr:for _ in 0..length - 1|body-entry': 'assert forall|a: i32, b: i32| a != b && !k.fds.contains_key(a as int) && !k.fds.contains_key(b as int) implies '
            '#[trigger] layout(k.fds.insert(a as int, Obj::PipeR(base_id + pipes@.len())).insert(b as int, Obj::PipeW(base_id + pipes@.len())), pipes@.push((a, b)), 0, '
            'mk_wiring(base_id, (pipes@.len() + 1) as int, 0), None, None) by { lemma_layout_push(k.fds, pipes@, base_id, a, b); }',
        'hdr:for _ in 0..length - 1|exit': 'RAW: let ghost f_err = k.fds; let ghost w0 = mk_wiring(base_id, pipes@.len() as int, 0); proof { '
            'assert forall|a: i32, b: i32| a != b && !k.fds.contains_key(a as int) && !k.fds.contains_key(b as int) && layout(k.fds, pipes@, 0, w0, None, None) implies '
            'layout(#[trigger] k.fds.insert(a as int, Obj::PipeR(w0.cap_out)).insert(b as int, Obj::PipeW(w0.cap_out)), pipes@, 0, w0, Some((a, b)), None) by '
            '{ lemma_layout_cap(k.fds, pipes@, w0, None, a, b); } '
            'assert forall|a: i32, b: i32, c: i32, d: i32| c != d && layout(k.fds.insert(a as int, Obj::PipeR(w0.cap_out)).insert(b as int, Obj::PipeW(w0.cap_out)), pipes@, 0, w0, Some((a, b)), None) '
            '&& !k.fds.insert(a as int, Obj::PipeR(w0.cap_out)).insert(b as int, Obj::PipeW(w0.cap_out)).contains_key(c as int) '
            '&& !k.fds.insert(a as int, Obj::PipeR(w0.cap_out)).insert(b as int, Obj::PipeW(w0.cap_out)).contains_key(d as int) implies '
            'layout(#[trigger] k.fds.insert(a as int, Obj::PipeR(w0.cap_out)).insert(b as int, Obj::PipeW(w0.cap_out)).insert(c as int, Obj::PipeR(w0.cap_err)).insert(d as int, Obj::PipeW(w0.cap_err)), '
            'pipes@, 0, w0, Some((a, b)), Some((c, d))) by '
            '{ lemma_layout_cap(k.fds.insert(a as int, Obj::PipeR(w0.cap_out)).insert(b as int, Obj::PipeW(w0.cap_out)), pipes@, w0, Some((a, b)), c, d); } }',
        'hdr:for fds in pipes|exit': 'lemma_close_all(f_err, __V@, mk_wiring(base_id, __V@.len() as int, 0));',
        'hdr:for fds in &pipes|exit': 'lemma_close_all(f_err, pipes@, w0);',
        'hdr:for i in 0..length|body-entry': 'lemma_mk_wiring(base_id, pipes@.len() as int, k.next_id); '
            'lemma_layout_hs(k.fds, pipes@, __I as int, mk_wiring(base_id, pipes@.len() as int, k.next_id), mk_wiring(base_id, pipes@.len() as int, 0), fds_capture_stdout, fds_capture_stderr);',
        'before-call:run_single_program': 'RAW: let ghost nid = k.next_id;',
        'before-text:let mut start_failed = false;': 'RAW: let ghost __forks0 = k.forks.len(); let tracked mut wl = new_waitlog();',
        # C02 / C03: the status of a pipeline that was waited for is the one the wait reports, captured or not
        # C02: the shell resumes only after all stages have terminated -- every pipeline with a started foreground stage is waited for, captured or not
        'before-text:// a pipeline with a stage that could not be started has failed': 'LABEL:C02+C11.pipeline.started_foreground_stages_are_waited_for_also_when_captured: '
            'assert(fg_pids@.len() > 0 ==> wl.st.is_some()); ;;; '
            # C02 / C03: the status of a pipeline that was waited for is the one the wait reports, captured or not
            'LABEL:C02+C03+C11.pipeline.status_is_the_one_the_wait_reported_also_when_captured: assert(wl.st.is_some() ==> cmd_result.status as int == wl.st.unwrap());',
        # C08: descriptor exhaustion makes the pipeline fail with a non-zero status
        'before-text:(term_given, cmd_result)': 'LABEL:C08.pipeline.a_stage_that_could_not_be_started_gives_a_nonzero_status: '
            'assert(!spec_single_builtin(*cl) && k.forks.len() < __forks0 + length ==> cmd_result.status != 0);',
        'after-call:run_single_program': 'lemma_layout_hs(k.fds, pipes@, i + 1, mk_wiring(base_id, pipes@.len() as int, nid), mk_wiring(base_id, pipes@.len() as int, 0), fds_capture_stdout, fds_capture_stderr);',
    },
)

UNIT = Unit('U-FD', TEMPLATE, fns=[Fn('src/types.rs', 'new', impl='CommandResult'), Fn('src/types.rs', 'error', impl='CommandResult'), release_stage_fds, run_single_program, run_pipeline],
            types=[TypeItem('src/types.rs', 'struct', 'Command'), TypeItem('src/types.rs', 'struct', 'CommandLine'),
                   TypeItem('src/types.rs', 'struct', 'CommandResult'), TypeItem('src/types.rs', 'struct', 'CommandOptions')],
            props=('C02', 'C04', 'C08', 'C07', 'C05'))
TRUSTED = common.TRUSTED_STR + [
    'the kernel calls pipe / dup / dup2 / close / fork / setpgid / getpid / waitpid are shims over a ghost descriptor table and process table with their POSIX contracts (lowest free descriptor, the process id of a new child is not the id of an existing process group -- in particular not the foreground group of the terminal --, '
    'a child gets a copy of the table, close-on-exec not modelled because no descriptor of the shell carries it)',
    'the shell itself ignores SIGTSTP and SIGQUIT and has the default SIGPIPE action (main.rs, outside the verifier): the ghost SigLog starts from that; signal() succeeds',
    'the exec region (argv / envp construction, PATH lookup, execve) is one opaque shim whose REQUIRES carry the descriptor, process-group and signal state; the bytes of a text (str::as_bytes) are uninterpreted',
    'Write::write_all writes what it is given or reports an error; reading the capture pipes (read_to_string) is opaque',
]
