"""U-BSH: the `exit` and `source` builtins (C15): `exit N` ends the shell at once with N (255 for a non-number, 0 without an argument unless
jobs are left), and comes back only to complain; `source` runs the named file in the shell it was called in and reports the file's status."""
from vx.gen import Unit, Fn, TypeItem, Loop, Rw
from . import common

TEMPLATE = common.HEAD + common.STR_SHIMS + common.TOKEN_TYPES + r'''
//@TYPE Command
//@TYPE CommandLine
//@TYPE CommandResult
//@TYPE Job
pub struct Shell { pub jobs: HashMap<i32, Job>, pub previous_status: i32, pub exit_on_error: bool }
impl CommandResult {
//@FN CommandResult::new
}
#[verifier::external_body]
pub fn print_stderr_with_capture(info: &str, cr: &mut CommandResult, cl: &CommandLine, cmd: &Command, capture: bool)
    ensures final(cr).status == old(cr).status
{ unimplemented!() }

// ---- exit ----
// str::parse::<i32>: the value is uninterpreted, only whether there is one
pub uninterp spec fn spec_parse_i32(s: Seq<char>) -> Option<int>;
pub struct VxParseErr { pub e: i32 }
#[verifier::external_body]
pub fn vx_parse_i32(t: &str) -> (r: Result<i32, VxParseErr>)
    ensures match r { Ok(x) => spec_parse_i32(t@) == Some(x as int), Err(_) => spec_parse_i32(t@).is_none() }
{ unimplemented!() }
// the status the shell must end with, given the words of the `exit` command
pub open spec fn exit_status_wanted(tokens: Seq<Token>) -> int {
    if tokens.len() == 2 { match spec_parse_i32(tokens[1].1@) { Some(x) => x, None => 255 } } else { 0 }
}
// std::process::exit: ends the process with that status and never returns
#[verifier::external_body]
pub fn vx_process_exit(code: i32, Ghost(want): Ghost<int>)
    requires code as int == want //@L C15.exit.the_shell_ends_with_the_number_given_255_for_a_non_number_0_without_one
    ensures false
{ std::process::exit(code) }
// HashMap iteration through a snapshot: every entry once, unspecified order
#[verifier::external_body]
pub fn vx_job_values(m: &HashMap<i32, Job>) -> (r: Vec<Job>)
    ensures r@.len() == m@.dom().len(), forall|i: int| 0 <= i < r@.len() ==> m@.contains_key((#[trigger] r@[i]).id) && m@[r@[i].id] == r@[i]
{ unimplemented!() }
pub open spec fn is_nohup(j: Job) -> bool { 6 <= j.cmd@.len() && j.cmd@.subrange(0, 6) == "nohup "@ }
pub open spec fn a_job_is_left(m: Map<i32, Job>) -> bool { exists|j: Job| m.contains_key(j.id) && m[j.id] == j && !is_nohup(j) }

// ---- source ----
pub uninterp spec fn spec_args(tokens: Seq<Token>) -> Seq<String>;
// parser_line::tokens_to_args (contract in U-TOK)
#[verifier::external_body]
pub fn tokens_to_args(tokens: &Tokens) -> (r: Vec<String>) ensures r@ == spec_args(tokens@) { unimplemented!() }
pub ghost struct SrcLog { pub ran: Option<int> }
// scripting::run_script: runs the file args[1] in THIS shell (it gets the shell itself, by &mut) with the argument vector it is given
#[verifier::external_body]
pub fn run_script(sh: &mut Shell, args: &Vec<String>, Ghost(words): Ghost<Seq<String>>, Tracked(sl): Tracked<&mut SrcLog>) -> (r: i32)
    requires args@.len() >= 2, //@L C05+C15.source.a_file_is_named
        args@ == words //@L C15.source.the_script_gets_the_words_of_the_command_as_its_arguments
    ensures final(sl).ran == Some(r as int)
{ unimplemented!() }
// ---- set (C15: "after `set -e` the first failing command ends the script"): the builtin turns the flag on exactly when the option parser reports -e, and never turns it off ----
pub struct OptMain { pub exit_on_error: bool }
pub struct VxOptErr { pub e: i32 }
// structopt's parser over the words of the command (outside the verifier): the options it reports, or an error / usage text
pub uninterp spec fn spec_set_opts(args: Seq<String>) -> Option<OptMain>;
#[verifier::external_body]
pub fn vx_set_opts(args: Vec<String>) -> (r: Result<OptMain, VxOptErr>)
    ensures match r { Ok(o) => spec_set_opts(args@) == Some(o), Err(_) => spec_set_opts(args@).is_none() }
{ unimplemented!() }
#[verifier::external_body]
pub fn vx_opt_err_text(e: &VxOptErr) -> (r: String) { unimplemented!() }
#[verifier::external_body]
pub fn print_stdout_with_capture(info: &str, cr: &mut CommandResult, cl: &CommandLine, cmd: &Command, capture: bool)
    ensures final(cr).status == old(cr).status
{ unimplemented!() }
//@FN set_run
//@FN exit_run
//@FN source_run
''' + common.TAIL

exit_run = Fn('src/builtins/exit.rs', 'run', rename='exit_run', ret='r',
    pre_rewrites=[
        Rw('_code.parse::<i32>()', 'vx_parse_i32(_code)', rule='R12', why='str::parse::<i32> through a shim (value uninterpreted)'),
        Rw('process::exit(', 'vx_process_exit(', rule='R8', why='process::exit through a shim that never returns'),
        Rw('cmd.tokens.clone()', 'vx_clone_tokens(&cmd.tokens)', required=False, rule='R7'),
        Rw('for (_i, job) in sh.jobs.iter() {', 'let __jv = vx_job_values(&sh.jobs); for job in __jv.iter() {', rule='R12',
           why='HashMap iteration through a snapshot shim: every entry once, unspecified order'),
    ],
    ghost_args={'vx_process_exit': 'Ghost(exit_status_wanted(cmd.tokens@))'},
    ensures=[
        # `exit` comes back (the shell goes on) only to complain: too many arguments, or no argument while jobs are left
        ('C15.exit.the_shell_goes_on_only_after_too_many_arguments_or_with_jobs_left',
         'cmd.tokens@.len() > 2 || (cmd.tokens@.len() != 2 && a_job_is_left(sh.jobs@))'),
    ],
    loops={0: Loop(invariant=[('C15.inv.exit.snapshot', 'tokens@.len() == cmd.tokens@.len() && tokens@.len() < 2 '
                               '&& forall|i: int| 0 <= i < __jv@.len() ==> sh.jobs@.contains_key((#[trigger] __jv@[i]).id) && sh.jobs@[__jv@[i].id] == __jv@[i]')])},
    hints={'before-text:let mut info = String::new();': 'assert(!is_nohup(*job)); assert(sh.jobs@.contains_key(job.id) && sh.jobs@[job.id] == *job);'},
)

source_run = Fn('src/builtins/source.rs', 'run', rename='source_run', ret='r',
    pre_rewrites=[
        Rw('parsers::parser_line::tokens_to_args(', 'tokens_to_args(', rule='R0'),
        Rw('scripting::run_script(', 'run_script(', rule='R0'),
    ],
    add_params='Tracked(sl): Tracked<&mut SrcLog>',
    ghost_args={'run_script': 'Ghost(spec_args(cmd.tokens@)), Tracked(sl)'},
    requires=[('C15.pre.source.fresh_log', 'old(sl).ran.is_none()')],
    ensures=[
        ('C15.source.the_status_is_that_of_the_file_run',
         'match final(sl).ran { Some(st) => r.status as int == st, None => spec_args(cmd.tokens@).len() < 2 }'),
    ],
)

set_run = Fn('src/builtins/set.rs', 'run', rename='set_run', ret='r', props=('C15',),
    pre_rewrites=[Rw('parsers::parser_line::tokens_to_args(tokens)', 'tokens_to_args(tokens)', rule='R0'),
                  Rw('let opt = OptMain::from_iter_safe(args);', 'let opt = vx_set_opts(args);', rule='R10', why='structopt option parser: opaque (which options the words spell)'),
                  Rw('let info = format!("{}", e);', 'let info = vx_opt_err_text(&e);', rule='R4', why='usage / error text (opaque)'),
                  Rw(r'let show_usage = args\.len\(\) > 1 && \(args\[1\] == "-h" \|\| args\[1\] == "--help"\);', 'let show_usage = args.len() > 1 && (vx_streq(&args[1], &"-h") || vx_streq(&args[1], &"--help"));', regex=True, rule='R5', required=False)],
    ensures=[('C15.set.the_flag_is_on_after_set_e_with_status_0_and_set_never_turns_it_off',
              'match spec_set_opts(spec_args(cmd.tokens@)) { Some(o) => if o.exit_on_error { final(sh).exit_on_error && r.status == 0 } else { final(sh).exit_on_error == old(sh).exit_on_error }, '
              'None => final(sh).exit_on_error == old(sh).exit_on_error }'),
             ('C15.set.nothing_else_of_the_shell_changes', 'final(sh).jobs == old(sh).jobs && final(sh).previous_status == old(sh).previous_status')],
)
UNIT = Unit('U-BSH', TEMPLATE,
            fns=[set_run, exit_run, source_run, Fn('src/types.rs', 'new', impl='CommandResult', ret='r', ensures=[('C15.cr.new', 'r.status == 0')])],
            types=[TypeItem('src/types.rs', 'struct', 'Command'), TypeItem('src/types.rs', 'struct', 'CommandLine'), TypeItem('src/types.rs', 'struct', 'CommandResult'),
                   TypeItem('src/types.rs', 'struct', 'Job')],
            props=('C15', 'C05'))
TRUSTED = common.TRUSTED_STR + [
    'set: the structopt option parser is opaque (which options the words of the command spell is uninterpreted); the builtin turns exit_on_error on exactly when the parser reports -e',
    'std::process::exit ends the process with the status given and never returns (shim vx_process_exit, `ensures false`)',
    'str::parse::<i32> is uninterpreted: which texts are numbers, and which number, is exercised by the bounded cases only',
    'scripting::run_script and parser_line::tokens_to_args are external here (run_script is under contract in U-SCRIPT from the text of the file on -- locating and reading the file is an opaque shim there; tokens_to_args has its contract in U-TOK)',
    'that `source` runs the file in the calling shell rests on the type: run_script gets the one &mut Shell the builtin was given',
]
