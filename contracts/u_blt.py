"""U-BLT: core::try_run_builtin: a builtin captures its output only as the LAST stage of a captured pipeline (C02, C11),
and at most one builtin runs per call; safety of the dispatch (C05)."""
from vx.gen import Unit, Fn, TypeItem, Loop, Rw
from . import common

TEMPLATE = common.HEAD + common.STR_SHIMS + common.TOKEN_TYPES + r'''
//@TYPE Command
//@TYPE CommandLine
//@TYPE CommandResult
pub struct Shell { pub previous_status: i32 }

// ghost: the capture flag every builtin body was entered with
pub ghost struct BuiltinLog { pub flags: Seq<bool> }
// any builtins::<name>::run (bodies: U-ENV for cd / unset, U-BFD for how they print; the others are I/O)
#[verifier::external_body]
pub fn vx_builtin_run(sh: &mut Shell, cl: &CommandLine, cmd: &Command, capture: bool, Tracked(lg): Tracked<&mut BuiltinLog>) -> (r: CommandResult)
    ensures final(lg).flags == old(lg).flags.push(capture)
{ unimplemented!() }

//@FN try_run_builtin
//@FN try_run_builtin_in_subprocess
''' + common.TAIL

RW = [Rw(r'builtins::\w+::run\(', 'vx_builtin_run(', regex=True, count=0, rule='R0',
         why='every builtins::<name>::run call goes to one external function that logs the capture flag it was given')]
LAST = '(capture && idx_cmd + 1 == cl.commands@.len())'
try_run_builtin = Fn('src/core.rs', 'try_run_builtin', ret='r', pre_rewrites=RW,
    add_params='Tracked(lg): Tracked<&mut BuiltinLog>', ghost_args={'vx_builtin_run': 'Tracked(lg)'},
    requires=[('C05.pre.blt.stage_has_a_word', 'idx_cmd < usize::MAX && forall|i: int| 0 <= i < cl.commands@.len() ==> (#[trigger] cl.commands@[i]).tokens@.len() > 0')],
    ensures=[
        ('C02+C11.blt.only_the_last_stage_of_a_captured_pipeline_captures',
         '(final(lg).flags == old(lg).flags && r.is_none()) || (final(lg).flags == old(lg).flags.push(' + LAST + ') && r.is_some())'),
    ])
in_sub = Fn('src/core.rs', 'try_run_builtin_in_subprocess', ret='r',
    add_params='Tracked(lg): Tracked<&mut BuiltinLog>', ghost_args={'try_run_builtin': 'Tracked(lg)'},
    requires=[('C05.pre.blt.stage_has_a_word2', 'idx_cmd < usize::MAX && forall|i: int| 0 <= i < cl.commands@.len() ==> (#[trigger] cl.commands@[i]).tokens@.len() > 0')],
    ensures=[('C02+C11.blt.subprocess_builtin_same_rule',
              'final(lg).flags == old(lg).flags || final(lg).flags == old(lg).flags.push(' + LAST + ')')])

UNIT = Unit('U-BLT', TEMPLATE, fns=[try_run_builtin, in_sub],
            types=[TypeItem('src/types.rs', 'struct', 'Command'), TypeItem('src/types.rs', 'struct', 'CommandLine'), TypeItem('src/types.rs', 'struct', 'CommandResult')],
            props=('C02', 'C11', 'C05'))
TRUSTED = common.TRUSTED_STR + [
    'the builtin bodies are external here: only the capture flag they are entered with is recorded',
    'that a builtin given capture=false writes to its stdout descriptor (the pipe to the next stage) is U-BFD plus kernel behaviour',
]
