"""U-BLT: core::try_run_builtin: a builtin captures its output only as the LAST stage of a captured pipeline (C02, C11),
and at most one builtin runs per call; safety of the dispatch (C05)."""
from vx.gen import Unit, Fn, TypeItem, Loop, Rw
from . import common

TEMPLATE = common.HEAD + common.STR_SHIMS + common.TOKEN_TYPES + r'''
//@TYPE Command
//@TYPE CommandLine
//@TYPE CommandResult
pub struct Shell { pub previous_status: i32 }

// ghost: the capture flag every builtin body was entered with
pub ghost struct BuiltinLog { pub flags: Seq<bool> }
// any builtins::<name>::run (bodies: U-ENV for cd / unset, U-BFD for how they print; the others are I/O)
#[verifier::external_body]
pub fn vx_builtin_run(sh: &mut Shell, cl: &CommandLine, cmd: &Command, capture: bool, Tracked(lg): Tracked<&mut BuiltinLog>) -> (r: CommandResult)
    ensures final(lg).flags == old(lg).flags.push(capture)
{ unimplemented!() }

impl CommandResult {
//@FN CommandResult::error
}
// opening a redirection target (tools::create_raw_fd_from_file): whether it can be opened is the file system's answer
pub uninterp spec fn spec_openable(name: Seq<char>) -> bool;
// ghost: how many descriptors this call holds open (C08: the pre-check of the redirection targets gives back every descriptor it opens)
pub ghost struct FdBal { pub open: int }
#[verifier::external_body]
pub fn create_raw_fd_from_file(file_name: &str, append: bool, Tracked(fb): Tracked<&mut FdBal>) -> (r: Result<i32, String>)
    ensures match r { Ok(_) => spec_openable(file_name@) && final(fb).open == old(fb).open + 1, Err(_) => !spec_openable(file_name@) && final(fb).open == old(fb).open }
{ unimplemented!() }
// opening the `<` file (tools::get_fd_from_file: -1 when it cannot be opened, with a message)
pub uninterp spec fn spec_readable(name: Seq<char>) -> bool;
#[verifier::external_body]
pub fn get_fd_from_file(file_name: &str, Tracked(fb): Tracked<&mut FdBal>) -> (r: i32)
    ensures (r == -1) == !spec_readable(file_name@), final(fb).open == old(fb).open + (if r == -1 { 0int } else { 1int })
{ unimplemented!() }
#[verifier::external_body]
pub fn close(fd: i32, Tracked(fb): Tracked<&mut FdBal>) -> (r: i32) ensures final(fb).open == old(fb).open - 1 { unimplemented!() }
pub open spec fn file_target(t: Redirection) -> bool { !(t.2@.len() > 0 && t.2@[0] == '&') }
pub open spec fn all_openable(v: Seq<Redirection>, upto: int) -> bool { forall|i: int| 0 <= i < upto && file_target(#[trigger] v[i]) ==> spec_openable(v[i].2@) }

//@FN try_run_builtin
//@FN try_run_builtin_in_subprocess
''' + common.TAIL

RW = [Rw(r'builtins::\w+::run\(', 'vx_builtin_run(', regex=True, count=0, rule='R0',
         why='every builtins::<name>::run call goes to one external function that logs the capture flag it was given'),
      Rw('tools::create_raw_fd_from_file(', 'create_raw_fd_from_file(', required=False, rule='R0'),
      Rw('tools::get_fd_from_file(', 'get_fd_from_file(', required=False, rule='R0'),
      Rw(r'\bunsafe\s*\{', '{', regex=True, required=False, rule='R14'),
      Rw('libc::close(', 'close(', required=False, rule='R8')]
LAST = '(capture && idx_cmd + 1 == cl.commands@.len())'
try_run_builtin = Fn('src/core.rs', 'try_run_builtin', ret='r', pre_rewrites=RW,
    add_params='Tracked(lg): Tracked<&mut BuiltinLog>, Tracked(fb): Tracked<&mut FdBal>',
    ghost_args={'vx_builtin_run': 'Tracked(lg)', 'create_raw_fd_from_file': 'Tracked(fb)', 'get_fd_from_file': 'Tracked(fb)', 'close': 'Tracked(fb)'},
    requires=[('C05.pre.blt.stage_has_a_word', 'idx_cmd < usize::MAX && forall|i: int| 0 <= i < cl.commands@.len() ==> (#[trigger] cl.commands@[i]).tokens@.len() > 0')],
    ensures=[
        ('C02+C11.blt.only_the_last_stage_of_a_captured_pipeline_captures',
         '(final(lg).flags == old(lg).flags) || (final(lg).flags == old(lg).flags.push(' + LAST + ') && r.is_some())'),
        # C04 for builtins: a target that cannot be opened fails the command with a non-zero status instead of running it
        ('C04.blt.unopenable_target_fails_the_builtin_without_running_it',
         'idx_cmd < cl.commands@.len() && !all_openable(cl.commands@[idx_cmd as int].redirects_to@, cl.commands@[idx_cmd as int].redirects_to@.len() as int) '
         '==> final(lg).flags == old(lg).flags && (match r { Some(c) => c.status != 0, None => false })'),
        # C08: whatever the outcome, every descriptor the pre-check opened is closed again
        ('C08.blt.the_pre_check_gives_back_every_descriptor_it_opens', 'final(fb).open == old(fb).open'),
        ('C04.blt.unreadable_input_file_fails_the_builtin_without_running_it',
         'idx_cmd < cl.commands@.len() && (match cl.commands@[idx_cmd as int].redirect_from { Some(t) => t.0@ == "<"@ && !spec_readable(t.1@), None => false }) '
         '==> final(lg).flags == old(lg).flags && (match r { Some(c) => c.status != 0, None => false })'),
    ],
    # (continued below: the `<` file)
    loops={0: Loop(invariant=[('C04+C08.inv.blt.targets_so_far_openable', 'fb.open == old(fb).open && lg.flags == old(lg).flags && idx_cmd < cl.commands@.len() && *cmd == cl.commands@[idx_cmd as int] && all_openable(cmd.redirects_to@, __I as int)')])},
    )
in_sub = Fn('src/core.rs', 'try_run_builtin_in_subprocess', ret='r',
    add_params='Tracked(lg): Tracked<&mut BuiltinLog>, Tracked(fb): Tracked<&mut FdBal>', ghost_args={'try_run_builtin': 'Tracked(lg), Tracked(fb)'},
    requires=[('C05.pre.blt.stage_has_a_word2', 'idx_cmd < usize::MAX && forall|i: int| 0 <= i < cl.commands@.len() ==> (#[trigger] cl.commands@[i]).tokens@.len() > 0')],
    # C11 / C02: in a forked stage the builtin writes to its own descriptor 1 (for the last stage of a captured pipeline that is the capture pipe): never captured in-process
    ensures=[('C02+C11.blt.a_builtin_in_a_forked_stage_is_never_run_in_capture_mode',
              'final(lg).flags == old(lg).flags || final(lg).flags == old(lg).flags.push(false)')])

UNIT = Unit('U-BLT', TEMPLATE, fns=[try_run_builtin, in_sub, Fn('src/types.rs', 'error', impl='CommandResult', ret='r', ensures=[('C04.cr.error_status', 'r.status == 1')])],
            types=[TypeItem('src/types.rs', 'struct', 'Command'), TypeItem('src/types.rs', 'struct', 'CommandLine'), TypeItem('src/types.rs', 'struct', 'CommandResult')],
            props=('C02', 'C11', 'C04', 'C08', 'C05'))
TRUSTED = common.TRUSTED_STR + [
    'the builtin bodies are external here: only the capture flag they are entered with is recorded',
    'that a builtin given capture=false writes to its stdout descriptor (the pipe to the next stage) is U-BFD plus kernel behaviour',
]
