"""U-EXP2: alias, tilde and parameter expansion passes and the alias table (C17, C10, C12, C13, C01, C05)."""
from vx.gen import Unit, Fn, TypeItem, Loop, Rw
from . import common

TEMPLATE = common.HEAD + common.STR_SHIMS + common.TOKEN_TYPES + r'''
//@TYPE LineInfo
//@TYPE Job
//@TYPE Shell

pub open spec fn unq(t: Token) -> bool { t.0@.len() == 0 }
pub open spec fn tv(t: Token) -> (Seq<char>, Seq<char>) { tok_view(t) }
pub open spec fn tsv(v: Seq<Token>) -> Seq<(Seq<char>, Seq<char>)> { toks_view(v) }
pub type TV = (Seq<char>, Seq<char>);

// ---- HashMap<String,String> through shims whose contracts are stated over the string VIEWS (assumed std contracts) ----
pub uninterp spec fn smap(m: HashMap<String, String>) -> Map<Seq<char>, Seq<char>>;
// HashMap iteration through a snapshot: every entry exactly once (distinct keys), unspecified order
#[verifier::external_body]
pub fn vx_hm_entries(m: &HashMap<String, String>) -> (r: Vec<(String, String)>)
    ensures r@.len() == smap(*m).dom().len(),
        forall|i: int| 0 <= i < r@.len() ==> smap(*m).contains_key((#[trigger] r@[i]).0@) && smap(*m)[r@[i].0@] == r@[i].1@,
        forall|i: int, j: int| 0 <= i < j < r@.len() ==> (#[trigger] r@[i]).0@ != (#[trigger] r@[j]).0@
{ unimplemented!() }
// every definition of the table is in the list, once, with its value
pub open spec fn lists_all(m: Map<Seq<char>, Seq<char>>, l: Seq<(String, String)>) -> bool {
    l.len() == m.dom().len()
    && (forall|i: int| 0 <= i < l.len() ==> m.contains_key((#[trigger] l[i]).0@) && m[l[i].0@] == l[i].1@)
    && (forall|i: int, j: int| 0 <= i < j < l.len() ==> (#[trigger] l[i]).0@ != (#[trigger] l[j]).0@)
}
#[verifier::external_body]
pub fn vx_hm_insert(m: &mut HashMap<String, String>, k: String, v: String)
    ensures smap(*final(m)) == smap(*old(m)).insert(k@, v@)
{ m.insert(k, v); }
#[verifier::external_body]
pub fn vx_hm_contains(m: &HashMap<String, String>, k: &str) -> (r: bool)
    ensures r == smap(*m).contains_key(k@)
{ m.contains_key(k) }
#[verifier::external_body]
pub fn vx_hm_remove(m: &mut HashMap<String, String>, k: &str) -> (r: Option<String>)
    ensures smap(*final(m)) == smap(*old(m)).remove(k@), r.is_some() == smap(*old(m)).contains_key(k@),
        r.is_some() ==> r.unwrap()@ == smap(*old(m))[k@],
{ m.remove(k) }
#[verifier::external_body]
pub fn vx_hm_get<'a>(m: &'a HashMap<String, String>, k: &str) -> (r: Option<&'a String>)
    ensures r.is_some() == smap(*m).contains_key(k@), r.is_some() ==> r.unwrap()@ == smap(*m)[k@],
{ m.get(k) }

// tokens[i].1 = s  (IndexMut + field assignment)
#[verifier::external_body]
pub fn vx_set_token_text(tokens: &mut Tokens, i: usize, s: String)
    requires i < old(tokens)@.len()
    ensures final(tokens)@.len() == old(tokens)@.len(),
        forall|k: int| 0 <= k < old(tokens)@.len() && k != i ==> final(tokens)@[k] == old(tokens)@[k],
        final(tokens)@[i as int].0 == old(tokens)@[i as int].0, final(tokens)@[i as int].1@ == s@,
{ tokens[i].1 = s; }

// tokens[i].0 = s  (IndexMut + field assignment)
#[verifier::external_body]
pub fn vx_set_token_tag(tokens: &mut Tokens, i: usize, s: String)
    requires i < old(tokens)@.len()
    ensures final(tokens)@.len() == old(tokens)@.len(),
        forall|k: int| 0 <= k < old(tokens)@.len() && k != i ==> final(tokens)@[k] == old(tokens)@[k],
        final(tokens)@[i as int].1 == old(tokens)@[i as int].1, final(tokens)@[i as int].0@ == s@,
{ tokens[i].0 = s; }

// ---- externals: regex-based helpers (uninterpreted) ----
// the gate env_in_word(text, quoted): `quoted` = the word was written in double quotes (there a `'` is an ordinary character: C10, "q='$V'")
pub uninterp spec fn spec_env_in_word(t: Seq<char>, q: bool) -> bool;
pub open spec fn is_dq(sep: Seq<char>) -> bool { sep == "\""@ }
pub open spec fn has_op(s: Seq<char>) -> bool { s.contains('|') || s.contains('&') || s.contains('<') || s.contains('>') }
// which words expand_env may touch, and what one word may look like afterwards
pub open spec fn env_elig(t: Token) -> bool { t.0@ != "`"@ && t.0@ != "'"@ && t.0@ != "\\"@ && spec_env_in_word(t.1@, is_dq(t.0@)) }
pub open spec fn has_redir(s: Seq<char>) -> bool { s.contains('<') || s.contains('>') }
// a `<` or `>` WRITTEN in the word: outside the text of its command substitutions (which are command lines of their own)
pub open spec fn written_redir(t: Seq<char>) -> bool
    decreases t.len()
{
    match spec_subst(t) {
        Some(p) => if 0 <= p.0 && 0 <= p.1 && p.0 + p.1 < t.len() { has_redir(t.take(p.0)) || written_redir(t.skip(t.len() - p.1)) } else { has_redir(t) },
        None => has_redir(t),
    }
}
pub open spec fn env_tok_ok(sh: Shell, otoks: Seq<Token>, k: int, n: Token) -> bool {
    let o = otoks[k];
    &&& (!env_elig(o) ==> n.1@ == o.1@ && n.0@ == o.0@)
    // C10: the new text is the specified single-pass expansion of the old text
    &&& (env_elig(o) ==> n.1@ == env_expand(sh, o.1@, is_dq(o.0@)))
    // the tag is kept, or an unquoted word into which the value brought an operator character becomes double-quoted
    &&& (n.0@ == o.0@ || (o.0@.len() == 0 && n.0@ == "\""@ && !written_redir(o.1@) && has_op(n.1@)))
    // C13: an operator character in a word that is still unquoted was written there, it did not come from a value
    //      (exempt are only the untagged NAME=value words the line starts with: they are taken off the line as assignments before
    //      operators are looked for; a NAME=value shaped word anywhere else is an argument like any other)
    //      and the words in which the user wrote a redirection (`2>$F`): there `<` / `>` is syntax by intent)
    &&& (env_elig(o) && n.0@.len() == 0 && has_op(n.1@) ==> written_redir(o.1@) || assign_prefix(otoks, k))
}
pub open spec fn env_lo(b: Seq<(usize, String)>, m: int, n: int) -> int { if 0 <= m < b.len() { b[m].0 as int } else { n } }
pub open spec fn env_inb(b: Seq<(usize, String)>, k: int) -> bool { exists|m: int| 0 <= m < b.len() && (#[trigger] b[m]).0 as int == k }
pub open spec fn env_incr(b: Seq<(usize, String)>) -> bool { forall|m: int, n: int| 0 <= m < n < b.len() ==> (#[trigger] b[m]).0 < (#[trigger] b[n]).0 }
pub proof fn lemma_env_inb_push(b: Seq<(usize, String)>, e: (usize, String))
    ensures forall|k: int| #[trigger] env_inb(b.push(e), k) == (env_inb(b, k) || k == e.0 as int),
{
    assert forall|k: int| #[trigger] env_inb(b.push(e), k) == (env_inb(b, k) || k == e.0 as int) by {
        let b2 = b.push(e);
        if env_inb(b, k) { let m0 = choose|m: int| 0 <= m < b.len() && (#[trigger] b[m]).0 as int == k; assert(b2[m0].0 as int == k); }
        if k == e.0 as int { assert(b2[b.len() as int].0 as int == k); }
        if env_inb(b2, k) { let m1 = choose|m: int| 0 <= m < b2.len() && (#[trigger] b2[m]).0 as int == k; if m1 < b.len() { assert(b[m1].0 as int == k); } }
    }
}
// between two consecutive entries (and below the first, above the last) no position is in the buffer
pub proof fn lemma_env_gap(b: Seq<(usize, String)>, m: int, k: int, n: int)
    requires env_incr(b), 0 <= m <= b.len(), (m > 0 ==> (b[m - 1].0 as int) < k), k < env_lo(b, m, n), forall|j: int| 0 <= j < b.len() ==> (#[trigger] b[j]).0 < n,
    ensures !env_inb(b, k),
{
    if env_inb(b, k) {
        let j = choose|j: int| 0 <= j < b.len() && (#[trigger] b[j]).0 as int == k;
        if j < m { if j < m - 1 { assert(b[j].0 < b[m - 1].0); } }
        else { if j > m { assert(b[m].0 < b[j].0); } }
    }
}

// env_in_word: uninterpreted; a reference needs at least the `$` (assumed)
#[verifier::external_body]
pub fn env_in_word(token: &str, quoted: bool) -> (r: bool) ensures r == spec_env_in_word(token@, quoted), r ==> token@.len() > 0 { unimplemented!() }
// ---- regex + process environment for expand_one_env ----
pub struct VxRegex { pub id: i32 }
pub struct VxCap { pub g1: String, pub g2: String, pub g3: String }
// the two reference patterns of expand_one_env ($NAME form, ${NAME} form): matching is uninterpreted
pub uninterp spec fn spec_m(which: int, t: Seq<char>) -> bool;
pub uninterp spec fn spec_cap(which: int, t: Seq<char>) -> (Seq<char>, Seq<char>, Seq<char>);
pub uninterp spec fn re_which(r: VxRegex) -> int;
#[verifier::external_body]
pub fn vx_regex1(ptn: &str) -> (r: VxRegex) ensures re_which(r) == 1 { unimplemented!() }
#[verifier::external_body]
pub fn vx_regex2(ptn: &str) -> (r: VxRegex) ensures re_which(r) == 2 { unimplemented!() }
pub open spec fn cap_view(c: VxCap) -> (Seq<char>, Seq<char>, Seq<char>) { (c.g1@, c.g2@, c.g3@) }
// byte length (String::len): only used to decide which reference starts first
pub uninterp spec fn blen(s: Seq<char>) -> int;
#[verifier::external_body]
pub fn vx_blen(s: &String) -> (r: usize) ensures r as int == blen(s@) { s.len() }
impl VxRegex {
    // Regex::captures: Some iff the pattern matches; group 3 (the text after the reference) is a proper suffix of the text
    // (both patterns consume at least the `$`): ASSUMED, validated on a bounded set by axcheck `env_ref`
    #[verifier::external_body]
    pub fn captures(&self, t: &str) -> (r: Option<VxCap>)
        ensures r.is_some() == spec_m(re_which(*self), t@),
            r.is_some() ==> cap_view(r.unwrap()) == spec_cap(re_which(*self), t@) && r.unwrap().g3@.len() < t@.len()
    { unimplemented!() }
}
#[verifier::external_body]
pub fn vx_clone_cap(c: &VxCap) -> (r: VxCap) ensures cap_view(r) == cap_view(*c) { unimplemented!() }
// the process environment and pid, constant during one expansion step
pub uninterp spec fn spec_penv(name: Seq<char>) -> Option<Seq<char>>;
pub uninterp spec fn spec_pid() -> int;
pub uninterp spec fn spec_int_str(n: int) -> Seq<char>;
pub struct VxVarErr { pub e: i32 }
#[verifier::external_body]
pub fn vx_env_var(name: &str) -> (r: Result<String, VxVarErr>)
    ensures match r { Ok(v) => spec_penv(name@) == Some(v@), Err(_) => spec_penv(name@).is_none() }
{ unimplemented!() }
#[verifier::external_body]
pub fn vx_getpid() -> (r: i32) ensures r as int == spec_pid() { unimplemented!() }
#[verifier::external_body]
pub fn vx_int_to_string(n: i64) -> (r: String) ensures r@ == spec_int_str(n as int) { unimplemented!() }

// value of one reference, as the property statement orders it: $? last status, $$ pid, then the variable's current value (nothing if unset)
pub open spec fn ref_value(sh: Shell, key: Seq<char>) -> Seq<char> {
    if key == "?"@ { spec_int_str(sh.previous_status as int) }
    else if key == "$"@ { spec_int_str(spec_pid()) }
    else if spec_penv(key).is_some() { spec_penv(key).unwrap() }
    else if smap(sh.envs).contains_key(key) { smap(sh.envs)[key] }
    else { Seq::empty() }
}
// ONE STEP: the leftmost reference of t is replaced by its value; what is left to look at is only the text after it
pub open spec fn one_env(sh: Shell, t: Seq<char>) -> (Seq<char>, Seq<char>) {
    if !spec_m(1, t) && !spec_m(2, t) { (t, Seq::empty()) }
    else {
        let c = if spec_m(1, t) && (!spec_m(2, t) || blen(spec_cap(1, t).0) <= blen(spec_cap(2, t).0)) { spec_cap(1, t) } else { spec_cap(2, t) };
        (c.0 + ref_value(sh, c.1), c.2)
    }
}
// THE SPECIFIED EXPANSION of a word (property C10): every reference is replaced by the current value, left to right, and an
// inserted value is never looked at again: it is appended, the scan continues with the text after the reference
// ... and the text of a command substitution is not touched at all (C13, C11): it is planned, and expanded with its own quoting, when it runs.
// spec_subst(t): the first `$(..)` / backquote substitution of t as (length of the text in front of it, length of the text behind it); contract of
// split_first_substitution proved in U-EXP3 (head is a prefix without an opening, tail a proper suffix).
pub uninterp spec fn spec_subst(t: Seq<char>) -> Option<(int, int)>;
pub open spec fn skips_subst(t: Seq<char>, q: bool) -> bool {
    spec_subst(t).is_some() && 0 <= spec_subst(t).unwrap().0 && 0 <= spec_subst(t).unwrap().1 && spec_subst(t).unwrap().0 + spec_subst(t).unwrap().1 < t.len()
    && !spec_env_in_word(t.take(spec_subst(t).unwrap().0), q)
}
pub open spec fn env_expand(sh: Shell, t: Seq<char>, q: bool) -> Seq<char>
    decreases t.len()
{
    if !spec_env_in_word(t, q) || t.len() == 0 { t }
    else if skips_subst(t, q) { t.take(t.len() - spec_subst(t).unwrap().1) + env_expand(sh, t.skip(t.len() - spec_subst(t).unwrap().1), q) }
    else if one_env(sh, t).1.len() < t.len() { one_env(sh, t).0 + env_expand(sh, one_env(sh, t).1, q) }
    else { one_env(sh, t).0 }
}
#[verifier::external_body]
pub fn split_first_substitution(text: &str) -> (r: Option<(String, String, String)>)
    ensures match r {
        Some(p) => spec_subst(text@) == Some((p.0@.len() as int, p.2@.len() as int)) && p.0@.len() + p.2@.len() < text@.len()
                   && p.0@ == text@.take(p.0@.len() as int) && p.2@ == text@.skip(text@.len() - p.2@.len()),
        None => spec_subst(text@).is_none(),
    }
{ unimplemented!() }
// &rest[..rest.len() - tail.len()] where tail is a suffix of rest (byte lengths of a string and of its suffix)
#[verifier::external_body]
pub fn vx_without_suffix(rest: &String, tail: &String) -> (r: String)
    requires tail@.len() <= rest@.len() && tail@ == rest@.skip(rest@.len() - tail@.len())
    ensures r@ == rest@.take(rest@.len() - tail@.len())
{ rest[..rest.len() - tail.len()].to_string() }
// tools::get_user_home() (verified below against this): the value of HOME in the process environment as it is NOW -- looked up on every call --, nothing when unset
pub open spec fn spec_home() -> Seq<char> { match spec_penv("HOME"@) { Some(v) => v, None => Seq::empty() } }
//@FN get_user_home
// &text[1..] of a word that starts with the one-byte char `~`: the text behind it
#[verifier::external_body]
pub fn vx_after_tilde(text: &String) -> (r: &str)
    requires text@.len() > 0 && text@[0] == '~'
    ensures r@ == text@.skip(1)
{ &text[1..] }
#[verifier::external_body]
pub fn parse_line(line: &str) -> (r: LineInfo) { unimplemented!() }

impl Shell {
//@FN Shell::add_alias
//@FN Shell::is_alias
//@FN Shell::remove_alias
//@FN Shell::get_alias_content
//@FN Shell::get_alias_list
//@FN Shell::get_env
}

// ---- alias expansion: the specified result ----
// head position: first word of the line or of a pipeline stage (documented special case: the word after a head `xargs`)
pub open spec fn is_head_at(v: Seq<Token>, i: int) -> bool
    decreases i
{
    if i <= 0 { true }
    else if unq(v[i - 1]) && v[i - 1].1@ == "|"@ { true }
    else { is_head_at(v, i - 1) && v[i - 1].1@ == "xargs"@ && !(unq(v[i - 1]) && v[i - 1].1@ == "|"@) }
}
pub type AV = Seq<(int, Seq<TV>)>;
pub open spec fn alo(b: AV, m: int, n: int) -> int { if 0 <= m < b.len() { b[m].0 } else { n } }
pub open spec fn abuff_ok(b: AV, n: int) -> bool {
    forall|m: int| 0 <= m < b.len() ==> 0 <= (#[trigger] b[m]).0 < n && (m + 1 < b.len() ==> b[m].0 < b[m + 1].0)
}
pub open spec fn arest(old: Seq<TV>, b: AV, m: int) -> Seq<TV>
    decreases b.len() - m
{
    if m < 0 || m >= b.len() { Seq::empty() }
    else { b[m].1 + old.subrange(b[m].0 + 1, alo(b, m + 1, old.len() as int)) + arest(old, b, m + 1) }
}
pub open spec fn aspliced(old: Seq<TV>, b: AV) -> Seq<TV> { old.take(alo(b, 0, old.len() as int)) + arest(old, b, 0) }

pub proof fn lemma_tsv_ops(s: Seq<Token>)
    ensures
        forall|k: int, t: Token| 0 <= k <= s.len() ==> #[trigger] tsv(s.insert(k, t)) == tsv(s).insert(k, tv(t)),
        forall|k: int| 0 <= k < s.len() ==> #[trigger] tsv(s.remove(k)) == tsv(s).remove(k),
        tsv(s).len() == s.len(),
{
    assert forall|k: int, t: Token| 0 <= k <= s.len() implies #[trigger] tsv(s.insert(k, t)) == tsv(s).insert(k, tv(t)) by {
        assert(tsv(s.insert(k, t)) =~= tsv(s).insert(k, tv(t)));
    }
    assert forall|k: int| 0 <= k < s.len() implies #[trigger] tsv(s.remove(k)) == tsv(s).remove(k) by {
        assert(tsv(s.remove(k)) =~= tsv(s).remove(k));
    }
}
pub proof fn lemma_asplice_remove(old: Seq<TV>, b: AV, m: int, cur: Seq<TV>)
    requires abuff_ok(b, old.len() as int), 1 <= m <= b.len(), cur == old.take(alo(b, m, old.len() as int)) + arest(old, b, m),
    ensures
        b[m - 1].0 < cur.len(),
        cur.remove(b[m - 1].0) == old.take(b[m - 1].0) + b[m - 1].1.subrange(b[m - 1].1.len() as int, b[m - 1].1.len() as int)
            + (old.subrange(b[m - 1].0 + 1, alo(b, m, old.len() as int)) + arest(old, b, m)),
{
    let i = b[m - 1].0;
    let l = alo(b, m, old.len() as int);
    assert(i < l <= old.len());
    assert(cur.remove(i) =~= old.take(i) + b[m - 1].1.subrange(b[m - 1].1.len() as int, b[m - 1].1.len() as int) + (old.subrange(i + 1, l) + arest(old, b, m)));
}
// the alias words are inserted back to front at the same index
pub proof fn lemma_asplice_insert(a: Seq<TV>, e: Seq<TV>, j: int, tail: Seq<TV>, cur: Seq<TV>)
    requires 0 < j <= e.len(), cur == a + e.subrange(j, e.len() as int) + tail,
    ensures cur.insert(a.len() as int, e[j - 1]) == a + e.subrange(j - 1, e.len() as int) + tail, a.len() <= cur.len(),
{
    assert(cur.insert(a.len() as int, e[j - 1]) =~= a + e.subrange(j - 1, e.len() as int) + tail);
}
pub proof fn lemma_asplice_done(old: Seq<TV>, b: AV, m: int, cur: Seq<TV>)
    requires abuff_ok(b, old.len() as int), 1 <= m <= b.len(),
        cur == old.take(b[m - 1].0) + b[m - 1].1.subrange(0, b[m - 1].1.len() as int)
               + (old.subrange(b[m - 1].0 + 1, alo(b, m, old.len() as int)) + arest(old, b, m)),
    ensures cur == old.take(alo(b, m - 1, old.len() as int)) + arest(old, b, m - 1),
{
    assert(b[m - 1].1.subrange(0, b[m - 1].1.len() as int) =~= b[m - 1].1);
    assert(cur =~= old.take(alo(b, m - 1, old.len() as int)) + arest(old, b, m - 1));
}
// ghost record of what parse_line returned for each buffered alias value, in buffer order
pub uninterp spec fn spec_parse_line_tokens(line: Seq<char>) -> Seq<TV>;
pub open spec fn aview(b: Seq<(usize, String)>) -> AV { b.map_values(|e: (usize, String)| (e.0 as int, spec_parse_line_tokens(e.1@))) }
pub proof fn lemma_aview_push(b: Seq<(usize, String)>)
    ensures forall|e: (usize, String)| #[trigger] aview(b.push(e)) == aview(b).push((e.0 as int, spec_parse_line_tokens(e.1@))),
        aview(b).len() == b.len(),
        forall|e: (usize, String)| (#[trigger] aview(b.push(e)))[b.len() as int] == (e.0 as int, spec_parse_line_tokens(e.1@)),
{
    assert forall|e: (usize, String)| (#[trigger] aview(b.push(e)))[b.len() as int] == (e.0 as int, spec_parse_line_tokens(e.1@)) by {
        assert(aview(b.push(e)) =~= aview(b).push((e.0 as int, spec_parse_line_tokens(e.1@))));
    }
    assert forall|e: (usize, String)| #[trigger] aview(b.push(e)) == aview(b).push((e.0 as int, spec_parse_line_tokens(e.1@))) by {
        assert(aview(b.push(e)) =~= aview(b).push((e.0 as int, spec_parse_line_tokens(e.1@))));
    }
}
#[verifier::external_body]
pub fn vx_parse_line_tokens(line: &str) -> (r: Tokens) ensures tsv(r@) == spec_parse_line_tokens(line@) { unimplemented!() }

pub open spec fn alias_line(name: Seq<char>, value: Seq<char>, q: char) -> Seq<char> {
    seq!['a', 'l', 'i', 'a', 's', ' '] + name + seq!['=', q] + value + seq![q]
}
pub proof fn lemma_alias_lits()
    ensures "alias "@ == seq!['a', 'l', 'i', 'a', 's', ' '], "=\""@ == seq!['=', '"'], "\""@ == seq!['"'], "='"@ == seq!['=', '\''], "'"@ == seq!['\''],
{
    reveal_strlit("alias "); reveal_strlit("=\""); reveal_strlit("\""); reveal_strlit("='"); reveal_strlit("'");
    assert("alias "@ =~= seq!['a', 'l', 'i', 'a', 's', ' ']); assert("=\""@ =~= seq!['=', '"']); assert("\""@ =~= seq!['"']);
    assert("='"@ =~= seq!['=', '\'']); assert("'"@ =~= seq!['\'']);
}
pub proof fn lemma_quote_lit() ensures "\""@ == seq!['"'], "\""@.len() == 1 { reveal_strlit("\""); assert("\""@ =~= seq!['"']); }
//@FN has_operator_char
// ---- shared with the other expansion unit (common.ASSIGN_PREFIX) ----
pub uninterp spec fn spec_is_assign(t: Seq<char>) -> bool;
#[verifier::external_body]
pub fn is_assignment_word(text: &str) -> (r: bool) ensures r == spec_is_assign(text@) { unimplemented!() }
pub open spec fn assign_prefix(toks: Seq<Token>, k: int) -> bool {
    forall|j: int| 0 <= j <= k && j < toks.len() ==> (#[trigger] toks[j]).0@.len() == 0 && spec_is_assign(toks[j].1@)
}
//@FN in_assignment_prefix
//@FN format_alias
// ---- the `alias` builtin's two listings (C17): `alias` prints one line per definition -- every definition, in the form that reads back --, `alias n` prints that line for n ----
pub struct Command { pub n: i32 }
pub struct CommandLine { pub n: i32 }
pub struct CommandResult { pub gid: i32, pub status: i32, pub stdout: String, pub stderr: String }
#[verifier::external_body]
pub fn vx_cr_new() -> (r: CommandResult) ensures r.status == 0 { unimplemented!() }
pub ghost struct PrintLog { pub out: Seq<Seq<char>>, pub err: Seq<Seq<char>> }
#[verifier::external_body]
pub proof fn new_printlog() -> (tracked r: PrintLog) ensures r.out.len() == 0, r.err.len() == 0 { unimplemented!() }
// the builtins' output helpers (contracts in U-BFD: where the text goes); here: which text is handed to them
#[verifier::external_body]
pub fn print_stdout_with_capture(info: &str, cr: &mut CommandResult, cl: &CommandLine, cmd: &Command, capture: bool, Tracked(pl): Tracked<&mut PrintLog>)
    ensures final(pl).out == old(pl).out.push(info@), final(pl).err == old(pl).err
{ unimplemented!() }
#[verifier::external_body]
pub fn print_stderr_with_capture(info: &str, cr: &mut CommandResult, cl: &CommandLine, cmd: &Command, capture: bool, Tracked(pl): Tracked<&mut PrintLog>)
    ensures final(pl).err == old(pl).err.push(info@), final(pl).out == old(pl).out
{ unimplemented!() }
pub uninterp spec fn spec_join_nl(v: Seq<Seq<char>>) -> Seq<char>;
pub open spec fn strs(v: Seq<String>) -> Seq<Seq<char>> { v.map_values(|x: String| x@) }
#[verifier::external_body]
pub fn vx_join_nl(v: &Vec<String>) -> (r: String) ensures r@ == spec_join_nl(strs(v@)) { v.join("\n") }
#[verifier::external_body]
pub fn vx_clone_pair_ss(t: &(String, String)) -> (r: (String, String)) ensures r.0@ == t.0@, r.1@ == t.1@ { t.clone() }
pub open spec fn quote_for(value: Seq<char>) -> char { if value.contains('\'') { '"' } else { '\'' } }
// the lines of a listing: line i is the definition i of the list, in the form that reads back
pub open spec fn listing_of(l: Seq<(String, String)>, lines: Seq<Seq<char>>) -> bool {
    lines.len() == l.len() && forall|i: int| 0 <= i < l.len() ==> (#[trigger] lines[i]) == alias_line(l[i].0@, l[i].1@, quote_for(l[i].1@))
}
//@FN show_alias_list
//@FN show_single_alias
//@FN expand_one_env
//@FN expand_alias
//@FN expand_home
//@FN has_written_redirection
//@FN expand_env

// ---- do_expansion: the fixed order of the passes (ghost trace) ----
pub ghost struct PassTrace { pub t: Seq<int> }
#[verifier::external_body]
pub fn vx_pass(sh: &mut Shell, tokens: &mut Tokens, id: u8, Tracked(tr): Tracked<&mut PassTrace>) ensures final(tr).t == old(tr).t.push(id as int) { unimplemented!() }
#[verifier::external_body]
pub fn tokens_to_line(tokens: &Tokens) -> (r: String) { unimplemented!() }
#[verifier::external_body]
pub fn is_arithmetic(line: &str) -> (r: bool) { unimplemented!() }
//@FN do_expansion
''' + common.TAIL

S = 'src/shell.rs'
TYRW = [Rw('types::Tokens', 'Tokens', required=False, rule='R0'), Rw('types::Job', 'Job', required=False, rule='R0')]
HM = [
    Rw(r'self\.aliases\.insert\(', 'vx_hm_insert(&mut self.aliases, ', regex=True, required=False, rule='R12', why='HashMap<String,String> op through a shim stated over string views'),
    Rw(r'self\.aliases\.contains_key\(', 'vx_hm_contains(&self.aliases, ', regex=True, required=False, rule='R12'),
    Rw(r'self\.aliases\.remove\(', 'vx_hm_remove(&mut self.aliases, ', regex=True, required=False, rule='R12'),
    Rw(r'self\.aliases\.get\(', 'vx_hm_get(&self.aliases, ', regex=True, required=False, rule='R12'),
]

add_alias = Fn(S, 'add_alias', impl='Shell', pre_rewrites=HM,
    ensures=[('C17.table.add', 'smap(final(self).aliases) == smap(old(self).aliases).insert(name@, value@)')])
is_alias = Fn(S, 'is_alias', impl='Shell', pre_rewrites=HM, ret='r',
    ensures=[('C17.table.is_alias', 'r == smap(self.aliases).contains_key(name@)')])
remove_alias = Fn(S, 'remove_alias', impl='Shell', pre_rewrites=HM, ret='r',
    ensures=[('C17.table.unalias_removes_exactly_n', 'smap(final(self).aliases) == smap(old(self).aliases).remove(name@) && r == smap(old(self).aliases).contains_key(name@)')])
# C17: `alias` prints EVERY definition: the list handed to the printing code holds each entry of the table exactly once, with its value
get_alias_list = Fn(S, 'get_alias_list', impl='Shell', ret='r',
    pre_rewrites=[Rw('for (name, value) in &self.aliases {', 'let __ev = vx_hm_entries(&self.aliases); for (name, value) in __ev.iter() {', rule='R12',
                     why='HashMap iteration through a snapshot shim: every entry once, unspecified order')],
    let_types={'result': 'Vec<(String, String)>'},
    ensures=[('C17.listing.every_definition_is_listed_exactly_once', 'lists_all(smap(self.aliases), r@)')],
    loops={0: Loop(invariant=[('C17.inv.listing.prefix',
        'lists_all(smap(self.aliases), __ev@) && result@.len() == __i0 && forall|i: int| 0 <= i < result@.len() ==> (#[trigger] result@[i]).0@ == __ev@[i].0@ && result@[i].1@ == __ev@[i].1@')])},
)
get_alias_content = Fn(S, 'get_alias_content', impl='Shell', pre_rewrites=HM, ret='r',
    ensures=[('C17.table.content',
              # (an alias defined as nothing is still an alias: `Some` exactly for a defined name, whatever its value)
              'match r { Some(v) => smap(self.aliases).contains_key(name@) && v@ == smap(self.aliases)[name@], '
              'None => !smap(self.aliases).contains_key(name@) }')])

# the line `alias` prints for one definition: reading it back must define the same alias (C17): the value sits between two quote
# characters of a kind that does not occur in it (when the value does not contain both kinds)
format_alias = Fn('src/builtins/alias.rs', 'format_alias', ret='r', props=('C17',),
    ensures=[('C17.listing.value_is_wrapped_in_a_quote_it_does_not_contain',
              'r@ == alias_line(name@, value@, if value@.contains(\'\\\'\') { \'"\' } else { \'\\\'\' })')],
    hints={'fn-entry': 'lemma_alias_lits();'})

show_list = Fn('src/builtins/alias.rs', 'show_alias_list', ret='r', props=('C17',),
    pre_rewrites=[Rw('shell::Shell', 'Shell', rule='R0'), Rw('CommandResult::new()', 'vx_cr_new()', rule='R12'), Rw('lines.join("\\n")', 'vx_join_nl(&lines)', rule='R12', why='slice join through a shim (uninterpreted)')],
    add_params='Tracked(pl): Tracked<&mut PrintLog>', ghost_args={'print_stdout_with_capture': 'Tracked(pl)'},
    requires=[('C17.pre.show_list.fresh_log', 'old(pl).out.len() == 0 && old(pl).err.len() == 0')],
    let_types={'lines': 'Vec<String>'},
    loop_kinds={0: 'value', (0, 'clone'): 'vx_clone_pair_ss(&{})'},
    ensures=[('C17.listing.the_builtin_prints_one_line_per_definition_every_definition_in_the_form_that_reads_back',
              'final(pl).err.len() == 0 && final(pl).out.len() == 1 && exists|l: Seq<(String, String)>, ls: Seq<Seq<char>>| '
              'lists_all(smap(sh.aliases), l) && listing_of(l, ls) && final(pl).out[0] == spec_join_nl(ls)')],
    loops={0: Loop(invariant=[('C17.inv.show_list.lines', 'lists_all(smap(sh.aliases), __v0@) && lines@.len() == __i0 && pl.out.len() == 0 && pl.err.len() == 0 '
                                                          '&& forall|i: int| 0 <= i < __i0 ==> (#[trigger] lines@[i])@ == alias_line(__v0@[i].0@, __v0@[i].1@, quote_for(__v0@[i].1@))')])},
    hints={'after-call:print_stdout_with_capture': 'assert(strs(lines@).len() == lines@.len()); assert(forall|i: int| 0 <= i < lines@.len() ==> (#[trigger] strs(lines@)[i]) == lines@[i]@); assert(listing_of(__v0@, strs(lines@)));'},
)
show_single = Fn('src/builtins/alias.rs', 'show_single_alias', ret='r', props=('C17',),
    pre_rewrites=[Rw('shell::Shell', 'Shell', rule='R0'), Rw('CommandResult::new()', 'vx_cr_new()', rule='R12'),
                  Rw('format!("cicada: alias: {}: not found", name_to_find)', 'vx_opaque_string()', rule='R4', required=False, why='diagnostic text (opaque)')],
    add_params='Tracked(pl): Tracked<&mut PrintLog>', ghost_args={'print_stdout_with_capture': 'Tracked(pl)', 'print_stderr_with_capture': 'Tracked(pl)'},
    requires=[('C17.pre.show_single.fresh_log', 'old(pl).out.len() == 0 && old(pl).err.len() == 0')],
    ensures=[('C17.listing.alias_n_prints_the_definition_of_n_in_the_form_that_reads_back_or_a_diagnostic',
              'if smap(sh.aliases).contains_key(name_to_find@) { final(pl).err.len() == 0 && final(pl).out.len() == 1 '
              '&& final(pl).out[0] == alias_line(name_to_find@, smap(sh.aliases)[name_to_find@], quote_for(smap(sh.aliases)[name_to_find@])) } '
              'else { final(pl).out.len() == 0 && final(pl).err.len() == 1 }')],
)
HME = [
    Rw(r'self\.envs\.get\(', 'vx_hm_get(&self.envs, ', regex=True, required=False, rule='R12', why='HashMap<String,String> op through a shim stated over string views'),
    Rw(r'env::var\(', 'vx_env_var(', regex=True, required=False, rule='R8', why='std::env::var through a shim over the (uninterpreted, constant) process environment'),
]
get_env = Fn(S, 'get_env', impl='Shell', pre_rewrites=HME, ret='r',
    ensures=[('C09+C10.get_env.shell_var_then_environment',
              'match r { Some(v) => v@ == (if smap(self.envs).contains_key(name@) { smap(self.envs)[name@] } else { spec_penv(name@).unwrap() }) '
              '&& (smap(self.envs).contains_key(name@) || spec_penv(name@).is_some()), '
              'None => !smap(self.envs).contains_key(name@) && spec_penv(name@).is_none() }')])

expand_one_env = Fn(S, 'expand_one_env', ret='r',
    pre_rewrites=HME + [
        Rw(r'Regex::new\((r"[^"]*")\)\.unwrap\(\)', r'vx_regex1(\1)', regex=True, count=1, rule='R6',
           why='Regex::new(literal).unwrap() through a shim: the pattern is a valid literal (trusted), matching is uninterpreted ($NAME form)'),
        Rw(r'Regex::new\((r"[^"]*")\)\.unwrap\(\)', r'vx_regex2(\1)', regex=True, count=1, rule='R6',
           why='same for the ${NAME} form'),
        Rw(r'\b(c[12])\[1\]\.len\(\)', r'vx_blen(&\1.g1)', regex=True, rule='R6', why='byte length of capture group 1 (only compared)'),
        Rw(r'cap\[(\d)\]\.to_string\(\)', r'vx_s(&cap.g\1)', regex=True, rule='R6', why='capture group k as a field of the shim capture'),
        Rw(r'unsafe \{\s*(?:/\*@L\d+\*/)?\s*let val = libc::getpid\(\);(?:/\*@L\d+\*/)?\s*done\.push_str\(format!\("\{\}\{\}", head, val\)\.as_str\(\)\);(?:/\*@L\d+\*/)?\s*\}',
           'let val = vx_getpid(); done.push_str(vx_concat2(&head, &vx_int_to_string(val as i64)).as_str());', regex=True, rule='R8',
           why='libc::getpid() through a shim (unsafe block removed); Display for i32 through vx_int_to_string'),
    ],
    int_args=('sh.previous_status',),
    ensures=[('C10+C03+C05.one_env.leftmost_reference_replaced_by_its_value_rest_returned_separately',
              'r.0@ == one_env(*sh, token@).0 && r.1@ == one_env(*sh, token@).1'),
             ('C10+C05.one_env.rest_is_shorter', 'r.1@.len() < token@.len() || r.1@.len() == 0')],
)

ALIAS_MATCH = 'is_head_at(tokens@, K) && smap(sh.aliases).contains_key(tokens@[K].1@)'

expand_alias = Fn(S, 'expand_alias', rewrites=TYRW + [
        Rw('let linfo = parse_line(text);', 'let tokens_ = vx_parse_line_tokens(text);', rule='R10',
           why='parse_line(value).tokens through a shim recording the (uninterpreted) tokenization of the alias value'),
        Rw('let tokens_ = linfo.tokens;', '', rule='R10'),
    ],
    let_types={'buff': 'Vec<(usize, String)>'},
    clone_shims={'item': 'vx_clone_token'},
    ensures=[
        ('C17.alias.result_is_single_pass_splice',
         'exists|b: AV| abuff_ok(b, old(tokens)@.len() as int) && tsv(final(tokens)@) == aspliced(tsv(old(tokens)@), b) '
         '&& (forall|m: int| 0 <= m < b.len() ==> ' + ALIAS_MATCH.replace('tokens@', 'old(tokens)@').replace('K', '(#[trigger] b[m]).0') +
         ' && b[m].1 == spec_parse_line_tokens(smap(sh.aliases)[old(tokens)@[b[m].0].1@]))'),
        ('C17.alias.only_head_words',
         '(forall|k: int| 0 <= k < old(tokens)@.len() ==> !(' + ALIAS_MATCH.replace('tokens@', 'old(tokens)@').replace('K', 'k') + ')) ==> tsv(final(tokens)@) == tsv(old(tokens)@)'),
    ],
    loops={
        0: Loop(invariant=[
            ('C17.inv.alias.idx', 'idx == __i0 && tokens@ == old(tokens)@'),
            ('C17.inv.alias.head', 'is_head == is_head_at(tokens@, __i0 as int)'),
            ('C17.inv.alias.buff_ok', 'abuff_ok(aview(buff@), __i0 as int)'),
            ('C17.inv.alias.only_head_aliases',
             'forall|m: int| 0 <= m < buff@.len() ==> ' + ALIAS_MATCH.replace('K', '(#[trigger] aview(buff@)[m]).0') +
             ' && aview(buff@)[m].1 == spec_parse_line_tokens(smap(sh.aliases)[tokens@[aview(buff@)[m].0].1@])'),
            ('C17.inv.alias.none_then_empty',
             '(forall|k: int| 0 <= k < __i0 ==> !(' + ALIAS_MATCH.replace('K', 'k') + ')) ==> buff@.len() == 0'),
        ]),
        1: Loop(invariant=[
            ('C17.inv.alias.buff_ok2', 'abuff_ok(aview(buff@), tsv(old(tokens)@).len() as int)'),
            ('C17.inv.alias.outer', 'tsv(tokens@) == tsv(old(tokens)@).take(alo(aview(buff@), __i1 as int, tsv(old(tokens)@).len() as int)) '
                                    '+ arest(tsv(old(tokens)@), aview(buff@), __i1 as int)'),
        ]),
        2: Loop(invariant=[
            ('C17.inv.alias.inner_ctx', 'abuff_ok(aview(buff@), tsv(old(tokens)@).len() as int) && 0 <= __i1 < aview(buff@).len() '
                                        '&& *i == aview(buff@)[__i1 as int].0 && tsv(tokens_@) == aview(buff@)[__i1 as int].1'),
            ('C17.inv.alias.inner', 'tsv(tokens@) == tsv(old(tokens)@).take(*i as int) + tsv(tokens_@).subrange(__i2 as int, tokens_@.len() as int) '
                                    '+ (tsv(old(tokens)@).subrange(*i + 1, alo(aview(buff@), __i1 + 1, tsv(old(tokens)@).len() as int)) '
                                    '+ arest(tsv(old(tokens)@), aview(buff@), __i1 + 1))'),
        ]),
    },
    hints={
        'loop-0-body-entry': 'lemma_aview_push(buff@);',
        'loop-1-body-entry': 'lemma_tsv_ops(tokens@); lemma_asplice_remove(tsv(old(tokens)@), aview(buff@), __i1 as int, tsv(tokens@)); '
                             'assert(aview(buff@)[__i1 - 1] == ((buff@[__i1 - 1]).0 as int, spec_parse_line_tokens((buff@[__i1 - 1]).1@)));',
        'loop-2-body-entry': 'lemma_tsv_ops(tokens@); lemma_tsv_ops(old(tokens)@); lemma_tsv_ops(tokens_@); '
                             'assert(tsv(old(tokens)@).take(*i as int).len() == *i); '
                             'lemma_asplice_insert(tsv(old(tokens)@).take(*i as int), tsv(tokens_@), __i2 as int, '
                             'tsv(old(tokens)@).subrange(*i + 1, alo(aview(buff@), __i1 + 1, tsv(old(tokens)@).len() as int)) + arest(tsv(old(tokens)@), aview(buff@), __i1 + 1), tsv(tokens@)); '
                             'assert(tsv(tokens_@)[__i2 - 1] == tv(tokens_@[__i2 - 1]));',
        'loop-2-exit': 'lemma_asplice_done(tsv(old(tokens)@), aview(buff@), __i1 + 1, tsv(tokens@));',
    },
)

SETTXT = Rw(r'tokens\[\*i\]\.1 = (.*?);', r'vx_set_token_text(tokens, *i, \1);', regex=True, rule='R12',
            why='IndexMut + tuple-field assignment through a shim (frame: only that token text changes)')


def text_pass(name, cond, label_props, inner_dec=None, extra_pre=()):
    """contract shared by expand_home / expand_env: only the TEXT of tokens satisfying `cond` may change; tags and length never."""
    c_old = cond.replace('T', 'old(tokens)@[k]')
    c_cur = cond.replace('T', 'tokens@[k]')
    loops = {
        0: Loop(invariant=[
            ('%s.inv.%s.idx' % (label_props, name), 'idx == __i0 && tokens@ == old(tokens)@'),
            ('%s.inv.%s.buff' % (label_props, name),
             'forall|m: int| 0 <= m < buff@.len() ==> (#[trigger] buff@[m]).0 < __i0 && ' + cond.replace('T', 'tokens@[buff@[m].0 as int]')),
        ]),
    }
    last = 1
    if inner_dec:
        loops[1] = Loop(decreases=inner_dec)
        last = 2
    loops[last] = Loop(invariant=[
        ('%s.inv.%s.frame' % (label_props, name),
         'tokens@.len() == old(tokens)@.len() && forall|k: int| 0 <= k < tokens@.len() ==> (#[trigger] tokens@[k]).0@ == old(tokens)@[k].0@ '
         '&& (!(' + c_old + ') ==> tokens@[k].1@ == old(tokens)@[k].1@)'),
        ('%s.inv.%s.buff2' % (label_props, name),
         'forall|m: int| 0 <= m < buff@.len() ==> (#[trigger] buff@[m]).0 < tokens@.len() && ' + cond.replace('T', 'old(tokens)@[buff@[m].0 as int]')),
    ])
    return Fn(S, name, rewrites=TYRW, pre_rewrites=list(extra_pre) + [SETTXT],
        let_types={'buff': 'Vec<(usize, String)>'},
        ensures=[('%s.%s.only_text_of_eligible_tokens_changes' % (label_props, name),
                  'final(tokens)@.len() == old(tokens)@.len() && forall|k: int| 0 <= k < old(tokens)@.len() ==> '
                  '(#[trigger] final(tokens)@[k]).0@ == old(tokens)@[k].0@ && (!(' + c_old + ') ==> final(tokens)@[k].1@ == old(tokens)@[k].1@)')],
        loops=loops)


get_user_home = Fn('src/tools.rs', 'get_user_home', ret='r', props=('C12', 'C09'),
    pre_rewrites=[Rw(r'env::var\(', 'vx_env_var(', regex=True, rule='R8', why='std::env::var through a shim over the process environment')],
    ensures=[('C12+C09.home.the_home_directory_is_the_current_value_of_HOME', 'r@ == spec_home()')])
expand_home = text_pass('expand_home', 'unq(T) && T.1@.len() > 0 && T.1@[0] == \'~\'', 'C12+C13+C01',
    extra_pre=[Rw('tools::get_user_home()', 'get_user_home()', rule='R0'),
               Rw('&text[1..]', 'vx_after_tilde(text)', rule='R12', why='byte slice behind the leading one-byte `~`')])
# C12: the leading `~` becomes the home directory, as text, the rest of the word kept
expand_home.loops[0].invariant.append(('C12.inv.expand_home.tilde_becomes_the_home_directory_as_text',
    'forall|m: int| 0 <= m < buff@.len() ==> (#[trigger] buff@[m]).1@ == spec_home() + tokens@[buff@[m].0 as int].1@.skip(1)'))
# starts_with("~") is rewritten to vx_starts_with_str: relate it to the first-char form used in the contract
expand_home.hints = {'loop-0-body-entry': 'assert("~"@.len() == 1 && "~"@[0] == \'~\') by { reveal_strlit("~"); } '
                                          'assert(forall|a: Seq<char>| #![trigger a.subrange(0, 1)] a.len() >= 1 ==> (a.subrange(0, 1) == "~"@) == (a[0] == \'~\')) by { '
                                          '  assert forall|a: Seq<char>| #![trigger a.subrange(0, 1)] a.len() >= 1 implies (a.subrange(0, 1) == "~"@) == (a[0] == \'~\') by { '
                                          '    if a[0] == \'~\' { assert(a.subrange(0, 1) =~= "~"@); } else { assert(a.subrange(0, 1)[0] == a[0]); } } }'}

# expand_env: which words may change, what happens to the tag, and (C13) that operator characters from a value become data
written = Fn(S, 'has_written_redirection', ret='r', props=('C13', 'C04'),
    ensures=[('C04+C13+C10.written_redirection.only_what_stands_outside_the_command_substitutions_of_the_word', 'r == written_redir(word@)')],
    loops={0: Loop(invariant=[('C13.inv.written.rest', 'written_redir(rest@) == written_redir(word@)')], decreases='rest@.len()')},
)
expand_env = Fn(S, 'expand_env', rewrites=TYRW, props=('C10',),
    pre_rewrites=[SETTXT, Rw(r'tokens\[\*i\]\.0 = (.*?);', r'vx_set_token_tag(tokens, *i, \1);', regex=True, rule='R12', required=False,
                             why='IndexMut + tuple-field assignment through a shim (frame: only that token tag changes)'),
                  Rw('let end = rest.len() - tail.len();', '', required=False, rule='R12', why='byte offset of the suffix: folded into the shim below'),
                  Rw('_token.push_str(&rest[..end]);', '_token.push_str(&vx_without_suffix(&rest, &tail));', required=False, rule='R12',
                     why='the text in front of a suffix, by byte lengths, through a shim with that contract')],
    let_types={'buff': 'Vec<(usize, String)>'},
    ensures=[('C10+C13+C01.expand_env.words_change_only_as_specified',
              'final(tokens)@.len() == old(tokens)@.len() && forall|k: int| 0 <= k < old(tokens)@.len() ==> env_tok_ok(*sh, old(tokens)@, k, #[trigger] final(tokens)@[k])')],
    loops={
        0: Loop(invariant=[
            ('C10+C13+C01.inv.expand_env.idx', 'idx == __i0 && tokens@ == old(tokens)@'),
            ('C10+C13+C01.inv.expand_env.buff',
             'forall|m: int| 0 <= m < buff@.len() ==> (#[trigger] buff@[m]).0 < __i0 && env_elig(tokens@[buff@[m].0 as int]) '
             '&& buff@[m].1@ == env_expand(*sh, tokens@[buff@[m].0 as int].1@, is_dq(tokens@[buff@[m].0 as int].0@))'),
            ('C10+C13.inv.expand_env.buff_increasing', 'env_incr(buff@)'),
            ('C10.inv.expand_env.every_eligible_word_is_rewritten', 'forall|k: int| 0 <= k < __i0 && env_elig(#[trigger] tokens@[k]) ==> env_inb(buff@, k)'),
        ]),
        # the scan: what has been produced so far, followed by the specified expansion of what is left, is the specified expansion of the word
        1: Loop(invariant=[('C10.inv.expand_env.single_pass', '_token@ + env_expand(*sh, rest@, quoted) == env_expand(*sh, token@, quoted) && quoted == is_dq(sep@)')],
                decreases='rest@.len()'),
        2: Loop(invariant=[
            ('C10+C13+C01.inv.expand_env.frame',
             'tokens@.len() == old(tokens)@.len() '
             '&& (forall|k: int| 0 <= k < env_lo(buff@, __i2 as int, tokens@.len() as int) ==> (#[trigger] tokens@[k]).0@ == old(tokens)@[k].0@ && tokens@[k].1@ == old(tokens)@[k].1@) '
             '&& (forall|k: int| env_lo(buff@, __i2 as int, tokens@.len() as int) <= k < tokens@.len() ==> env_tok_ok(*sh, old(tokens)@, k, #[trigger] tokens@[k]))'),
            ('C10+C13+C01.inv.expand_env.buff2',
             'forall|m: int| 0 <= m < buff@.len() ==> (#[trigger] buff@[m]).0 < tokens@.len() && env_elig(old(tokens)@[buff@[m].0 as int]) '
             '&& buff@[m].1@ == env_expand(*sh, old(tokens)@[buff@[m].0 as int].1@, is_dq(old(tokens)@[buff@[m].0 as int].0@))'),
            ('C10+C13.inv.expand_env.buff_increasing2', 'env_incr(buff@)'),
            ('C10.inv.expand_env.every_eligible_word_is_rewritten2', 'forall|k: int| 0 <= k < tokens@.len() && env_elig(#[trigger] old(tokens)@[k]) ==> env_inb(buff@, k)'),
        ]),
    },
    hints={'before-text:buff.push((idx, _token));': 'lemma_env_inb_push(buff@, (idx, _token));',
           'loop-1-exit': 'assert(env_expand(*sh, rest@, quoted) == rest@);',
           'loop-2-body-entry': 'lemma_quote_lit(); '
               # the words up to the one being rewritten are still the original ones (the loop runs from the right): the prefix test sees the old line
               'assert(__i2 < buff@.len() ==> buff@[__i2 - 1].0 < buff@[__i2 as int].0); '
               'assert(buff@[__i2 - 1].0 < env_lo(buff@, __i2 as int, tokens@.len() as int)); '
               'assert forall|j: int| 0 <= j <= buff@[__i2 - 1].0 implies (#[trigger] tokens@[j]).0@ == old(tokens)@[j].0@ && tokens@[j].1@ == old(tokens)@[j].1@ by {} '
               'assert(assign_prefix(tokens@, buff@[__i2 - 1].0 as int) == assign_prefix(old(tokens)@, buff@[__i2 - 1].0 as int)) by { '
               '  if assign_prefix(tokens@, buff@[__i2 - 1].0 as int) { assert forall|j: int| 0 <= j <= buff@[__i2 - 1].0 && j < old(tokens)@.len() implies (#[trigger] old(tokens)@[j]).0@.len() == 0 && spec_is_assign(old(tokens)@[j].1@) by { assert(tokens@[j].0@ == old(tokens)@[j].0@); } } '
               '  if assign_prefix(old(tokens)@, buff@[__i2 - 1].0 as int) { assert forall|j: int| 0 <= j <= buff@[__i2 - 1].0 && j < tokens@.len() implies (#[trigger] tokens@[j]).0@.len() == 0 && spec_is_assign(tokens@[j].1@) by { assert(old(tokens)@[j].0@ == tokens@[j].0@); } } } '
               'assert forall|k: int| (buff@[__i2 - 1].0 as int) < k < env_lo(buff@, __i2 as int, tokens@.len() as int) implies !env_inb(buff@, k) by { lemma_env_gap(buff@, __i2 as int, k, tokens@.len() as int); }',
           'loop-2-exit': 'assert forall|k: int| 0 <= k < env_lo(buff@, 0, tokens@.len() as int) implies !env_inb(buff@, k) by { lemma_env_gap(buff@, 0, k, tokens@.len() as int); }'})
expand_env.props = ('C10',)

PASSES = ['expand_alias(sh, tokens)', 'expand_home(tokens)', 'expand_env(sh, tokens)', 'expand_brace(tokens)', 'expand_glob(tokens)',
          'do_command_substitution(sh, tokens)', 'expand_brace_range(tokens)']
do_expansion = Fn(S, 'do_expansion', add_params='Tracked(tr): Tracked<&mut PassTrace>',
    pre_rewrites=TYRW + [Rw(p_ + ';', 'vx_pass(sh, tokens, %d, Tracked(tr));' % i, required=False, rule='R8',
                            why='pass call recorded in a ghost trace (the pass itself is under contract in its own unit)') for i, p_ in enumerate(PASSES)]
                      + [Rw('parsers::parser_line::tokens_to_line(', 'tokens_to_line(', required=False, rule='R0')],
    ensures=[('C12+C11+C13+C17+C10.expansion.passes_run_in_the_fixed_order',
              'final(tr).t == old(tr).t || final(tr).t == old(tr).t + seq![0int, 1int, 2int, 3int, 4int, 5int, 6int]')],
)

UNIT = Unit('U-EXP2', TEMPLATE, fns=[common.has_operator_fn(), common.in_assignment_prefix_fn(), get_user_home, add_alias, is_alias, remove_alias, get_alias_content, get_alias_list, get_env, format_alias, show_list, show_single, expand_one_env, expand_alias, expand_home, written, expand_env, do_expansion],
            types=[TypeItem('src/types.rs', 'struct', 'LineInfo'), TypeItem('src/types.rs', 'struct', 'Job'),
                   TypeItem('src/shell.rs', 'struct', 'Shell', rewrites=[Rw('types::Job', 'Job', rule='R0')])],
            props=('C17', 'C10', 'C12', 'C13', 'C01', 'C05'))
TRUSTED = common.TRUSTED_STR + common.TRUSTED_TOKEN + [
    'HashMap<String,String> insert/contains_key/remove/get: std contracts stated over the string views (shims)',
    'parse_line is external here: the tokenization of an alias value is an uninterpreted function of the value',
    'env_in_word (the gate of expand_env) and the captures of expand_one_env are uninterpreted (regex crate); get_user_home is under contract (the current value of HOME, looked up on every call); the environment is constant during one pass (single thread)',
    'split_first_substitution is external here: its contract (head a prefix without an opening, tail a proper suffix) is the one proved in U-EXP3',
]
