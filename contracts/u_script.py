"""U-SCRIPT: the statement runners of scripting.rs (C15): after `set -e` the first failing command ends the script -- in a plain body,
inside if / for / while and across the top-level statements -- and otherwise every statement of a body runs, in order."""
from vx.gen import Unit, Fn, TypeItem, Loop, Rw
from . import common

TEMPLATE = common.HEAD + common.STR_SHIMS + r'''
//@TYPE CommandResult
// the shell state these functions read: `set -e` (exit_on_error); everything else may be changed by whatever a statement runs
pub struct Shell { pub exit_on_error: bool, pub previous_status: i32 }

// ---- pest parse tree, reduced to what the runners look at: the text of a node, its rule, its children (all uninterpreted) ----
#[derive(PartialEq, Eq, Structural, Clone, Copy)]
pub enum Rule { CMD, EXP_IF, EXP_FOR, EXP_WHILE, EXP_BODY, FOR_HEAD, FOR_INIT, FOR_VAR, TEST, IF_HEAD, IF_ELSEIF_HEAD, WHILE_HEAD, KW_ELSE, OTHER }
pub struct VxPair { pub id: int }
pub uninterp spec fn pair_text(p: VxPair) -> Seq<char>;
pub uninterp spec fn pair_rule(p: VxPair) -> Rule;
pub uninterp spec fn pair_children(p: VxPair) -> Seq<VxPair>;
impl VxPair {
    #[verifier::external_body]
    pub fn as_str(&self) -> (r: &str) ensures r@ == pair_text(*self) { unimplemented!() }
    #[verifier::external_body]
    pub fn as_rule(&self) -> (r: Rule) ensures r == pair_rule(*self) { unimplemented!() }
    #[verifier::external_body]
    pub fn into_inner(self) -> (r: Vec<VxPair>) ensures r@ == pair_children(self) { unimplemented!() }
    #[verifier::external_body]
    pub fn clone(&self) -> (r: VxPair) ensures r == *self { unimplemented!() }
}
#[verifier::external_body]
pub fn vx_clone_pair(p: &VxPair) -> (r: VxPair) ensures r == *p { unimplemented!() }
pub struct VxParseErr { pub e: int }
// parsers::locust::parse_lines: the pest grammar (outside Verus): the top-level statements of the text, or a syntax error
#[verifier::external_body]
pub fn parse_lines(lines: &str) -> (r: Result<Vec<VxPair>, VxParseErr>)
    ensures match r { Ok(v) => spec_parse(lines@) == Some(v@), Err(_) => spec_parse(lines@).is_none() }
{ unimplemented!() }
// what the grammar makes of a text: its top-level nodes, or nothing when the text is not a well-formed script (keywords that do not balance)
pub uninterp spec fn spec_parse(text: Seq<char>) -> Option<Seq<VxPair>>;

// ---- THE STOP RULE of C15: after `set -e`, a failing command (the last result so far) ends the script ----
pub open spec fn stop_spec(c: Seq<CommandResult>, sh: Shell) -> bool { c.len() > 0 && c.last().status != 0 && sh.exit_on_error }
#[verifier::external_body]
pub fn vx_slice_last(v: &[CommandResult]) -> (r: Option<&CommandResult>)
    ensures match r { Some(x) => v@.len() > 0 && *x == v@.last(), None => v@.len() == 0 }
{ v.last() }

// ghost log of one activation of a runner: how many statements (rounds) were started, and after each of them whether the stop rule held
// and how many had been started by then
// (C14) evs: which runner each statement was handed to, in order (a command line as it is run; an if / for / while node; for an if also the in_loop flag it was given);
// ifs: per statement started, the (continue, break) answer of the `if` it was (None for every other kind); in_loop / node: what this activation was entered with
pub ghost enum Ev { Cmd(Seq<char>), If(VxPair, bool), For(VxPair), While(VxPair) }
pub ghost struct RunLog { pub started: int, pub checks: Seq<(bool, int)>, pub evs: Seq<Ev>, pub ifs: Seq<Option<(bool, bool)>>, pub in_loop: bool, pub node: VxPair, pub diagnosed: bool }
#[verifier::external_body]
pub proof fn note_start(tracked lg: &mut RunLog)
    ensures final(lg).started == old(lg).started + 1, final(lg).checks == old(lg).checks, final(lg).evs == old(lg).evs, final(lg).ifs == old(lg).ifs.push(None),
            final(lg).in_loop == old(lg).in_loop, final(lg).node == old(lg).node, final(lg).diagnosed == old(lg).diagnosed
{ unimplemented!() }
#[verifier::external_body]
pub proof fn note_check(tracked lg: &mut RunLog, stop: bool)
    ensures final(lg).started == old(lg).started, final(lg).checks == old(lg).checks.push((stop, old(lg).started)), final(lg).evs == old(lg).evs, final(lg).ifs == old(lg).ifs,
            final(lg).in_loop == old(lg).in_loop, final(lg).node == old(lg).node, final(lg).diagnosed == old(lg).diagnosed
{ unimplemented!() }
#[verifier::external_body]
pub proof fn note_entry(tracked lg: &mut RunLog, node: VxPair, in_loop: bool)
    ensures final(lg).started == old(lg).started, final(lg).checks == old(lg).checks, final(lg).evs == old(lg).evs, final(lg).ifs == old(lg).ifs,
            final(lg).in_loop == in_loop, final(lg).node == node, final(lg).diagnosed == old(lg).diagnosed
{ unimplemented!() }
#[verifier::external_body]
pub proof fn note_ev(tracked lg: &mut RunLog, e: Ev)
    ensures final(lg).started == old(lg).started, final(lg).checks == old(lg).checks, final(lg).evs == old(lg).evs.push(e), final(lg).ifs == old(lg).ifs,
            final(lg).in_loop == old(lg).in_loop, final(lg).node == old(lg).node, final(lg).diagnosed == old(lg).diagnosed
{ unimplemented!() }
#[verifier::external_body]
pub proof fn note_if(tracked lg: &mut RunLog, c: bool, b: bool)
    requires old(lg).ifs.len() > 0
    ensures final(lg).started == old(lg).started, final(lg).checks == old(lg).checks, final(lg).evs == old(lg).evs, final(lg).ifs == old(lg).ifs.drop_last().push(Some((c, b))),
            final(lg).in_loop == old(lg).in_loop, final(lg).node == old(lg).node, final(lg).diagnosed == old(lg).diagnosed
{ unimplemented!() }
// a fresh log for a nested activation
#[verifier::external_body]
pub proof fn new_log() -> (tracked r: RunLog) ensures r.started == 0, r.checks.len() == 0, r.evs.len() == 0, r.ifs.len() == 0, !r.diagnosed { unimplemented!() }

// ---- THE STRUCTURED SEMANTICS of a body (C14): what one statement is, by the text and rule of its node ----
pub enum Kind { Skip, Diag, Cont, Brk, Cmd, If, For, While, Nothing }
pub open spec fn kw_continue() -> Seq<char> { "continue"@ }
pub open spec fn kw_break() -> Seq<char> { "break"@ }
// the line without a comment behind its first word (scripting::without_trailing_comment: byte slicing, outside the verifier; bounded break-continue:followed-by-a-comment)
pub uninterp spec fn spec_kw(t: Seq<char>) -> Seq<char>;
#[verifier::external_body]
pub fn without_trailing_comment(line: &str) -> (r: &str) ensures r@ == spec_kw(line@) { unimplemented!() }
pub open spec fn kind_of(p: VxPair, in_loop: bool) -> Kind {
    let t = spec_trim(pair_text(p));
    if t.len() == 0 { Kind::Skip }
    else if pair_rule(p) == Rule::CMD {
        if spec_kw(t) == kw_continue() { if in_loop { Kind::Cont } else { Kind::Diag } }
        else if spec_kw(t) == kw_break() { if in_loop { Kind::Brk } else { Kind::Diag } }
        else { Kind::Cmd }
    }
    else if pair_rule(p) == Rule::EXP_IF { Kind::If }
    else if pair_rule(p) == Rule::EXP_FOR { Kind::For }
    else if pair_rule(p) == Rule::EXP_WHILE { Kind::While }
    else { Kind::Nothing }
}
// the positional-parameter pass over a line (contract in U-ARGS): here a function of the line and of the arguments
pub uninterp spec fn spec_expand_args(line: Seq<char>, args: Seq<String>) -> Seq<char>;
// the runner a statement is handed to
pub open spec fn ev_of(p: VxPair, in_loop: bool, args: Seq<String>) -> Seq<Ev> {
    match kind_of(p, in_loop) {
        Kind::Cmd => seq![Ev::Cmd(spec_expand_args(spec_trim(pair_text(p)), args.skip(1)))],
        Kind::If => seq![Ev::If(p, in_loop)],
        Kind::For => seq![Ev::For(p)],
        Kind::While => seq![Ev::While(p)],
        _ => Seq::empty(),
    }
}
pub open spec fn evs_upto(ch: Seq<VxPair>, n: int, in_loop: bool, args: Seq<String>) -> Seq<Ev>
    decreases n
{
    if n <= 0 { Seq::empty() } else { evs_upto(ch, n - 1, in_loop, args) + ev_of(ch[n - 1], in_loop, args) }
}
// statement k (node p) did not ask to leave the body: it is neither `continue` / `break` in a loop nor an `if` that met one
pub open spec fn exit_none(ifs: Seq<Option<(bool, bool)>>, in_loop: bool, p: VxPair, k: int) -> bool {
    match kind_of(p, in_loop) {
        Kind::Cont => false,
        Kind::Brk => false,
        Kind::If => ifs[k].is_some() && !ifs[k].unwrap().0 && !ifs[k].unwrap().1,
        _ => true,
    }
}
// the (continue, break) answer statement k (node p) gives when it ends the body
pub open spec fn exit_flags(ifs: Seq<Option<(bool, bool)>>, in_loop: bool, p: VxPair, k: int) -> Option<(bool, bool)> {
    match kind_of(p, in_loop) {
        Kind::Cont => Some((true, false)),
        Kind::Brk => Some((false, true)),
        Kind::If => if ifs[k].is_some() && ifs[k].unwrap().0 { Some((true, false)) } else if ifs[k].is_some() && ifs[k].unwrap().1 { Some((false, true)) } else { None },
        _ => None,
    }
}
// nothing was started after a statement that left the stop rule true
pub open spec fn nothing_after_stop(lg: RunLog) -> bool { forall|k: int| 0 <= k < lg.checks.len() && (#[trigger] lg.checks[k]).0 ==> lg.checks[k].1 == lg.started }
// ... so far: every check made before the current statement was negative
pub open spec fn no_stop_so_far(lg: RunLog) -> bool { forall|k: int| 0 <= k < lg.checks.len() ==> !(#[trigger] lg.checks[k]).0 }

// ---- what a statement runs: external, any effect on the shell (a statement may itself be `set -e` / `set +e`) ----
#[verifier::external_body]
pub fn expand_args(line: &str, args: &[String]) -> (r: String) ensures r@ == spec_expand_args(line@, args@) { unimplemented!() }
#[verifier::external_body]
pub fn vx_args_tail(args: &Vec<String>) -> (r: &[String]) requires args@.len() >= 1 ensures r@ == args@.skip(1) { &args[1..] }
#[verifier::external_body]
pub fn run_command_line(sh: &mut Shell, line: &str, tty: bool, capture: bool) -> (r: Vec<CommandResult>) { unimplemented!() }
// the stand-ins of the runners a body hands its statements to record, themselves, what they were given (C14: the line / the node, and for an `if` the in_loop flag)
#[verifier::external_body]
pub fn run_command_line_ev(sh: &mut Shell, line: &str, tty: bool, capture: bool, Tracked(lg): Tracked<&mut RunLog>) -> (r: Vec<CommandResult>)
    ensures final(lg).evs == old(lg).evs.push(Ev::Cmd(line@)), final(lg).started == old(lg).started, final(lg).checks == old(lg).checks, final(lg).ifs == old(lg).ifs, final(lg).in_loop == old(lg).in_loop, final(lg).node == old(lg).node, final(lg).diagnosed == old(lg).diagnosed
{ unimplemented!() }
#[verifier::external_body]
pub fn run_exp_if(sh: &mut Shell, pair_if: VxPair, args: &Vec<String>, in_loop: bool, capture: bool, Tracked(lg): Tracked<&mut RunLog>) -> (r: (Vec<CommandResult>, bool, bool))
    ensures final(lg).evs == old(lg).evs.push(Ev::If(pair_if, in_loop)), final(lg).started == old(lg).started, final(lg).checks == old(lg).checks, final(lg).ifs == old(lg).ifs, final(lg).in_loop == old(lg).in_loop, final(lg).node == old(lg).node, final(lg).diagnosed == old(lg).diagnosed
{ unimplemented!() }
#[verifier::external_body]
pub fn run_exp_for(sh: &mut Shell, pair_for: VxPair, args: &Vec<String>, capture: bool, Tracked(lg): Tracked<&mut RunLog>) -> (r: Vec<CommandResult>)
    ensures final(lg).evs == old(lg).evs.push(Ev::For(pair_for)), final(lg).started == old(lg).started, final(lg).checks == old(lg).checks, final(lg).ifs == old(lg).ifs, final(lg).in_loop == old(lg).in_loop, final(lg).node == old(lg).node, final(lg).diagnosed == old(lg).diagnosed
{ unimplemented!() }

// ---- run_exp_if: the branches are tried in the order they are written, up to and including the first whose test passes ----
// per branch tried: (its test passed, it met `continue`, it met `break`)
// (C14) calls: the node and the in_loop flag each call of the branch runner was given, in order (recorded by the runner's stand-in itself)
pub ghost struct IfLog { pub tried: Seq<(bool, bool, bool)>, pub calls: Seq<(VxPair, bool)> }
#[verifier::external_body]
pub proof fn new_iflog() -> (tracked r: IfLog) ensures r.tried.len() == 0, r.calls.len() == 0 { unimplemented!() }
#[verifier::external_body]
pub proof fn note_branch(tracked il: &mut IfLog, passed: bool, cont: bool, brk: bool)
    ensures final(il).tried == old(il).tried.push((passed, cont, brk)), final(il).calls == old(il).calls
{ unimplemented!() }
// (C14) while: every call is on the while node with in_loop = true, one call per round
pub open spec fn while_rounds(wl: IfLog, node: VxPair) -> bool {
    wl.calls.len() == wl.tried.len() && forall|k: int| 0 <= k < wl.calls.len() ==> (#[trigger] wl.calls[k]) == (node, true)
}
// the first n rounds passed their test and met no break
pub open spec fn while_goes_on(wl: IfLog, n: int) -> bool { forall|k: int| 0 <= k < n ==> (#[trigger] wl.tried[k]).0 && !wl.tried[k].2 }
pub open spec fn none_passed(il: IfLog) -> bool { forall|k: int| 0 <= k < il.tried.len() ==> !(#[trigger] il.tried[k]).0 }
pub open spec fn only_the_last_passed(il: IfLog) -> bool { forall|k: int| 0 <= k < il.tried.len() - 1 ==> !(#[trigger] il.tried[k]).0 }

// ---- run_exp_for: one round per word of the list, in order, with the variable set to that word ----
pub ghost struct ForLog { pub rounds: Seq<(Seq<char>, Seq<char>)> }
#[verifier::external_body]
pub proof fn new_forlog() -> (tracked r: ForLog) ensures r.rounds.len() == 0 { unimplemented!() }
pub open spec fn rounds_of(name: Seq<char>, words: Seq<String>, n: int) -> Seq<(Seq<char>, Seq<char>)> { Seq::new(n as nat, |k: int| (name, words[k]@)) }
impl Shell {
    // Shell::set_env (contract in U-ENV): here only the record of which name got which value, in order
    #[verifier::external_body]
    pub fn set_env(&mut self, name: &str, value: &str, Tracked(fl): Tracked<&mut ForLog>)
        ensures final(fl).rounds == old(fl).rounds.push((name@, value@)), *final(self) == *old(self)
    { unimplemented!() }
}
#[verifier::external_body]
pub fn get_for_var_name(pair_head: VxPair) -> (r: String) { unimplemented!() }
// ---- the words of a `for` head (C14: "for binds each word of its list in order"): the TEST children of its FOR_INIT child are expanded (positional parameters,
// then the other expansions: expand_line_to_toknes below); an unquoted token gives its blank-separated words, a quoted token is one word as it stands ----
pub uninterp spec fn spec_split_ws(t: Seq<char>) -> Seq<Seq<char>>;
#[verifier::external_body]
pub fn vx_split_ws(t: &String) -> (r: Vec<String>) ensures strs(r@) == spec_split_ws(t@) { unimplemented!() }
pub open spec fn strs(v: Seq<String>) -> Seq<Seq<char>> { v.map_values(|x: String| x@) }
pub open spec fn tok_words(t: (String, String)) -> Seq<Seq<char>> { if t.0@.len() == 0 { spec_split_ws(t.1@) } else { seq![t.1@] } }
pub open spec fn toks_words(ts: Seq<(String, String)>, n: int) -> Seq<Seq<char>>
    decreases n
{
    if n <= 0 { Seq::empty() } else { toks_words(ts, n - 1) + tok_words(ts[n - 1]) }
}
pub proof fn lemma_lists_words_prefix(a: Seq<Seq<(String, String)>>, b: Seq<Seq<(String, String)>>, n: int)
    requires 0 <= n <= b.len(), b.len() <= a.len(), forall|k: int| 0 <= k < n ==> a[k] == b[k]
    ensures lists_words(a, n) == lists_words(b, n)
    decreases n
{
    if n > 0 { lemma_lists_words_prefix(a, b, n - 1); }
}
// what the expansion of the list made of each TEST child, in order (recorded where the token lists are obtained)
pub ghost struct WordLog { pub lists: Seq<Seq<(String, String)>>, pub lines: Seq<Seq<char>>, pub args: Seq<Seq<String>>, pub node: Option<VxPair> }
#[verifier::external_body]
pub proof fn new_wordlog() -> (tracked r: WordLog) ensures r.lists.len() == 0, r.lines.len() == 0, r.args.len() == 0, r.node.is_none() { unimplemented!() }
#[verifier::external_body]
pub proof fn note_init_node(tracked wl: &mut WordLog, p: VxPair)
    ensures final(wl).lists == old(wl).lists, final(wl).lines == old(wl).lines, final(wl).args == old(wl).args, final(wl).node == Some(p)
{ unimplemented!() }
#[verifier::external_body]
pub proof fn note_list(tracked wl: &mut WordLog, line: Seq<char>, args: Seq<String>, ts: Seq<(String, String)>)
    ensures final(wl).lists == old(wl).lists.push(ts), final(wl).lines == old(wl).lines.push(line), final(wl).args == old(wl).args.push(args), final(wl).node == old(wl).node
{ unimplemented!() }
pub open spec fn lists_words(ls: Seq<Seq<(String, String)>>, n: int) -> Seq<Seq<char>>
    decreases n
{
    if n <= 0 { Seq::empty() } else { lists_words(ls, n - 1) + toks_words(ls[n - 1], ls[n - 1].len() as int) }
}
// the TEST children among the first n children of the FOR_INIT node: their trimmed texts
pub open spec fn test_lines(ch: Seq<VxPair>, n: int) -> Seq<Seq<char>>
    decreases n
{
    if n <= 0 { Seq::empty() } else if pair_rule(ch[n - 1]) == Rule::TEST { test_lines(ch, n - 1).push(spec_trim(pair_text(ch[n - 1]))) } else { test_lines(ch, n - 1) }
}
// the first node with a given rule among the first n children
pub open spec fn first_of(ch: Seq<VxPair>, r: Rule, n: int) -> Option<VxPair>
    decreases n
{
    if n <= 0 { None } else { match first_of(ch, r, n - 1) { Some(p) => Some(p), None => if pair_rule(ch[n - 1]) == r { Some(ch[n - 1]) } else { None } } }
}
pub proof fn lemma_first_of_stays(ch: Seq<VxPair>, r: Rule, i: int, n: int)
    requires 0 <= i <= n, first_of(ch, r, i).is_some()
    ensures first_of(ch, r, n) == first_of(ch, r, i)
    decreases n
{
    if n > i { lemma_first_of_stays(ch, r, i, n - 1); }
}
// the variable of a for head: the trimmed text of the first FOR_VAR child of its first FOR_INIT child
pub open spec fn var_of_init(init: VxPair) -> Option<Seq<char>> {
    match first_of(pair_children(init), Rule::FOR_VAR, pair_children(init).len() as int) { Some(v) => Some(spec_trim(pair_text(v))), None => None }
}
pub open spec fn for_var_of(head: VxPair) -> Option<Seq<char>> {
    match first_of(pair_children(head), Rule::FOR_INIT, pair_children(head).len() as int) { Some(init) => var_of_init(init), None => None }
}
// the words a head yields: uninterpreted at the call site in run_exp_for (the clause there compares argument vectors); get_for_result_list is verified below against the lists it obtained
pub uninterp spec fn for_words(head: VxPair, args: Seq<String>) -> Seq<String>;
#[verifier::external_body]
pub fn get_for_result_list(sh: &mut Shell, pair_head: VxPair, args: &[String]) -> (r: Vec<String>) ensures r@ == for_words(pair_head, args@) { unimplemented!() }
#[verifier::external_body]
pub fn vx_tail_slice(args: &[String]) -> (r: &[String]) requires args@.len() >= 1 ensures r@ == args@.skip(1) { &args[1..] }
#[verifier::external_body]
pub fn vx_clone_tok(t: &(String, String)) -> (r: (String, String)) ensures r.0@ == t.0@, r.1@ == t.1@ { t.clone() }
#[verifier::external_body]
pub fn vx_clone_string(t: &String) -> (r: String) ensures r@ == t@ { t.clone() }
#[verifier::external_body]
pub fn vx_args_slice(args: &Vec<String>) -> (r: &[String]) ensures r@ == args@ { args.as_slice() }

// ---- expand_line_to_toknes: the passes over the words of a `for` head, in the order they are applied ----
pub struct LineInfo { pub tokens: Vec<(String, String)>, pub is_complete: bool }
// the stand-ins record what they are given: the line that is tokenized, the arguments of the positional-parameter pass
pub ghost struct PassLog { pub passes: Seq<int>, pub line: Seq<char>, pub args: Seq<String> }
#[verifier::external_body]
pub fn parse_line(line: &str, Tracked(pl): Tracked<&mut PassLog>) -> (r: LineInfo)
    ensures final(pl).passes == old(pl).passes, final(pl).line == line@, final(pl).args == old(pl).args
{ unimplemented!() }
#[verifier::external_body]
pub proof fn new_passlog() -> (tracked r: PassLog) ensures r.passes.len() == 0 { unimplemented!() }
// pass 1: positional parameters ($0 $1 .. $@) -- contract in U-ARGS;  pass 2: every other expansion -- contracts in U-EXP1..3
#[verifier::external_body]
pub fn expand_args_in_tokens(tokens: &mut Vec<(String, String)>, args: &[String], Tracked(pl): Tracked<&mut PassLog>)
    ensures final(pl).passes == old(pl).passes.push(1int), final(pl).line == old(pl).line, final(pl).args == args@
{ unimplemented!() }
#[verifier::external_body]
pub fn do_expansion(sh: &mut Shell, tokens: &mut Vec<(String, String)>, Tracked(pl): Tracked<&mut PassLog>)
    ensures final(pl).passes == old(pl).passes.push(2int), final(pl).line == old(pl).line, final(pl).args == old(pl).args
{ unimplemented!() }
#[verifier::external_body]
pub fn run_exp_test_br(sh: &mut Shell, pair_br: VxPair, args: &Vec<String>, in_loop: bool, capture: bool, Tracked(il): Tracked<&mut IfLog>) -> (r: (Vec<CommandResult>, bool, bool, bool))
    ensures final(il).calls == old(il).calls.push((pair_br, in_loop)), final(il).tried == old(il).tried
{ unimplemented!() }
#[verifier::external_body]
pub fn vx_eprintln(s: &str) { }
#[verifier::external_body]
pub fn vx_eprint_err(e: &VxParseErr, Tracked(lg): Tracked<&mut RunLog>)
    ensures final(lg).started == old(lg).started, final(lg).checks == old(lg).checks, final(lg).evs == old(lg).evs, final(lg).ifs == old(lg).ifs,
            final(lg).in_loop == old(lg).in_loop, final(lg).node == old(lg).node, final(lg).diagnosed
{ }

// ---- run_exp_test_br: the branch of an if / else-if / while is entered iff the LAST pipeline of its test line succeeded (or it is the else branch) ----
// pass: some test of the branch passed (or it is the else branch); outs: what the commands of its tests wrote to stdout / stderr, in order
// (C14) visited: how many children of the branch node were looked at; tests: the command lines run as tests, in order; body: the node, the in_loop flag and the
// (continue, break) answer of the body that was run (at most one)
pub ghost struct TestLog { pub pass: bool, pub outs: Seq<(Seq<char>, Seq<char>)>, pub visited: int, pub tests: Seq<Seq<char>>, pub body: Seq<(VxPair, bool, bool, bool)> }
#[verifier::external_body]
pub proof fn note_test(tracked tl: &mut TestLog, ok: bool)
    ensures final(tl).pass == (old(tl).pass || ok), final(tl).outs == old(tl).outs, final(tl).visited == old(tl).visited, final(tl).tests == old(tl).tests, final(tl).body == old(tl).body { unimplemented!() }
pub open spec fn outs_of(c: Seq<CommandResult>) -> Seq<(Seq<char>, Seq<char>)> { c.map_values(|x: CommandResult| (x.stdout@, x.stderr@)) }
#[verifier::external_body]
pub proof fn note_outs(tracked tl: &mut TestLog, c: Seq<CommandResult>)
    ensures final(tl).pass == old(tl).pass, final(tl).outs == old(tl).outs + outs_of(c), final(tl).visited == old(tl).visited, final(tl).tests == old(tl).tests, final(tl).body == old(tl).body { unimplemented!() }
#[verifier::external_body]
pub proof fn note_visit(tracked tl: &mut TestLog)
    ensures final(tl).pass == old(tl).pass, final(tl).outs == old(tl).outs, final(tl).visited == old(tl).visited + 1, final(tl).tests == old(tl).tests, final(tl).body == old(tl).body { unimplemented!() }
#[verifier::external_body]
pub proof fn note_test_line(tracked tl: &mut TestLog, line: Seq<char>)
    ensures final(tl).pass == old(tl).pass, final(tl).outs == old(tl).outs, final(tl).visited == old(tl).visited, final(tl).tests == old(tl).tests.push(line), final(tl).body == old(tl).body { unimplemented!() }
#[verifier::external_body]
pub proof fn note_body(tracked tl: &mut TestLog, node: VxPair, in_loop: bool, c: bool, b: bool)
    ensures final(tl).pass == old(tl).pass, final(tl).outs == old(tl).outs, final(tl).visited == old(tl).visited, final(tl).tests == old(tl).tests, final(tl).body == old(tl).body.push((node, in_loop, c, b)) { unimplemented!() }
pub open spec fn is_head(r: Rule) -> bool { r == Rule::IF_HEAD || r == Rule::IF_ELSEIF_HEAD || r == Rule::WHILE_HEAD }
// the TEST child of a head node (first child by the grammar)
pub uninterp spec fn spec_head_test(head: VxPair) -> VxPair;
// the test lines of the first n children of a branch node: the text of each head's test after the positional-parameter pass
pub open spec fn tests_upto(ch: Seq<VxPair>, n: int, args: Seq<String>) -> Seq<Seq<char>>
    decreases n
{
    if n <= 0 { Seq::empty() }
    else if is_head(pair_rule(ch[n - 1])) { tests_upto(ch, n - 1, args).push(spec_expand_args(spec_trim(pair_text(spec_head_test(ch[n - 1]))), args.skip(1))) }
    else { tests_upto(ch, n - 1, args) }
}
pub open spec fn no_body_before(ch: Seq<VxPair>, n: int) -> bool { forall|k: int| 0 <= k < n ==> pair_rule(#[trigger] ch[k]) != Rule::EXP_BODY }
// the results of the tests come first in the result list of a branch, with what they wrote, and with status 0 (the status of a test picks the branch,
// it is not a failure of the script: `set -e` and the status of the construct do not see it)
pub open spec fn tests_first(c: Seq<CommandResult>, tl: TestLog) -> bool {
    tl.outs.len() <= c.len() && forall|k: int| 0 <= k < tl.outs.len() ==> (#[trigger] c[k]).status == 0 && (c[k].stdout@, c[k].stderr@) == tl.outs[k]
}
#[verifier::external_body]
pub fn vx_clone_cr(c: &CommandResult) -> (r: CommandResult) ensures r == *c { unimplemented!() }
// the TEST child of an IF_HEAD / IF_ELSEIF_HEAD / WHILE_HEAD node (first child by the grammar: assumed)
#[verifier::external_body]
pub fn vx_head_test(head: VxPair) -> (r: VxPair) ensures r == spec_head_test(head) { unimplemented!() }
// grammar: a branch node has only heads, `else` and a body as children (assumed)
#[verifier::external_body]
pub fn vx_unreachable_by_grammar() { }
// ---- run_script (C15): the functions of a file are taken out of it and defined -- name and body as written -- BEFORE its other lines are run, in order;
// the status is that of the last command run; a `set -e` of the file ends with it ----
// reading the file (path lookup, errors, line continuations): opaque; None = a diagnostic was printed, the script returns 1
#[verifier::external_body]
pub fn vx_load_script(args: &Vec<String>) -> (r: Option<String>) { unimplemented!() }
#[verifier::external_body]
pub fn vx_lines(text: &String) -> (r: Vec<String>) { unimplemented!() }
// the two patterns: a header line gives the name; the closing line (both uninterpreted; axiom fn_head says what they must accept)
pub uninterp spec fn spec_fn_head(t: Seq<char>) -> Option<Seq<char>>;
pub uninterp spec fn spec_fn_tail(t: Seq<char>) -> bool;
pub struct VxHeadRe { pub id: int }
pub struct VxTailRe { pub id: int }
pub struct VxHeadCap { pub g1: String }
#[verifier::external_body]
pub fn vx_re_head(ptn: &str) -> (r: VxHeadRe) { unimplemented!() }
#[verifier::external_body]
pub fn vx_re_tail(ptn: &str) -> (r: VxTailRe) { unimplemented!() }
impl VxHeadRe {
    #[verifier::external_body]
    pub fn is_match(&self, t: &str) -> (r: bool) ensures r == spec_fn_head(t@).is_some() { unimplemented!() }
    #[verifier::external_body]
    pub fn captures(&self, t: &str) -> (r: Option<VxHeadCap>) ensures r.is_some() == spec_fn_head(t@).is_some(), r.is_some() ==> r.unwrap().g1@ == spec_fn_head(t@).unwrap() { unimplemented!() }
}
impl VxTailRe {
    #[verifier::external_body]
    pub fn is_match(&self, t: &str) -> (r: bool) ensures r == spec_fn_tail(t@) { unimplemented!() }
}
#[verifier::external_body]
pub fn vx_push_str(s: &mut String, t: &str) ensures final(s)@ == old(s)@ + t@ { s.push_str(t) }
#[verifier::external_body]
pub fn vx_push_nl(s: &mut String) ensures final(s)@ == old(s)@.push('\n') { s.push('\n') }
pub ghost struct DefLog { pub defs: Seq<(Seq<char>, Seq<char>)> }
#[verifier::external_body]
pub proof fn new_deflog() -> (tracked r: DefLog) ensures r.defs.len() == 0 { unimplemented!() }
impl Shell {
    // Shell::set_func (contract in U-ENV: the later definition replaces the earlier one); here: what is defined, in order
    #[verifier::external_body]
    pub fn set_func(&mut self, name: &str, value: &str, Tracked(dl): Tracked<&mut DefLog>)
        ensures final(dl).defs == old(dl).defs.push((name@, value@)), *final(self) == *old(self)
    { unimplemented!() }
}
// THE SPECIFIED READING of a file: a header line opens a definition, the closing line ends it and defines the function with the lines in between;
// every other line belongs to the text that is run
pub struct FState { pub in_func: bool, pub name: Seq<char>, pub body: Seq<char>, pub defs: Seq<(Seq<char>, Seq<char>)>, pub rest: Seq<char> }
pub open spec fn fstep(st: FState, line: Seq<char>) -> FState {
    let t = spec_trim(line);
    if spec_fn_head(t).is_some() { FState { in_func: true, name: spec_fn_head(t).unwrap(), body: Seq::empty(), defs: st.defs, rest: st.rest } }
    else if spec_fn_tail(t) { FState { in_func: false, name: st.name, body: st.body, defs: st.defs.push((st.name, st.body)), rest: st.rest } }
    else if st.in_func { FState { in_func: true, name: st.name, body: (st.body + line).push('\n'), defs: st.defs, rest: st.rest } }
    else { FState { in_func: false, name: st.name, body: st.body, defs: st.defs, rest: (st.rest + line).push('\n') } }
}
pub open spec fn frun(lines: Seq<String>, n: int) -> FState
    decreases n
{
    if n <= 0 { FState { in_func: false, name: Seq::empty(), body: Seq::empty(), defs: Seq::empty(), rest: Seq::empty() } } else { fstep(frun(lines, n - 1), lines[n - 1]@) }
}
//@FN run_script
//@FN stopped_by_error
//@FN run_exp_while
//@FN run_exp
//@FN run_exp_test_br_real
//@FN run_exp_if_real
//@FN run_exp_for_real
//@FN expand_line_to_toknes
//@FN get_for_result_from_init
//@FN get_for_result_list_real
//@FN get_for_var_name_real
//@FN run_lines
''' + common.TAIL

S = 'src/scripting.rs'
RW = [
    Rw('shell::Shell', 'Shell', required=False, rule='R0'),
    Rw('Pair<parsers::locust::Rule>', 'VxPair', required=False, rule='R10', why='pest Pair through an opaque node type: text, rule and children uninterpreted'),
    Rw('parsers::locust::Rule::', 'Rule::', required=False, rule='R0'),
    Rw('parsers::locust::parse_lines(', 'parse_lines(', required=False, rule='R0'),
    Rw('execute::run_command_line(', 'run_command_line(', required=False, rule='R0'),
    Rw('&args[1..]', 'vx_args_tail(args)', required=False, rule='R12', why='slice from index 1: requires at least the script / function name in args'),
    Rw(r'println_stderr!\("([^"]*)"\);', r'vx_eprintln("\1");', regex=True, required=False, rule='R3', why='diagnostic output'),
    Rw(r'println_stderr!\("syntax error: \{:\?\}", e\);', 'vx_eprint_err(&e, Tracked(lg));', regex=True, required=False, rule='R3', why='diagnostic output'),
    Rw(r'(?<![_A-Za-z0-9])cr_list\.last\(\)', 'vx_slice_last(cr_list)', regex=True, required=False, rule='R12', why='<[T]>::last through a shim with the std contract'),
]

stopped_by_error = Fn(S, 'stopped_by_error', ret='r', pre_rewrites=RW,
    ensures=[('C15.stop_rule.last_result_failed_and_set_e_is_on', 'r == stop_spec(cr_list@, *sh)')])

run_exp = Fn(S, 'run_exp', ret='r', pre_rewrites=RW + [Rw('run_command_line(', 'run_command_line_ev(', rule='R0', why='the stand-in of run_command_line that records the line it is given')],
    add_params='Tracked(lg): Tracked<&mut RunLog>',
    requires=[('C05.pre.script.args_start_with_the_script_or_function_name', 'args@.len() >= 1'),
              ('C15.pre.run_exp.fresh_log', 'old(lg).started == 0 && old(lg).checks.len() == 0 && old(lg).evs.len() == 0 && old(lg).ifs.len() == 0')],
    let_types={'cr_list': 'Vec<CommandResult>'},
    loop_kinds={0: 'value', (0, 'clone'): 'vx_clone_pair(&{})'},
    ensures=[
        # every statement of the body is started, unless continue / break was met or a failing command under `set -e` ended the script
        ('C14+C15.run_exp.every_statement_runs_unless_continue_break_or_a_failure_under_set_e',
         'final(lg).started == pair_children(pair_in).len() || r.1 || r.2 || stop_spec(r.0@, *final(sh))'),
        # after `set -e` the first failing command ends the body: no statement is started after it, whatever kind of statement it was in
        ('C15.run_exp.nothing_runs_after_a_failing_command_under_set_e', 'nothing_after_stop(*final(lg))'),
        # (C14) the statements started are the first `started` children of the node, and each was handed, in order, to the runner of its kind:
        # a command line to run_command_line (after the positional-parameter pass), an if / for / while node to its runner (the if with this body's in_loop)
        ('C14.run_exp.the_statements_are_run_in_the_order_written_each_by_the_runner_of_its_kind',
         'final(lg).in_loop == in_loop && final(lg).node == pair_in && 0 <= final(lg).started <= pair_children(pair_in).len() '
         '&& final(lg).evs == evs_upto(pair_children(pair_in), final(lg).started, in_loop, args@)'),
        # (C14) `continue` / `break` (written here, or met by an `if` of this body) end the body at once and are reported to the caller -- the innermost loop --
        # and to nobody else: the answer is exactly that of the last statement started
        ('C14.run_exp.continue_and_break_end_the_body_at_once_and_are_what_the_last_statement_started_asked_for',
         '(r.1 || r.2) ==> (final(lg).started >= 1 && exit_flags(final(lg).ifs, in_loop, pair_children(pair_in)[final(lg).started - 1], final(lg).started - 1) == Some((r.1, r.2)))'),
        # (C14) ... and no statement that asked for one was passed over
        ('C14.run_exp.no_continue_or_break_is_passed_over',
         'forall|k: int| 0 <= k < final(lg).started - (if r.1 || r.2 { 1int } else { 0int }) ==> exit_none(final(lg).ifs, in_loop, #[trigger] pair_children(pair_in)[k], k)'),
    ],
    loops={0: Loop(invariant=[
        ('C05.inv.run_exp.args', 'args@.len() >= 1'),
        ('C15.inv.run_exp.started', 'lg.started == __i0'),
        ('C15.inv.run_exp.no_failure_so_far', 'no_stop_so_far(*lg)'),
        ('C11+C15.inv.run_exp.the_results_of_every_statement_are_kept_in_order', 'cr_list@ == g_all'),
        ('C14.inv.run_exp.dispatched_so_far', '__v0@ == pair_children(pair_in) && lg.in_loop == in_loop && lg.node == pair_in && lg.ifs.len() == __i0 '
                                              '&& lg.evs == evs_upto(__v0@, __i0 as int, in_loop, args@)'),
        ('C14.inv.run_exp.nobody_asked_to_leave_so_far', 'forall|k: int| 0 <= k < __i0 ==> exit_none(lg.ifs, in_loop, #[trigger] __v0@[k], k)'),
    ])},
    ghost_args={'run_exp_while': 'Tracked(&mut lgw), Tracked(&mut wlw)', 'run_command_line_ev': 'Tracked(lg)', 'run_exp_if': 'Tracked(lg)', 'run_exp_for': 'Tracked(lg)'},
    hints={'fn-entry': 'RAW: let ghost mut g_all: Seq<CommandResult> = Seq::empty(); proof { note_entry(lg, pair_in, in_loop); }',
           'after-call:run_command_line_ev': 'g_all = g_all + _cr_list@;', 'after-call:run_exp_if': 'g_all = g_all + _cr_list@; note_if(lg, _cont, _brk);',
           'after-call:run_exp_for': 'g_all = g_all + _cr_list@;', 'after-call:run_exp_while': 'g_all = g_all + _cr_list@; note_ev(lg, Ev::While(lgw.node));',
           'before-text-all:return (cr_list,': 'LABEL:C03+C11+C14+C15.run_exp.what_is_returned_holds_the_results_of_every_statement_run: assert(cr_list@ == g_all);',
           'loop-0-body-entry': 'note_start(lg);',
           'before-call:run_exp_while': 'RAW: let tracked mut lgw = new_log(); let tracked mut wlw = new_iflog();',
           'before-text:if stopped_by_error(sh, &cr_list) {': 'note_check(lg, stop_spec(cr_list@, *sh));'},
)

run_exp_while = Fn(S, 'run_exp_while', ret='r', pre_rewrites=RW,
    attrs=['#[verifier::exec_allows_no_decreases_clause]'],
    add_params='Tracked(lg): Tracked<&mut RunLog>, Tracked(wl): Tracked<&mut IfLog>',
    ghost_args={'run_exp_test_br': 'Tracked(wl)'},
    requires=[('C15.pre.while.fresh_log', 'old(lg).started == 0 && old(lg).checks.len() == 0 && old(wl).tried.len() == 0 && old(wl).calls.len() == 0')],
    let_types={'cr_list': 'Vec<CommandResult>'},
    ensures=[('C15.while.no_round_after_a_failing_command_under_set_e', 'nothing_after_stop(*final(lg)) && final(lg).node == pair_while'),
             # (C14) every round is one call of the branch runner on the while node itself -- which runs the test first and the body only if it passed -- as a loop body
             ('C14.while.the_test_is_run_again_before_every_round', 'while_rounds(*final(wl), pair_while)'),
             # (C14) a round follows exactly when the test passed, no `break` was met (a `continue` goes on to the next test) and no failure under `set -e` ended the script
             ('C14.while.the_loop_goes_on_exactly_while_the_test_passes_and_no_break_is_met',
              'final(wl).tried.len() >= 1 && while_goes_on(*final(wl), final(wl).tried.len() - 1) '
              '&& (!final(wl).tried.last().0 || final(wl).tried.last().2 || stop_spec(r@, *final(sh)))')],
    loops={0: Loop(invariant_except_break=[('C15.inv.while.no_failure_so_far', 'no_stop_so_far(*lg)'),
                                           ('C14.inv.while.every_round_so_far_passed_without_break', 'while_goes_on(*wl, wl.tried.len() as int)')],
                   invariant=[('C11+C15.inv.while.the_results_of_every_round_are_kept_in_order', 'cr_list@ == g_all && lg.node == pair_while'),
                              ('C14.inv.while.rounds', 'while_rounds(*wl, pair_while)')],
                   ensures=[('C15.while.loop_left_with_nothing_after_a_failure', 'nothing_after_stop(*lg)'),
                            ('C14.while.loop_left_at_the_first_round_that_failed_its_test_or_met_break',
                             'wl.tried.len() >= 1 && while_goes_on(*wl, wl.tried.len() - 1) && (!wl.tried.last().0 || wl.tried.last().2 || stop_spec(cr_list@, *sh))')])},
    hints={'fn-entry': 'RAW: let ghost mut g_all: Seq<CommandResult> = Seq::empty(); proof { note_entry(lg, pair_while, true); }',
           'after-call:run_exp_test_br': 'g_all = g_all + _cr_list@; note_branch(wl, passed, _cont, _brk);',
           'loop-0-body-entry': 'note_start(lg);',
           'before-text:if !passed': 'note_check(lg, stop_spec(cr_list@, *sh));'},
)

run_lines = Fn(S, 'run_lines', ret='r', pre_rewrites=RW,
    add_params='Tracked(lg): Tracked<&mut RunLog>',
    ghost_args={'run_exp': 'Tracked(&mut lg2)'},
    requires=[('C05.pre.lines.args_start_with_the_script_or_function_name', 'args@.len() >= 1'),
              ('C15.pre.lines.fresh_log', 'old(lg).started == 0 && old(lg).checks.len() == 0 && !old(lg).diagnosed')],
    let_types={'cr_list': 'Vec<CommandResult>'},
    loop_kinds={0: 'value', (0, 'clone'): 'vx_clone_pair(&{})'},
    ensures=[('C15.lines.no_statement_after_a_failing_command_under_set_e', 'nothing_after_stop(*final(lg))'),
             # (C14) a text the grammar rejects (block keywords that do not balance) is diagnosed and nothing of it is run
             ('C14.lines.a_text_that_is_not_a_well_formed_script_is_diagnosed_and_nothing_of_it_runs',
              'spec_parse(lines@).is_none() ==> (final(lg).diagnosed && final(lg).started == 0 && r@.len() == 0)'),
             ('C14.lines.every_top_level_node_is_run_unless_a_failure_under_set_e_ends_the_script',
              'spec_parse(lines@).is_some() ==> (final(lg).started == spec_parse(lines@).unwrap().len() || stop_spec(r@, *final(sh)))')],
    loops={0: Loop(invariant=[('C05.inv.lines.args', 'args@.len() >= 1'), ('C11+C15.inv.lines.the_results_of_every_statement_are_kept_in_order', 'cr_list@ == g_all'),
                              ('C14.inv.lines.nodes', 'spec_parse(lines@) == Some(__v0@) && lg.started == __i0')],
                   invariant_except_break=[('C15.inv.lines.no_failure_so_far', 'no_stop_so_far(*lg)')],
                   ensures=[('C15.lines.loop_left_with_nothing_after_a_failure', 'nothing_after_stop(*lg)'),
                            ('C14.lines.loop_left_early_only_at_a_failure_under_set_e', 'lg.started == __v0@.len() || stop_spec(cr_list@, *sh)')])},
    hints={'fn-entry': 'RAW: let ghost mut g_all: Seq<CommandResult> = Seq::empty();',
           'after-call:run_exp': 'g_all = g_all + _cr_list@; ;;; LABEL:C14.lines.a_top_level_node_is_run_outside_any_loop: assert(lg2.node == pair && !lg2.in_loop && pair == __v0@[__i0 - 1]);',
           'loop-0-body-entry': 'note_start(lg);',
           'before-call:run_exp': 'RAW: let tracked mut lg2 = new_log();',
           'before-text:if stopped_by_error(sh, &cr_list) {': 'note_check(lg, stop_spec(cr_list@, *sh));'},
)

test_br = Fn(S, 'run_exp_test_br', rename='run_exp_test_br_real', ret='r',
    pre_rewrites=RW + [
        Rw(r'let pairs_test: Vec<VxPair> =[\s\S]*?let pair_test = &pairs_test\[0\];', 'let pair_test = vx_head_test(pair);', regex=True, rule='R10',
           why='the TEST child of a head node (collect + index 0): through a shim, its existence is a fact of the grammar'),
        Rw('unreachable!();', 'vx_unreachable_by_grammar();', rule='R10', why='unreachable by the grammar (a branch has only heads, else and a body): assumed'),
        Rw('_cr_list.last()', 'vx_slice_last(_cr_list.as_slice())', required=False, rule='R12'),
    ],
    add_params='Tracked(tl): Tracked<&mut TestLog>',
    ghost_args={'run_exp': 'Tracked(&mut lg2)'},
    requires=[('C05.pre.test_br.args', 'args@.len() >= 1'), ('C03+C15.pre.test_br.fresh', '!old(tl).pass && old(tl).outs.len() == 0 && old(tl).visited == 0 && old(tl).tests.len() == 0 && old(tl).body.len() == 0')],
    let_types={'cr_list': 'Vec<CommandResult>'},
    loop_kinds={0: 'value', (0, 'clone'): 'vx_clone_pair(&{})', 1: 'value', (1, 'clone'): 'vx_clone_cr(&{})'},
    ensures=[('C03+C14+C15.test_br.a_branch_is_taken_iff_the_last_pipeline_of_a_test_of_it_succeeded_or_it_is_the_else_branch', 'r.1 == final(tl).pass'),
             ('C11+C15.test_br.what_the_tests_wrote_is_in_the_result_list_and_their_status_is_not_a_failure', 'tests_first(r.0@, *final(tl))'),
             # (C14) the children of the branch node are looked at in order up to (and including) its body; the test of every head on the way is run, as written, after the positional-parameter pass
             ('C14.test_br.the_tests_run_are_those_of_the_heads_written_before_the_body_in_order',
              '0 <= final(tl).visited <= pair_children(pair_br).len() && final(tl).tests == tests_upto(pair_children(pair_br), final(tl).visited, args@) '
              '&& no_body_before(pair_children(pair_br), final(tl).visited - 1) '
              '&& (final(tl).visited == pair_children(pair_br).len() || pair_rule(pair_children(pair_br)[final(tl).visited - 1]) == Rule::EXP_BODY)'),
             # (C14) the body is run exactly when the test passed (or this is the else branch), once, inside the same loop as the construct, and its continue / break are reported
             ('C14.test_br.the_body_runs_exactly_when_the_test_passed_and_its_continue_or_break_is_reported',
              'final(tl).body.len() <= 1 '
              '&& (final(tl).body.len() == 1 <==> (final(tl).pass && final(tl).visited >= 1 && pair_rule(pair_children(pair_br)[final(tl).visited - 1]) == Rule::EXP_BODY)) '
              '&& (final(tl).body.len() == 1 ==> final(tl).body[0] == (pair_children(pair_br)[final(tl).visited - 1], in_loop, r.2, r.3)) '
              '&& (final(tl).body.len() == 0 ==> (!r.2 && !r.3))')],
    loops={0: Loop(invariant=[('C03+C15.inv.test_br.flag', 'test_pass == tl.pass && args@.len() >= 1'),
                              ('C10+C14.inv.test_br.the_shell_is_as_the_last_test_left_it', '*sh == g_sh'),
                              ('C11+C15.inv.test_br.tests_first', 'tests_first(cr_list@, *tl) && cr_list@.len() == tl.outs.len()'),
                              ('C14.inv.test_br.visited', '__v0@ == pair_children(pair_br) && tl.visited == __i0 && tl.tests == tests_upto(__v0@, __i0 as int, args@) && no_body_before(__v0@, __i0 as int) && tl.body.len() == 0')]),
           1: Loop(invariant=[('C03+C15.inv.test_br.flag_while_the_results_are_kept', 'test_pass == tl.pass && args@.len() >= 1'),
                              ('C10+C14.inv.test_br.the_shell_is_as_the_test_left_it_while_the_results_are_kept', '*sh == g_sh'),
                              ('C11+C15.inv.test_br.appending', 'cr_list@.len() == g_n + __i1 && tl.outs.len() == g_n + __v1@.len() && tl.outs.subrange(g_n as int, tl.outs.len() as int) == outs_of(__v1@) '
                               '&& forall|k: int| 0 <= k < cr_list@.len() ==> (#[trigger] cr_list@[k]).status == 0 && (cr_list@[k].stdout@, cr_list@[k].stderr@) == tl.outs[k]'),
                              ('C14.inv.test_br.visited_inner', '__v0@ == pair_children(pair_br) && tl.visited == __i0 && tl.tests == tests_upto(__v0@, __i0 as int, args@) && no_body_before(__v0@, __i0 as int) && tl.body.len() == 0 && __i0 >= 1 && is_head(pair_rule(__v0@[__i0 - 1]))')])},
    hints={'fn-entry': 'RAW: let ghost mut g_sh: Shell = *sh;',
           'after-call:run_command_line': 'note_test(tl, _cr_list@.len() > 0 && _cr_list@.last().status == 0); ;;; RAW: let ghost g_n = cr_list@.len(); proof { note_outs(tl, _cr_list@); g_sh = *sh; }',
           'before-call:run_command_line': 'note_test_line(tl, line_new@);',
           'before-text-all:test_pass = true;': 'note_test(tl, true);',
           'loop-0-body-entry': 'note_visit(tl);',
           'loop-1-body-entry': 'assert(tl.outs.subrange(g_n as int, tl.outs.len() as int)[__i1 as int] == outs_of(__v1@)[__i1 as int]); assert(tl.outs[g_n + __i1] == (__v1@[__i1 as int].stdout@, __v1@[__i1 as int].stderr@));',
           'before-call:run_exp': 'RAW: let tracked mut lg2 = new_log(); ;;; LABEL:C10+C14.test_br.the_body_sees_the_status_and_the_shell_as_the_test_left_them: assert(*sh == g_sh);',
           'after-call:run_exp': 'note_body(tl, lg2.node, lg2.in_loop, _cont, _brk);'},
)

exp_if = Fn(S, 'run_exp_if', rename='run_exp_if_real', ret='r', pre_rewrites=RW,
    add_params='Tracked(il): Tracked<&mut IfLog>',
    ghost_args={'run_exp_test_br': 'Tracked(il)'},
    requires=[('C14+C15.pre.if.fresh_log', 'old(il).tried.len() == 0 && old(il).calls.len() == 0')],
    let_types={'cr_list': 'Vec<CommandResult>'},
    loop_kinds={0: 'value', (0, 'clone'): 'vx_clone_pair(&{})'},
    ensures=[
        ('C14+C15.if.branches_are_tried_in_order_up_to_the_first_whose_test_passes',
         'only_the_last_passed(*final(il)) && final(il).tried.len() <= pair_children(pair_if).len()'
         ' && (final(il).tried.len() == pair_children(pair_if).len() || (final(il).tried.len() > 0 && final(il).tried.last().0))'),
        ('C14+C15.if.continue_and_break_are_those_of_the_last_branch_tried',
         'final(il).tried.len() > 0 ==> (r.1 == final(il).tried.last().1 && r.2 == final(il).tried.last().2)'),
        # (C14) the k-th branch tried is the k-th branch written, and it is run inside the same loop (or outside any) as the `if` itself
        ('C14.if.the_branches_tried_are_the_branches_written_in_order_each_inside_the_same_loop_as_the_if',
         'final(il).calls.len() == final(il).tried.len() && forall|k: int| 0 <= k < final(il).calls.len() ==> (#[trigger] final(il).calls[k]) == (pair_children(pair_if)[k], in_loop)'),
        ('C14.if.without_a_branch_there_is_no_continue_or_break', 'final(il).tried.len() == 0 ==> (!r.1 && !r.2)'),
    ],
    loops={0: Loop(invariant_except_break=[('C14+C15.inv.if.tried', 'il.tried.len() == __i0 && none_passed(*il)')],
                   invariant=[('C11+C15.inv.if.the_results_of_every_branch_tried_are_kept_in_order', 'cr_list@ == g_all'), ('C14+C15.inv.if.flags', 'il.tried.len() <= __v0@.len() && __v0@ == pair_children(pair_if) && (il.tried.len() > 0 ==> (met_continue == il.tried.last().1 && met_break == il.tried.last().2))'),
                              ('C14.inv.if.calls', 'il.calls.len() == il.tried.len() && (il.tried.len() == 0 ==> (!met_continue && !met_break)) && forall|k: int| 0 <= k < il.calls.len() ==> (#[trigger] il.calls[k]) == (__v0@[k], in_loop)')],
                   ensures=[('C14+C15.if.loop_left_at_the_end_or_at_the_first_branch_that_passed',
                             'only_the_last_passed(*il) && (il.tried.len() == __v0@.len() || (il.tried.len() > 0 && il.tried.last().0))')])},
    hints={'fn-entry': 'RAW: let ghost mut g_all: Seq<CommandResult> = Seq::empty();',
           'after-call:run_exp_test_br': 'note_branch(il, passed, _cont, _brk); g_all = g_all + _cr_list@;'},
)

exp_for = Fn(S, 'run_exp_for', rename='run_exp_for_real', ret='r',
    pre_rewrites=RW + [Rw('get_for_result_list(sh, pair.clone(), args)', 'get_for_result_list(sh, pair.clone(), vx_args_slice(args))', required=False, rule='R12', why='&Vec<String> to &[String] (deref coercion) through a shim')],
    ghost_args={'run_exp': 'Tracked(&mut lg2)', 'set_env': 'Tracked(&mut fl)'},
    requires=[('C05.pre.for.args', 'args@.len() >= 1')],
    let_types={'cr_list': 'Vec<CommandResult>'},
    loop_kinds={0: 'value', (0, 'clone'): 'vx_clone_pair(&{})'},
    ensures=[],
    loops={0: Loop(invariant=[('C05.inv.for.args', 'args@.len() >= 1'), ('C11+C15.inv.for.results_so_far', 'cr_list@ == g_all')]),
           # the results of every round that was run are in the list, in order -- also of the round that ends the loop
           1: Loop(invariant=[('C05.inv.for.args_inner', 'args@.len() >= 1'), ('C11+C15.inv.for.the_results_of_every_round_are_kept_in_order', 'cr_list@ == g_all'),
                              ('C14.inv.for.the_node_is_the_body', 'rule == Rule::EXP_BODY && rule == pair_rule(pair)')],
                   invariant_except_break=[('C15.inv.for.rounds_so_far', 'fl.rounds == rounds_of(var_name@, result_list@, __i1 as int) && lgf.started == __i1 && no_stop_so_far(lgf)')],
                   ensures=[('C15.for.loop_left_with_a_prefix_of_the_rounds', 'exists|n: int| 0 <= n <= result_list@.len() && fl.rounds == rounds_of(var_name@, result_list@, n)'),
                            ('C15.for.no_round_after_a_failing_command_under_set_e', 'nothing_after_stop(lgf)'),
                            ('C14.for.loop_left_early_only_at_a_break_or_a_failure_under_set_e',
                             'fl.rounds.len() == result_list@.len() || g_brk || stop_spec(cr_list@, *sh)')])},
    hints={'fn-entry': 'RAW: let ghost mut g_all: Seq<CommandResult> = Seq::empty(); let ghost mut g_brk: bool = false;',
           'after-call:run_exp': 'g_all = g_all + _cr_list@; g_brk = _brk; ;;; '
                                 'LABEL:C14.for.every_round_runs_the_body_of_the_loop_as_a_loop_body: assert(lg2.node == pair && lg2.in_loop && pair_rule(pair) == Rule::EXP_BODY);',
           'after-text:if rule == Rule::EXP_BODY {': 'RAW: let tracked mut fl = new_forlog(); let tracked mut lgf = new_log();',
           'after-call:get_for_result_list': 'LABEL:C15.for.the_word_list_is_computed_from_the_whole_argument_vector: assert(result_list@ == for_words(pair, args@));',
           'loop-1-body-entry': 'note_start(&mut lgf);',
           'before-call:run_exp': 'RAW: let tracked mut lg2 = new_log();',
           'after-call:append': 'note_check(&mut lgf, stop_spec(cr_list@, *sh)); assert(fl.rounds =~= rounds_of(var_name@, result_list@, __i1 as int));',
           'loop-1-exit': 'LABEL:C10+C14+C15.for.one_round_per_word_in_order_with_the_variable_set_to_it: assert(exists|n: int| 0 <= n <= result_list@.len() && fl.rounds == rounds_of(var_name@, result_list@, n));'
                          ' ;;; LABEL:C15.for.nothing_runs_after_a_failing_command_under_set_e: assert(nothing_after_stop(lgf));'
                          ' ;;; LABEL:C14.for.every_word_gets_its_round_unless_a_break_or_a_failure_under_set_e_ends_the_loop: assert(fl.rounds.len() == result_list@.len() || g_brk || stop_spec(cr_list@, *sh));'},
)

for_words = Fn(S, 'expand_line_to_toknes', ret='r',
    pre_rewrites=RW + [Rw('parsers::parser_line::parse_line(', 'parse_line(', rule='R0'), Rw('shell::do_expansion(', 'do_expansion(', rule='R0'), Rw('types::Tokens', 'Vec<(String, String)>', rule='R0')],
    add_params='Tracked(pl): Tracked<&mut PassLog>',
    ghost_args={'expand_args_in_tokens': 'Tracked(pl)', 'do_expansion': 'Tracked(pl)', 'parse_line': 'Tracked(pl)'},
    requires=[('C15.pre.for_words.fresh_log', 'old(pl).passes.len() == 0')],
    ensures=[('C10+C15.for_words.positional_parameters_first_then_the_other_expansions_each_once', 'final(pl).passes == seq![1int, 2int]'),
             ('C10+C14+C15.for_words.the_line_given_is_tokenized_and_the_arguments_given_are_those_of_the_positional_pass', 'final(pl).line == line@ && final(pl).args == args@')],
)
from_init = Fn(S, 'get_for_result_from_init', ret='r', props=('C14', 'C15'),
    pre_rewrites=[Rw('&args[1..]', 'vx_tail_slice(args)', rule='R12', required=False, why='slice from index 1: requires at least the script / function name in args'),
                  Rw('token.split_whitespace()', 'vx_split_ws(&token)', rule='R11', why='str::split_whitespace through a shim: the blank-separated words of a text, in order (uninterpreted)'),
                  Rw('result.push(x.to_string());', 'result.push(x);', rule='R12', why='the word is already an owned String behind the shim')] + RW,
    add_params='Tracked(wl): Tracked<&mut WordLog>',
    ghost_args={'expand_line_to_toknes': 'Tracked(&mut pl)'},
    requires=[('C05.pre.from_init.args', 'args@.len() >= 1'), ('C14.pre.from_init.fresh_log', 'old(wl).lists.len() == 0 && old(wl).lines.len() == 0 && old(wl).args.len() == 0')],
    let_types={'result': 'Vec<String>'},
    loop_kinds={0: 'value', (0, 'clone'): 'vx_clone_pair(&{})', 1: 'value', (1, 'clone'): 'vx_clone_tok(&{})', 2: 'value', (2, 'clone'): 'vx_clone_string(&{})'},
    ensures=[
        # the list is made of the TEST children of the node, in order, each expanded with the caller's arguments without the name in front
        ('C14.for_words.the_list_is_read_from_the_test_children_in_order_with_the_callers_arguments',
         'final(wl).lines == test_lines(pair_children(pair_init), pair_children(pair_init).len() as int) && final(wl).lists.len() == final(wl).lines.len() '
         '&& forall|k: int| 0 <= k < final(wl).args.len() ==> (#[trigger] final(wl).args[k]) == args@.skip(1)'),
        # every token of the expanded list gives its words in order: an unquoted one its blank-separated words, a quoted one itself
        ('C14.for_words.an_unquoted_token_gives_its_blank_separated_words_a_quoted_token_is_one_word_all_in_order',
         'strs(r@) == lists_words(final(wl).lists, final(wl).lists.len() as int) && final(wl).node == Some(pair_init)'),
    ],
    loops={0: Loop(invariant=[('C14.inv.from_init.outer', 'wl.node == Some(pair_init) && args@.len() >= 1 && __v0@ == pair_children(pair_init) && wl.lines =~= test_lines(__v0@, __i0 as int) && wl.lists.len() == wl.lines.len() && wl.args.len() == wl.lines.len() '
                                                          '&& (forall|k: int| 0 <= k < wl.args.len() ==> (#[trigger] wl.args[k]) == args@.skip(1)) && strs(result@) =~= lists_words(wl.lists, wl.lists.len() as int)')]),
           1: Loop(invariant=[('C14.inv.from_init.tokens', 'args@.len() >= 1 && __v1@ == g_toks && strs(result@) =~= g_before + toks_words(g_toks, __i1 as int)')]),
           2: Loop(invariant=[('C14.inv.from_init.split', 'strs(__v2@) == spec_split_ws(token@) && strs(result@) =~= g_before + toks_words(g_toks, __i1 - 1) + strs(__v2@).subrange(0, __i2 as int) && __i1 >= 1 && sep@.len() == 0 '
                                                          '&& sep@ == g_toks[__i1 - 1].0@ && token@ == g_toks[__i1 - 1].1@ && args@.len() >= 1 && __v1@ == g_toks && __i1 <= g_toks.len()')])},
    hints={'fn-entry': 'note_init_node(wl, pair_init);', 'before-call:expand_line_to_toknes': 'RAW: let tracked mut pl = new_passlog();',
           'after-call:expand_line_to_toknes': 'RAW: let ghost g_toks = tokens@; let ghost g_before = strs(result@); let ghost g_lists0 = wl.lists; proof { note_list(wl, pl.line, pl.args, tokens@); '
                                               'assert(wl.lists.drop_last() =~= g_lists0); assert(test_lines(__v0@, __i0 as int) =~= test_lines(__v0@, __i0 - 1).push(line@)); }',
           'loop-1-exit': 'assert(wl.lists.last() == g_toks); assert(lists_words(wl.lists, wl.lists.len() as int) =~= lists_words(wl.lists, wl.lists.len() - 1) + toks_words(g_toks, g_toks.len() as int)); '
                          'assert(lists_words(wl.lists, wl.lists.len() - 1) =~= lists_words(g_lists0, g_lists0.len() as int)) by { lemma_lists_words_prefix(wl.lists, g_lists0, g_lists0.len() as int); }',
           'loop-2-exit': 'assert(strs(__v2@).subrange(0, __v2@.len() as int) =~= strs(__v2@)); assert(toks_words(g_toks, __i1 as int) =~= toks_words(g_toks, __i1 - 1) + spec_split_ws(token@));',
           'before-text:result.push(token.clone());': 'RAW: let ghost g_r1 = strs(result@);',
           'after-text:result.push(token.clone());': 'assert(strs(result@) =~= g_r1.push(token@)); assert(toks_words(g_toks, __i1 as int) =~= toks_words(g_toks, __i1 - 1) + seq![token@]);',
           'before-text:result.push(x);': 'RAW: let ghost g_r0 = strs(result@); let ghost g_x = x@;',
           'after-text:result.push(x);': 'assert(strs(result@) =~= g_r0.push(g_x)); assert(strs(__v2@)[__i2 - 1] == g_x); assert(strs(__v2@).subrange(0, __i2 as int) =~= strs(__v2@).subrange(0, __i2 - 1).push(g_x));'},
)
result_list = Fn(S, 'get_for_result_list', rename='get_for_result_list_real', ret='r', props=('C14', 'C15'), pre_rewrites=RW,
    add_params='Tracked(wl): Tracked<&mut WordLog>',
    ghost_args={'get_for_result_from_init': 'Tracked(wl)'},
    requires=[('C05.pre.result_list.args', 'args@.len() >= 1'), ('C14.pre.result_list.fresh_log', 'old(wl).lists.len() == 0 && old(wl).lines.len() == 0 && old(wl).args.len() == 0 && old(wl).node.is_none()')],
    loop_kinds={0: 'value', (0, 'clone'): 'vx_clone_pair(&{})'},
    ensures=[('C14.for_words.the_list_of_a_for_head_is_that_of_its_first_init_child_and_empty_without_one',
              'final(wl).node == first_of(pair_children(pair_head), Rule::FOR_INIT, pair_children(pair_head).len() as int) '
              '&& (final(wl).node.is_none() ==> r@.len() == 0) && strs(r@) == lists_words(final(wl).lists, final(wl).lists.len() as int) '
              '&& forall|k: int| 0 <= k < final(wl).args.len() ==> (#[trigger] final(wl).args[k]) == args@.skip(1)')],
    loops={0: Loop(invariant=[('C14.inv.result_list.no_init_so_far', 'args@.len() >= 1 && __v0@ == pair_children(pair_head) && first_of(__v0@, Rule::FOR_INIT, __i0 as int).is_none() '
                                                                     '&& wl.lists.len() == 0 && wl.lines.len() == 0 && wl.args.len() == 0 && wl.node.is_none()')])},
    hints={'before-call:get_for_result_from_init': 'lemma_first_of_stays(__v0@, Rule::FOR_INIT, __i0 as int, __v0@.len() as int);',
           'loop-0-exit': 'assert(strs(Seq::<String>::empty()) =~= Seq::<Seq<char>>::empty());'},
)
var_name = Fn(S, 'get_for_var_name', rename='get_for_var_name_real', ret='r', props=('C14', 'C15'), pre_rewrites=RW,
    loop_kinds={0: 'value', (0, 'clone'): 'vx_clone_pair(&{})', 1: 'value', (1, 'clone'): 'vx_clone_pair(&{})'},
    ensures=[('C14.for_var.the_first_var_node_of_the_first_init_child_names_the_variable',
              'for_var_of(pair_head).is_some() ==> r@ == for_var_of(pair_head).unwrap()')],
    loops={0: Loop(invariant=[('C14.inv.for_var.outer', '__v0@ == pair_children(pair_head) && (first_of(__v0@, Rule::FOR_INIT, __i0 as int).is_some() ==> var_of_init(first_of(__v0@, Rule::FOR_INIT, __i0 as int).unwrap()).is_none())')]),
           1: Loop(invariant=[('C14.inv.for_var.inner', '__v0@ == pair_children(pair_head) && __i0 >= 1 && __i0 <= __v0@.len() && pair == __v0@[__i0 - 1] && pair_rule(pair) == Rule::FOR_INIT && __v1@ == pair_children(pair) '
                                                        '&& first_of(__v1@, Rule::FOR_VAR, __i1 as int).is_none() '
                                                        '&& (first_of(__v0@, Rule::FOR_INIT, __i0 - 1).is_some() ==> var_of_init(first_of(__v0@, Rule::FOR_INIT, __i0 - 1).unwrap()).is_none())')])},
    hints={'before-text:return vx_s(&line);': 'lemma_first_of_stays(__v1@, Rule::FOR_VAR, __i1 as int, __v1@.len() as int); '
                                              'if first_of(__v0@, Rule::FOR_INIT, __i0 - 1).is_some() { lemma_first_of_stays(__v0@, Rule::FOR_INIT, __i0 - 1, __v0@.len() as int); } '
                                              'else { lemma_first_of_stays(__v0@, Rule::FOR_INIT, __i0 as int, __v0@.len() as int); }'},
)
run_script = Fn(S, 'run_script', ret='r',
    pre_rewrites=[
        Rw(r'let src_file = &args\[1\];[\s\S]*?(?=let re_func_head)', 'let text = match vx_load_script(args) { Some(t) => t, None => { return 1; } };\n    ', regex=True, rule='R10',
           why='locating, opening and reading the file (with its diagnostics) and joining continued lines: one opaque shim; what follows works on the text'),
        Rw(r'Regex::new\((r"\^function[^"]*")\)\.unwrap\(\)', r'vx_re_head(\1)', regex=True, rule='R10', why='the header pattern through an opaque type (axiom fn_head)'),
        Rw(r'Regex::new\((r"\^\\\}\$")\)\.unwrap\(\)', r'vx_re_tail(\1)', regex=True, rule='R10', why='the closing-line pattern through an opaque type'),
        Rw('for line in text.clone().lines() {', 'let __lines = vx_lines(&text); for line in __lines.iter() {', rule='R11', why='str::lines through a shim: the lines of the text in order'),
        Rw('cap[1].to_string()', 'vx_s(&cap.g1)', rule='R12'),
        Rw('func_body.push_str(line);', 'vx_push_str(&mut func_body, line);', rule='R12'),
        Rw("func_body.push('\\n');", 'vx_push_nl(&mut func_body);', rule='R12'),
        Rw('text_new.push_str(line);', 'vx_push_str(&mut text_new, line);', rule='R12'),
        Rw("text_new.push('\\n');", 'vx_push_nl(&mut text_new);', rule='R12'),
        Rw('cr_list.last()', 'vx_slice_last(cr_list.as_slice())', rule='R12'),
    ] + RW,
    requires=[('C05.pre.run_script.a_file_is_named', 'args@.len() >= 2')],
    ghost_args={'set_func': 'Tracked(&mut dl)', 'run_lines': 'Tracked(&mut lg9)'},
    let_types={'cr_list': 'Vec<CommandResult>'},
    ensures=[('C15.run_script.a_set_e_of_the_file_ends_with_it', 'final(sh).exit_on_error == old(sh).exit_on_error || r == 1')],
    loops={0: Loop(invariant=[
        ('C15.inv.run_script.reading', 'args@.len() >= 2 && *sh == *old(sh) && dl.defs == frun(__lines@, __i0 as int).defs && text_new@ == frun(__lines@, __i0 as int).rest '
                                       '&& enter_func == frun(__lines@, __i0 as int).in_func && (func_name@ == frun(__lines@, __i0 as int).name) && func_body@ == frun(__lines@, __i0 as int).body')])},
    hints={'fn-entry': 'RAW: let tracked mut dl = new_deflog();',
           'before-call:run_lines': 'RAW: let tracked mut lg9 = new_log(); ;;; '
                                    'LABEL:C15.run_script.the_functions_of_the_file_are_defined_as_written_before_its_other_lines_are_run_in_order: '
                                    'assert(dl.defs == frun(__lines@, __lines@.len() as int).defs && text_new@ == frun(__lines@, __lines@.len() as int).rest);',
           'before-text:sh.exit_on_error = exit_on_error_outer;': 'LABEL:C15.run_script.the_status_is_that_of_the_last_command_run: '
                                    'assert(status == (if cr_list@.len() > 0 { cr_list@.last().status } else { 0 }));'},
)
UNIT = Unit('U-SCRIPT', TEMPLATE, fns=[run_script, stopped_by_error, run_exp_while, run_exp, test_br, exp_if, exp_for, for_words, from_init, result_list, var_name, run_lines],
            types=[TypeItem('src/types.rs', 'struct', 'CommandResult')], props=('C15', 'C14', 'C05'))
TRUSTED = common.TRUSTED_STR + [
    'the pest parse tree is opaque: the text, rule and children of a node are uninterpreted (the grammar locust.pest is outside the verifier); '
    'which statements a script text consists of is exercised by the bounded script cases only',
    'run_command_line, expand_args, without_trailing_comment (which text of a line is compared with the keywords break / continue) are external here; get_for_var_name / get_for_result_list are external at their call site in run_exp_for and verified on their own (…_real: the first var node of the first init child; the words of the expanded test children, unquoted tokens split at blanks (str::split_whitespace uninterpreted), quoted ones whole, in order) (and run_exp_if / run_exp_for / run_exp_test_br at their call sites: callers see no contract of them, they are verified on their own): any results, any effect on the shell '
    '(run_command_line / expand_args have their own contracts in U-LIST / U-ARGS)',
    'args[0] is the script or function name (callers: run_script, try_run_func, source): assumed as precondition args.len() >= 1',
    'run_exp_while may run forever (a script loop): termination is not claimed for it',
    'run_script: locating, opening and reading the file and joining continued lines is one opaque shim (vx_load_script); str::lines through a shim; the header and closing-line patterns are uninterpreted (bounded axiom fn_head)',
]
