"""U-ARGS: positional parameters of scripts and functions, and the status of a function call (C15)."""
from vx.gen import Unit, Fn, TypeItem, Loop, Rw
from . import common

TEMPLATE = common.HEAD + common.STR_SHIMS + common.TOKEN_TYPES + r'''
//@TYPE Command
//@TYPE CommandLine
//@TYPE CommandResult
pub struct Shell { pub previous_status: i32 }
pub open spec fn strs(v: Seq<String>) -> Seq<Seq<char>> { v.map_values(|s: String| s@) }

// ---- the positional-reference regex  ^(.*?)\$\{?([0-9]+|@)\}?(.*)$  through shims (matching uninterpreted) ----
pub struct VxRegex { pub id: i32 }
pub struct VxCap { pub g1: String, pub g2: String, pub g3: String }
pub uninterp spec fn spec_args_match(t: Seq<char>) -> bool;
pub uninterp spec fn spec_args_caps(t: Seq<char>) -> Seq<(Seq<char>, Seq<char>, Seq<char>)>;
pub open spec fn cap_view(c: VxCap) -> (Seq<char>, Seq<char>, Seq<char>) { (c.g1@, c.g2@, c.g3@) }
#[verifier::external_body]
pub fn vx_args_regex() -> (r: VxRegex) { unimplemented!() }
impl VxRegex {
    #[verifier::external_body]
    pub fn is_match(&self, t: &str) -> (r: bool) ensures r == spec_args_match(t@) { unimplemented!() }
    // an anchored pattern (^...$) has at most one match; group 3 (the rest) is a PROPER suffix of the text: the reference itself
    // ($ plus at least one more char) is consumed. (axiom args_tail_shorter: validated against the regex crate on every run)
    #[verifier::external_body]
    pub fn captures_iter(&self, t: &str) -> (r: Vec<VxCap>)
        ensures r@.map_values(|c: VxCap| cap_view(c)) == spec_args_caps(t@), r@.len() <= 1, spec_args_match(t@) ==> r@.len() == 1,
            forall|i: int| 0 <= i < r@.len() ==> (#[trigger] r@[i]).g3@.len() < t@.len(),
    { unimplemented!() }
}
#[verifier::external_body]
pub fn vx_clone_cap(c: &VxCap) -> (r: VxCap) ensures cap_view(r) == cap_view(*c) { unimplemented!() }
pub uninterp spec fn spec_parse_usize(t: Seq<char>) -> Option<int>;
pub struct VxParseErr { pub e: i32 }
#[verifier::external_body]
pub fn vx_parse_usize(t: &str) -> (r: Result<usize, VxParseErr>)
    ensures match r { Ok(x) => spec_parse_usize(t@) == Some(x as int), Err(_) => spec_parse_usize(t@).is_none() }
{ unimplemented!() }
pub uninterp spec fn spec_join_sp(v: Seq<Seq<char>>) -> Seq<char>;
// args[1..].join(" ")
#[verifier::external_body]
pub fn vx_join_from1_sp(args: &[String]) -> (r: String)
    requires args@.len() >= 1
    ensures r@ == spec_join_sp(strs(args@).subrange(1, args@.len() as int))
{ unimplemented!() }
pub uninterp spec fn spec_is_args_in_token(t: Seq<char>) -> bool;
#[verifier::external_body]
pub fn is_args_in_token(token: &str) -> (r: bool) ensures r == spec_is_args_in_token(token@) { unimplemented!() }
#[verifier::external_body]
pub fn vx_set_token_text(tokens: &mut Tokens, i: usize, s: String)
    requires i < old(tokens)@.len()
    ensures final(tokens)@.len() == old(tokens)@.len(),
        forall|k: int| 0 <= k < old(tokens)@.len() && k != i ==> final(tokens)@[k] == old(tokens)@[k],
        final(tokens)@[i as int].0 == old(tokens)@[i as int].0, final(tokens)@[i as int].1@ == s@,
{ tokens[i].1 = s; }

// value of one reference (property statement): $@ = the arguments joined by a blank, $n / ${n} = argument n, nothing when missing
pub open spec fn arg_value(key: Seq<char>, args: Seq<Seq<char>>) -> Seq<char> {
    if key == "@"@ { spec_join_sp(args.subrange(1, args.len() as int)) }
    else { match spec_parse_usize(key) { Some(n) => if n < args.len() { args[n] } else { Seq::empty() }, None => Seq::empty() } }
}
// the whole word: every reference replaced left to right, text in between preserved
pub open spec fn args_expand(t: Seq<char>, args: Seq<Seq<char>>) -> Seq<char>
    decreases t.len()
{
    if !spec_args_match(t) || spec_args_caps(t).len() != 1 { t }
    else {
        let c = spec_args_caps(t)[0];
        if c.2.len() == 0 || c.2.len() >= t.len() { c.0 + arg_value(c.1, args) }
        else { c.0 + arg_value(c.1, args) + args_expand(c.2, args) }
    }
}

pub open spec fn in_b(b: Seq<(usize, String)>, k: int) -> bool { exists|m: int| 0 <= m < b.len() && (#[trigger] b[m]).0 == k }
pub open spec fn in_b_from(b: Seq<(usize, String)>, lo: int, hi: int, k: int) -> bool { exists|m: int| lo <= m < hi && (#[trigger] b[m]).0 == k }
pub proof fn lemma_in_b_push(b: Seq<(usize, String)>)
    ensures forall|e: (usize, String), k: int| #[trigger] in_b(b.push(e), k) == (in_b(b, k) || k == e.0),
{
    assert forall|e: (usize, String), k: int| #[trigger] in_b(b.push(e), k) == (in_b(b, k) || k == e.0) by {
        let b2 = b.push(e);
        if in_b(b, k) { let m0 = choose|m: int| 0 <= m < b.len() && (#[trigger] b[m]).0 == k; assert(b2[m0].0 == k); }
        if k == e.0 { assert(b2[b.len() as int].0 == k); }
        if in_b(b2, k) { let m1 = choose|m: int| 0 <= m < b2.len() && (#[trigger] b2[m]).0 == k; if m1 < b.len() { assert(b[m1].0 == k); } }
    }
}

pub proof fn lemma_in_b_from_step(b: Seq<(usize, String)>, i: int, hi: int)
    requires 1 <= i <= hi <= b.len(),
    ensures forall|k: int| #[trigger] in_b_from(b, i - 1, hi, k) == (in_b_from(b, i, hi, k) || b[i - 1].0 == k),
{
    assert forall|k: int| #[trigger] in_b_from(b, i - 1, hi, k) == (in_b_from(b, i, hi, k) || b[i - 1].0 == k) by {
        if in_b_from(b, i, hi, k) { let m = choose|m: int| i <= m < hi && (#[trigger] b[m]).0 == k; assert(i - 1 <= m < hi && b[m].0 == k); }
        if b[i - 1].0 == k { assert(i - 1 <= i - 1 < hi && b[i - 1].0 == k); }
        if in_b_from(b, i - 1, hi, k) { let m = choose|m: int| i - 1 <= m < hi && (#[trigger] b[m]).0 == k; if m >= i { assert(i <= m < hi && b[m].0 == k); } }
    }
}

pub proof fn lemma_in_b_all(b: Seq<(usize, String)>)
    ensures forall|k: int| in_b_from(b, 0, b.len() as int, k) == #[trigger] in_b(b, k),
{ }

//@FN expand_args_for_single_token
//@FN expand_args_in_tokens

// ---- the pass over one script line (a command list) ----
pub struct LineInfo { pub tokens: Tokens, pub is_complete: bool }
// parser_line::{line_to_cmds, parse_line, tokens_to_line}: contracts in U-TOK; here uninterpreted functions of their input
pub uninterp spec fn spec_cmds(line: Seq<char>) -> Seq<Seq<char>>;
#[verifier::external_body]
pub fn line_to_cmds(line: &str) -> (r: Vec<String>) ensures strs(r@) == spec_cmds(line@) { unimplemented!() }
pub uninterp spec fn spec_tokens(cmd: Seq<char>) -> Seq<(Seq<char>, Seq<char>)>;
#[verifier::external_body]
pub fn parse_line(line: &str) -> (r: LineInfo) ensures toks_view(r.tokens@) == spec_tokens(line@) { unimplemented!() }
pub uninterp spec fn spec_line(t: Seq<(Seq<char>, Seq<char>)>) -> Seq<char>;
#[verifier::external_body]
pub fn tokens_to_line(tokens: &Tokens) -> (r: String) ensures r@ == spec_line(toks_view(tokens@)) { unimplemented!() }
#[verifier::external_body]
pub fn vx_join_sp(v: &Vec<String>) -> (r: String) ensures r@ == spec_join_sp(strs(v@)) { v.join(" ") }
pub open spec fn is_list_op(s: Seq<char>) -> bool { s == ";"@ || s == "&&"@ || s == "||"@ }

//@FN expand_args

// ---- function calls ----
impl Shell {
    #[verifier::external_body]
    pub fn get_func(&self, name: &str) -> (r: Option<String>) { unimplemented!() }
}
impl CommandLine {
    #[verifier::external_body]
    pub fn is_empty(&self) -> (r: bool) ensures r == (self.commands@.len() == 0) { unimplemented!() }
}
impl CommandResult {
//@FN CommandResult::new
}
pub ghost struct CallLog { pub args: Seq<Seq<Seq<char>>>, pub last_status: int, pub out: Seq<char> }
// what the first n commands of the body wrote to stdout, one after the other, as they wrote it
pub open spec fn outs(v: Seq<CommandResult>, n: int) -> Seq<char>
    decreases n
{
    if n <= 0 { Seq::empty() } else { outs(v, n - 1) + v[n - 1].stdout@ }
}
// scripting::run_lines runs the body; the statuses of the commands it ran come back in order
#[verifier::external_body]
pub fn run_lines(sh: &mut Shell, lines: &str, args: &Vec<String>, capture: bool, Tracked(lg): Tracked<&mut CallLog>) -> (r: Vec<CommandResult>)
    ensures final(lg).args == old(lg).args.push(strs(args@)), final(lg).last_status == (if r@.len() > 0 { r@.last().status as int } else { 0 }),
        final(lg).out == outs(r@, r@.len() as int)
{ unimplemented!() }
#[verifier::external_body]
pub fn vx_vec1(s: String) -> (r: Vec<String>) ensures r@.len() == 1, r@[0]@ == s@ { vec![s] }
#[verifier::external_body]
pub fn vx_clone_cr(c: &CommandResult) -> (r: CommandResult) ensures r.status == c.status, r.gid == c.gid, r.stdout@ == c.stdout@, r.stderr@ == c.stderr@ { unimplemented!() }
pub open spec fn texts(v: Seq<Token>) -> Seq<Seq<char>> { v.map_values(|t: Token| t.1@) }

//@FN try_run_func
''' + common.TAIL

SC = 'src/scripting.rs'
SETTXT = Rw(r'tokens\[\*i\]\.1 = (.*?);', r'vx_set_token_text(tokens, *i, \1);', regex=True, rule='R12',
            why='IndexMut + tuple-field assignment through a shim (frame: only that token text changes)')

one = Fn(SC, 'expand_args_for_single_token', ret='r',
    pre_rewrites=[
        Rw(r'Regex::new\(r"[^"]*"\)\.unwrap\(\)', 'vx_args_regex()', regex=True, rule='R6', why='the positional-reference regex through a shim (valid literal: trusted; matching uninterpreted)'),
        Rw(r'cap\[(\d)\]\.to_string\(\)', r'vx_s(&cap.g\1)', regex=True, rule='R6'),
        Rw('args[1..].join(" ")', 'vx_join_from1_sp(args)', rule='R12', why='slice join through a shim; requires at least one element (args[1..] panics otherwise)'),
        Rw('_key.parse::<usize>()', 'vx_parse_usize(&_key)', rule='R12', why='str::parse::<usize> by its std contract'),
    ],
    loop_kinds={1: 'value', (1, 'clone'): 'vx_clone_cap(&{})'},
    requires=[('C05.pre.args_nonempty', 'args@.len() >= 1')],
    ensures=[('C15.args.every_reference_replaced_in_order', 'r@ == args_expand(token@, strs(args@))')],
    loops={
        0: Loop(invariant=[('C15.inv.args.ctx', 'args@.len() >= 1')],
                invariant_except_break=[('C15.inv.args.assembly', 'result@ + args_expand(_token@, strs(args@)) == args_expand(token@, strs(args@))')],
                ensures=[('C15.inv.args.done', 'result@ == args_expand(token@, strs(args@))')],
                decreases='_token@.len()'),
        1: Loop(invariant=[
            ('C15.inv.args.caps', '__V@.map_values(|c: VxCap| cap_view(c)) == spec_args_caps(_token@) && __V@.len() == 1 && spec_args_match(_token@) && args@.len() >= 1 '
                                  '&& (forall|i: int| 0 <= i < __V@.len() ==> (#[trigger] __V@[i]).g3@.len() < _token@.len())'),
            ('C15.inv.args.step', 'if __I == 0 { result@ + args_expand(_token@, strs(args@)) == args_expand(token@, strs(args@)) } else { '
                                  '_tail@ == spec_args_caps(_token@)[0].2 && _tail@.len() < _token@.len() && '
                                  'result@ + (if _tail@.len() == 0 { Seq::<char>::empty() } else { args_expand(_tail@, strs(args@)) }) == args_expand(token@, strs(args@)) }'),
        ]),
    },
    hints={'loop-1-body-entry': 'assert(__V@.map_values(|c: VxCap| cap_view(c))[__I as int] == cap_view(__V@[__I as int])); assert(strs(args@).len() == args@.len()); '
                                'assert(forall|n: int| 0 <= n < args@.len() ==> strs(args@)[n] == args@[n]@);'},
)

in_tokens = Fn(SC, 'expand_args_in_tokens', pre_rewrites=[SETTXT, Rw('types::Tokens', 'Tokens', required=False, rule='R0')],
    let_types={'buff': 'Vec<(usize, String)>'},
    hints={'loop-0-body-entry': 'lemma_in_b_push(buff@);', 'loop-1-body-entry': 'lemma_in_b_from_step(buff@, __I as int, buff@.len() as int);',
           'loop-1-exit': 'lemma_in_b_all(buff@); assert forall|k: int| 0 <= k < old(tokens)@.len() && (old(tokens)@[k].0@ == "\'"@ || !spec_is_args_in_token(old(tokens)@[k].1@)) implies (#[trigger] tokens@[k]).1@ == old(tokens)@[k].1@ by { if in_b(buff@, k) { let m = choose|m: int| 0 <= m < buff@.len() && (#[trigger] buff@[m]).0 == k; } assert(!in_b_from(buff@, 0, buff@.len() as int, k)); } assert forall|k: int| 0 <= k < old(tokens)@.len() && !(old(tokens)@[k].0@ == "\'"@ || !spec_is_args_in_token(old(tokens)@[k].1@)) implies (#[trigger] tokens@[k]).1@ == args_expand(old(tokens)@[k].1@, strs(args@)) by { assert(in_b(buff@, k)); }'},
    requires=[('C05.pre.args_nonempty2', 'args@.len() >= 1')],
    ensures=[('C15+C16.args.quoted_words_untouched',
              'final(tokens)@.len() == old(tokens)@.len() && forall|k: int| 0 <= k < old(tokens)@.len() ==> (#[trigger] final(tokens)@[k]).0@ == old(tokens)@[k].0@ '
              '&& ((old(tokens)@[k].0@ == "\'"@ || !spec_is_args_in_token(old(tokens)@[k].1@)) ==> final(tokens)@[k].1@ == old(tokens)@[k].1@) '
              '&& (!(old(tokens)@[k].0@ == "\'"@ || !spec_is_args_in_token(old(tokens)@[k].1@)) ==> '
              '    final(tokens)@[k].1@ == args_expand(old(tokens)@[k].1@, strs(args@)))')],
    loops={
        0: Loop(invariant=[
            ('C15.inv.tokens.idx', 'idx == __I && tokens@ == old(tokens)@ && args@.len() >= 1'),
            ('C15.inv.tokens.buff', 'forall|m: int| 0 <= m < buff@.len() ==> (#[trigger] buff@[m]).0 < __I && (m + 1 < buff@.len() ==> buff@[m].0 < buff@[m + 1].0) '
                                    '&& !(tokens@[buff@[m].0 as int].0@ == "\'"@ || !spec_is_args_in_token(tokens@[buff@[m].0 as int].1@)) '
                                    '&& buff@[m].1@ == args_expand(tokens@[buff@[m].0 as int].1@, strs(args@))'),
            ('C15.inv.tokens.all', 'forall|k: int| 0 <= k < __I && !(tokens@[k].0@ == "\'"@ || !spec_is_args_in_token(tokens@[k].1@)) ==> '
                                   'in_b(buff@, k)'),
        ]),
        1: Loop(invariant=[
            ('C15.inv.tokens.frame',
             'tokens@.len() == old(tokens)@.len() && forall|k: int| 0 <= k < tokens@.len() ==> (#[trigger] tokens@[k]).0@ == old(tokens)@[k].0@'),
            ('C15.inv.tokens.buff2', 'forall|m: int| 0 <= m < buff@.len() ==> (#[trigger] buff@[m]).0 < tokens@.len() && (m + 1 < buff@.len() ==> buff@[m].0 < buff@[m + 1].0) '
                                     '&& buff@[m].1@ == args_expand(old(tokens)@[buff@[m].0 as int].1@, strs(args@))'),
            ('C15.inv.tokens.done', 'forall|k: int| 0 <= k < tokens@.len() ==> '
                                    '(in_b_from(buff@, __I as int, buff@.len() as int, k) ==> (#[trigger] tokens@[k]).1@ == args_expand(old(tokens)@[k].1@, strs(args@))) '
                                    '&& (!in_b_from(buff@, __I as int, buff@.len() as int, k) ==> tokens@[k].1@ == old(tokens)@[k].1@)'),
            ('C15.inv.tokens.elig', 'forall|m: int| 0 <= m < buff@.len() ==> !(old(tokens)@[(#[trigger] buff@[m]).0 as int].0@ == "\'"@ '
                                    '|| !spec_is_args_in_token(old(tokens)@[buff@[m].0 as int].1@))'),
            ('C15.inv.tokens.all2', 'forall|k: int| 0 <= k < old(tokens)@.len() && !(old(tokens)@[k].0@ == "\'"@ || !spec_is_args_in_token(old(tokens)@[k].1@)) ==> in_b(buff@, k)'),
        ]),
    },
)

try_run_func = Fn('src/core.rs', 'try_run_func', ret='r',
    pre_rewrites=[Rw('scripting::run_lines(', 'run_lines(', rule='R0'), Rw('vec!["cicada".to_string()]', 'vx_vec1(vx_s("cicada"))', rule='R12', why='vec! literal')],
    add_params='Tracked(lg): Tracked<&mut CallLog>',
    ghost_args={'run_lines': 'Tracked(lg)'},
    loop_kinds={1: 'value', (1, 'clone'): 'vx_clone_cr(&{})'},
    let_types={'args': 'Vec<String>'},
    requires=[('C05.pre.func.cmds_nonempty', 'forall|i: int| 0 <= i < cl.commands@.len() ==> (#[trigger] cl.commands@[i]).tokens@.len() > 0')],
    ensures=[
        ('C15.func.positional_parameters_are_name_then_call_words',
         'r.is_some() ==> final(lg).args.len() == old(lg).args.len() + 1 && final(lg).args.last() == seq!["cicada"@] + texts(cl.commands@[0].tokens@)'),
        ('C15.func.not_a_function_runs_nothing', 'r.is_none() ==> final(lg).args == old(lg).args'),
        ('C15.func.status_is_that_of_the_last_command', 'r.is_some() ==> r.unwrap().status as int == final(lg).last_status'),
        # C11: captured, a function call yields exactly what its commands wrote (no trimming, no separators)
        ('C11+C15.func.captured_output_is_what_the_commands_wrote_in_order', 'r.is_some() ==> r.unwrap().stdout@ == final(lg).out'),
    ],
    loops={
        0: Loop(invariant=[('C15.inv.func.args', 'strs(args@) == seq!["cicada"@] + texts(command.tokens@.take(__I as int))')]),
        1: Loop(invariant=[('C15.inv.func.status', 'status as int == (if __I > 0 { __V@[__I - 1].status as int } else { 0 }) '
                                                   '&& lg.last_status == (if __V@.len() > 0 { __V@.last().status as int } else { 0 })'),
                           ('C11+C15.inv.func.output_so_far', 'stdout@ == outs(__V@, __I as int) && lg.out == outs(__V@, __V@.len() as int)')]),
    },
    hints={'loop-0-body-entry': 'assert(command.tokens@.take(__I + 1) =~= command.tokens@.take(__I as int).push(command.tokens@[__I as int])); '
                                'assert(texts(command.tokens@.take(__I as int).push(command.tokens@[__I as int])) =~= texts(command.tokens@.take(__I as int)).push(command.tokens@[__I as int].1@)); '
                                'assert forall|x: String| #[trigger] strs(args@.push(x)) == strs(args@).push(x@) by { assert(strs(args@.push(x)) =~= strs(args@).push(x@)); }',
           'loop-0-exit': 'assert(command.tokens@.take(command.tokens@.len() as int) =~= command.tokens@);'},
)

# expand_args: every command of the list is tokenized, rewritten and serialized on its own; the list operators stay where they are
expand_args = Fn(SC, 'expand_args', ret='r',
    pre_rewrites=[Rw('parsers::parser_line::line_to_cmds(', 'line_to_cmds(', rule='R0'), Rw('parsers::parser_line::parse_line(', 'parse_line(', rule='R0'),
                  Rw('parsers::parser_line::tokens_to_line(', 'tokens_to_line(', rule='R0'),
                  Rw('parts.join(" ")', 'vx_join_sp(&parts)', rule='R12', why='Vec<String>::join(" ") through a shim (text uninterpreted)')],
    let_types={'parts': 'Vec<String>'},
    loop_kinds={0: 'value'},
    requires=[('C05.pre.args_nonempty3', 'args@.len() >= 1')],
    ensures=[('C15+C03.expand_args.list_operators_stay_and_each_command_is_handled_alone',
              'exists|ps: Seq<Seq<char>>| r@ == spec_join_sp(ps) && ps.len() == spec_cmds(line@).len() && forall|i: int| 0 <= i < ps.len() ==> '
              '(is_list_op(spec_cmds(line@)[i]) ==> #[trigger] ps[i] == spec_cmds(line@)[i])')],
    loops={0: Loop(invariant=[
        ('C15+C03.inv.expand_args.parts', 'args@.len() >= 1 && parts@.len() == __I && __V@.len() == spec_cmds(line@).len() && strs(__V@) == spec_cmds(line@) && forall|i: int| 0 <= i < __I ==> '
                                         '(is_list_op(spec_cmds(line@)[i]) ==> (#[trigger] parts@[i])@ == spec_cmds(line@)[i])'),
    ])},
    hints={'loop-0-body-entry': 'reveal_strlit(";"); reveal_strlit("&&"); reveal_strlit("||");',
           'loop-0-exit': 'assert(strs(parts@).len() == spec_cmds(line@).len()); '
                          'assert forall|i: int| 0 <= i < strs(parts@).len() && is_list_op(spec_cmds(line@)[i]) implies #[trigger] strs(parts@)[i] == spec_cmds(line@)[i] by { assert(strs(parts@)[i] == parts@[i]@); }'},
)

UNIT = Unit('U-ARGS', TEMPLATE, fns=[one, in_tokens, expand_args, try_run_func, Fn('src/types.rs', 'new', impl='CommandResult', ret='r', ensures=[('C15.cr.new', 'r.status == 0')])],
            types=[TypeItem('src/types.rs', 'struct', 'Command'), TypeItem('src/types.rs', 'struct', 'CommandLine'), TypeItem('src/types.rs', 'struct', 'CommandResult')],
            props=('C15', 'C05'))
TRUSTED = common.TRUSTED_STR + common.TRUSTED_TOKEN + [
    'the positional-reference regex is uninterpreted; assumed (validated by axcheck on every run): it is anchored (at most one match) and its group 3 is a proper suffix of the text',
    'str::parse::<usize>, slice join: std contracts; scripting::run_lines (pest-driven interpreter) is external: it reports the statuses of the commands it ran in order',
    'function extraction from the script text, the set -e stop rule and run_script are under contract in U-SCRIPT (from the text of the file on); here they are external; source persistence rests on the type (U-BSH)',
]
