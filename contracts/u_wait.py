"""U-WAIT: the job-control event protocol: classification of every child status event by wait_fg_job (adversarial waitpid),
parking of events of non-foreground children, status of the last stage, job-state bookkeeping (C02, C06)."""
import copy
from vx.gen import Unit, Fn, TypeItem, Loop, Rw
from . import common
from . import u_jobs

TEMPLATE = '#![feature(allocator_api)]\n' + common.HEAD + r'''
use vstd::std_specs::hash::*;
''' + common.STR_SHIMS + r'''
broadcast use vstd::std_specs::hash::group_hash_axioms;

//@TYPE WaitStatus
//@TYPE Job
//@TYPE Shell
//@TYPE CommandResult

// ---- job table vocabulary (same definitions as U-JOBS; the Shell methods below carry the contracts PROVED there) ----
pub open spec fn has_gid(m: Map<i32, Job>, gid: i32) -> bool {
    exists|k: i32| m.contains_key(k) && #[trigger] m[k].gid == gid
}
pub open spec fn wf(m: Map<i32, Job>) -> bool {
    &&& m.dom().finite()
    &&& forall|k: i32| #[trigger] m.contains_key(k) ==> 1 <= k < 65535 && m[k].id == k && m[k].pids@.len() > 0 && m[k].pids@.no_duplicates()
    &&& forall|k1: i32, k2: i32| #![trigger m[k1], m[k2]] m.contains_key(k1) && m.contains_key(k2) && k1 != k2 ==> m[k1].gid != m[k2].gid
}
pub open spec fn prefix_full(m: Map<i32, Job>, k: int) -> bool { forall|j: i32| 1 <= j < k ==> #[trigger] m.contains_key(j) }
pub open spec fn same_but(m1: Map<i32, Job>, m2: Map<i32, Job>, k: i32) -> bool {
    forall|k2: i32| #![trigger m1.contains_key(k2)] #![trigger m2.contains_key(k2)] #![trigger m1[k2]] #![trigger m2[k2]]
        k2 != k ==> (m1.contains_key(k2) == m2.contains_key(k2)) && (m1.contains_key(k2) ==> m1[k2] == m2[k2])
}
pub open spec fn job_all_stopped(j: Job) -> bool { forall|i: int| 0 <= i < j.pids@.len() ==> j.pids_stopped@.contains(#[trigger] j.pids@[i]) }
pub open spec fn job_after_remove(a: Job, b: Job, pid: i32) -> bool {
    a.id == b.id && a.gid == b.gid && a.pids_stopped@ == b.pids_stopped@.remove(pid) && a.is_bg == b.is_bg
    && a.status@ == (if a.pids@.len() > 0 && job_all_stopped(a) { "Stopped"@ } else { b.status@ })
}
pub open spec fn job_eq_except_cmd_pids(a: Job, b: Job) -> bool {
    a.id == b.id && a.gid == b.gid && a.pids_stopped@ == b.pids_stopped@ && a.status@ == b.status@ && a.is_bg == b.is_bg
}
pub open spec fn removed_one(o: Seq<i32>, n: Seq<i32>, pid: i32) -> bool {
    (!o.contains(pid) && n == o) || exists|idx: int| 0 <= idx < o.len() && o[idx] == pid && n == #[trigger] o.remove(idx)
}

impl Job {
//@FN Job::all_members_stopped
//@FN Job::all_members_running
}
impl Shell {
//@FN Shell::get_job_by_gid
//@FN Shell::mark_job_member_continued
//@FN Shell::mark_job_member_stopped
//@FN Shell::mark_job_as_running
//@FN Shell::mark_job_as_stopped
//@FN Shell::remove_pid_from_job
}

// ---- WaitStatus: validity of what the kernel can report (type invariant put into preconditions) ----
pub open spec fn ws_valid(w: WaitStatus) -> bool {
    (w.1 == 0 && w.0 > 0 && 0 <= w.2 <= 255)            // exited(pid, status)
    || (w.1 == 1 && w.0 > 0 && 1 <= w.2 <= 64)          // signaled(pid, sig)
    || (w.1 == 2 && w.0 > 0 && 1 <= w.2 <= 64)          // stopped(pid, sig)
    || (w.1 == 3 && w.0 > 0 && w.2 == 0)                // continued(pid)
    || (w.1 == 9 && w.0 == 0 && w.2 == 9)               // others (ptrace)
    || (w.1 == 255 && w.0 == 0 && 0 <= w.2 <= 4095)     // error(errno)
}
impl WaitStatus {
//@FN WaitStatus::is_error
//@FN WaitStatus::is_signaled
//@FN WaitStatus::is_exited
//@FN WaitStatus::is_stopped
//@FN WaitStatus::is_continued
//@FN WaitStatus::get_pid
//@FN WaitStatus::_get_signaled_status
//@FN WaitStatus::get_signal
//@FN WaitStatus::get_status
}

// ---- ghost kernel: the stream of child events delivered so far, and the four parking maps of signals.rs ----
pub ghost struct Kernel {
    pub delivered: Seq<WaitStatus>,
    pub reap: Map<int, int>,
    pub kill: Map<int, int>,
    pub stop: Set<int>,
    pub cont: Set<int>,
}
// waitpid(-1, WUNTRACED|WCONTINUED) : ANY valid event (every order the kernel may choose), or an error
pub uninterp spec fn spec_is_echild(errno: int) -> bool;
pub open spec fn fatal_error(w: WaitStatus) -> bool { w.1 == 255 && !spec_is_echild(w.2 as int) }
#[verifier::external_body]
pub fn waitpidx(wpid: i32, block: bool, Tracked(k): Tracked<&mut Kernel>) -> (ws: WaitStatus)
    // C02 / C06: the foreground wait listens to EVERY child (-1): a stage may have left its process group (setsid, a job-control program),
    // and the events of other jobs' children that arrive meanwhile must be parked, not left unread
    requires wpid == -1,   //@L C02+C03+C06+C07.wait.listens_to_every_child_not_only_to_the_group
    ensures ws_valid(ws) || (!block && ws.0 == 0 && ws.1 == 0 && ws.2 == 0),
        final(k).delivered == old(k).delivered.push(ws),
        final(k).reap == old(k).reap && final(k).kill == old(k).kill && final(k).stop == old(k).stop && final(k).cont == old(k).cont,
{ unimplemented!() }
#[verifier::external_body]
pub fn vx_errno_is_echild(ws: &WaitStatus) -> (r: bool) requires ws.1 == 255 ensures r == spec_is_echild(ws.2 as int) { unimplemented!() }
#[verifier::external_body]
pub fn vx_errno_as_i32(ws: &WaitStatus) -> (r: i32) requires ws.1 == 255 { unimplemented!() }
#[verifier::external_body]
pub fn insert_reap_map(pid: i32, status: i32, Tracked(k): Tracked<&mut Kernel>)
    ensures final(k).reap == old(k).reap.insert(pid as int, status as int),
        final(k).kill == old(k).kill && final(k).stop == old(k).stop && final(k).cont == old(k).cont && final(k).delivered == old(k).delivered,
{ unimplemented!() }
#[verifier::external_body]
pub fn killed_map_insert(pid: i32, sig: i32, Tracked(k): Tracked<&mut Kernel>)
    ensures final(k).kill == old(k).kill.insert(pid as int, sig as int),
        final(k).reap == old(k).reap && final(k).stop == old(k).stop && final(k).cont == old(k).cont && final(k).delivered == old(k).delivered,
{ unimplemented!() }
#[verifier::external_body]
pub fn insert_stopped_map(pid: i32, Tracked(k): Tracked<&mut Kernel>)
    // (signals.rs: the latest stop / continue event of a process decides: recording one removes the opposite entry)
    ensures final(k).stop == old(k).stop.insert(pid as int), final(k).cont == old(k).cont.remove(pid as int),
        final(k).reap == old(k).reap && final(k).kill == old(k).kill && final(k).delivered == old(k).delivered,
{ unimplemented!() }
#[verifier::external_body]
pub fn insert_cont_map(pid: i32, Tracked(k): Tracked<&mut Kernel>)
    ensures final(k).cont == old(k).cont.insert(pid as int), final(k).stop == old(k).stop.remove(pid as int),
        final(k).reap == old(k).reap && final(k).kill == old(k).kill && final(k).delivered == old(k).delivered,
{ unimplemented!() }
// prints the job line on stderr (I/O only)
#[verifier::external_body]
pub fn print_job(job: &Job) { unimplemented!() }
#[verifier::external_body]
pub fn vx_getpgid(pid: i32) -> i32 { unimplemented!() }
#[verifier::external_body]
pub fn vx_contains_i32(v: &[i32], x: &i32) -> (r: bool) ensures r == v@.contains(*x) { unimplemented!() }
#[verifier::external_body]
pub fn vx_last_i32(v: &[i32]) -> (r: Option<&i32>) ensures match r { Some(x) => v@.len() > 0 && *x == v@.last(), None => v@.len() == 0 } { unimplemented!() }

// ---- specification vocabulary for the wait protocol (from the property statement) ----
pub open spec fn is_term(w: WaitStatus) -> bool { w.1 == 0 || w.1 == 1 }        // exited or killed
pub open spec fn status_of(w: WaitStatus) -> int { if w.1 == 0 { w.2 as int } else { w.2 + 128 } }
// a non-foreground child's event is parked where the prompt-time poll will find it
pub open spec fn parked(k: Kernel, w: WaitStatus) -> bool {
    (w.1 == 0 ==> k.reap.contains_key(w.0 as int) )
    && (w.1 == 1 ==> k.kill.contains_key(w.0 as int))
    && (w.1 == 2 ==> k.stop.contains(w.0 as int))
    && (w.1 == 3 ==> k.cont.contains(w.0 as int))
}
// a stop / continue event is superseded by a later stop / continue event of the same process: the latest one decides (signals.rs keeps one entry per process)
pub open spec fn superseded(d: Seq<WaitStatus>, i: int, n: int) -> bool {
    exists|j: int| i < j < n && (#[trigger] d[j]).0 == d[i].0 && (d[j].1 == 2 || d[j].1 == 3)
}
pub proof fn lemma_superseded_push(d: Seq<WaitStatus>, w: WaitStatus, i: int)
    requires 0 <= i < d.len()
    ensures superseded(d.push(w), i, (d.len() + 1) as int) == (superseded(d, i, d.len() as int) || (w.0 == d[i].0 && (w.1 == 2 || w.1 == 3))),
        !superseded(d.push(w), d.len() as int, (d.len() + 1) as int),
{
    let d2 = d.push(w);
    if superseded(d, i, d.len() as int) {
        let j = choose|j: int| i < j < d.len() && (#[trigger] d[j]).0 == d[i].0 && (d[j].1 == 2 || d[j].1 == 3);
        assert(d2[j] == d[j]); assert(d2[i] == d[i]);
    }
    if w.0 == d[i].0 && (w.1 == 2 || w.1 == 3) { assert(d2[d.len() as int] == w); assert(d2[i] == d[i]); }
    if superseded(d2, i, (d.len() + 1) as int) {
        let j = choose|j: int| i < j < d.len() + 1 && (#[trigger] d2[j]).0 == d2[i].0 && (d2[j].1 == 2 || d2[j].1 == 3);
        assert(d2[i] == d[i]);
        if j < d.len() { assert(d2[j] == d[j]); } else { assert(d2[j] == w); }
    }
}
// what the poll will find for the i-th event: exits and kills are all kept; of the stops and continues of a process the latest one, and no stale opposite entry next to it
pub open spec fn kept(k: Kernel, d: Seq<WaitStatus>, i: int, n: int) -> bool {
    (d[i].1 <= 1 ==> parked(k, d[i]))
    && (d[i].1 >= 2 && !superseded(d, i, n) ==> parked(k, d[i]) && (d[i].1 == 2 ==> !k.cont.contains(d[i].0 as int)) && (d[i].1 == 3 ==> !k.stop.contains(d[i].0 as int)))
}
// status reported by the latest non-continue event of `pid` among delivered[from..n]
pub open spec fn last_status(d: Seq<WaitStatus>, from: int, n: int, pid: i32, dflt: int) -> int
    decreases n - from
{
    if n <= from { dflt }
    else if d[n - 1].0 == pid && d[n - 1].1 != 3 && d[n - 1].1 != 255 && d[n - 1].1 != 9 { status_of(d[n - 1]) }
    else { last_status(d, from, n - 1, pid, dflt) }
}

// has `pid` exited, been killed or been stopped -- and not been continued since -- according to delivered[from..n]? (its latest event decides)
pub open spec fn settled_at(d: Seq<WaitStatus>, from: int, n: int, pid: i32) -> bool
    decreases n - from
{
    if n <= from { false }
    else if d[n - 1].0 == pid && d[n - 1].1 != 255 { d[n - 1].1 != 3 }
    else { settled_at(d, from, n - 1, pid) }
}
pub proof fn lemma_settled_ext(d1: Seq<WaitStatus>, d2: Seq<WaitStatus>, from: int, n: int, pid: i32)
    requires 0 <= from, n <= d1.len(), n <= d2.len(), forall|i: int| 0 <= i < n ==> d1[i] == d2[i],
    ensures settled_at(d1, from, n, pid) == settled_at(d2, from, n, pid),
    decreases n - from
{
    if n > from { lemma_settled_ext(d1, d2, from, n - 1, pid); }
}
// a settled member has reported an exit / kill / stop
pub proof fn lemma_settled_has_event(d: Seq<WaitStatus>, from: int, n: int, pid: i32)
    requires 0 <= from <= n <= d.len(), settled_at(d, from, n, pid),
    ensures exists|i: int| from <= i < n && (#[trigger] d[i]).0 == pid && d[i].1 != 3 && d[i].1 != 255,
    decreases n - from
{
    if n > from {
        if d[n - 1].0 == pid && d[n - 1].1 != 255 { assert(d[n - 1].0 == pid); }
        else { lemma_settled_has_event(d, from, n - 1, pid); }
    }
}
// a set of members that is as large as the (duplicate-free) member list is the whole list
pub proof fn lemma_all_members(s: Set<i32>, pids: Seq<i32>)
    requires s.finite(), pids.no_duplicates(), forall|p: i32| s.contains(p) ==> pids.contains(p), s.len() >= pids.len(),
    ensures forall|p: i32| pids.contains(p) ==> s.contains(p),
{
    pids.unique_seq_to_set();
    let ps = pids.to_set();
    assert(s.subset_of(ps)) by { assert forall|p: i32| s.contains(p) implies ps.contains(p) by { assert(pids.contains(p)); } }
    vstd::set_lib::lemma_len_subset(s, ps);
    vstd::set_lib::lemma_subset_equality(s, ps);
    assert forall|p: i32| pids.contains(p) implies s.contains(p) by { assert(ps.contains(p)); }
}
// number of non-continue events of foreground members among delivered[from..n]
pub open spec fn fg_events(d: Seq<WaitStatus>, from: int, n: int, pids: Seq<i32>) -> int
    decreases n - from
{
    if n <= from { 0 }
    else { fg_events(d, from, n - 1, pids) + (if pids.contains(d[n - 1].0) && d[n - 1].1 != 3 && d[n - 1].1 != 255 { 1int } else { 0int }) }
}
pub proof fn lemma_fg_events_ext(d1: Seq<WaitStatus>, d2: Seq<WaitStatus>, from: int, n: int, pids: Seq<i32>)
    requires 0 <= from, n <= d1.len(), n <= d2.len(), forall|i: int| 0 <= i < n ==> d1[i] == d2[i],
    ensures fg_events(d1, from, n, pids) == fg_events(d2, from, n, pids),
    decreases n - from
{
    if n > from { lemma_fg_events_ext(d1, d2, from, n - 1, pids); }
}

pub proof fn lemma_last_status_ext(d1: Seq<WaitStatus>, d2: Seq<WaitStatus>, from: int, n: int, pid: i32, dflt: int)
    requires 0 <= from, n <= d1.len(), n <= d2.len(), forall|i: int| 0 <= i < n ==> d1[i] == d2[i],
    ensures last_status(d1, from, n, pid, dflt) == last_status(d2, from, n, pid, dflt),
    decreases n - from
{
    if n > from { lemma_last_status_ext(d1, d2, from, n - 1, pid, dflt); }
}

//@FN mark_job_as_done
//@FN mark_job_as_stopped
//@FN mark_job_member_stopped
//@FN mark_job_member_continued
//@FN mark_job_as_running
impl CommandResult {
//@FN CommandResult::new
//@FN CommandResult::from_status
}
//@FN wait_fg_job
// ---- the prompt-time poll (jobc::try_wait_bg_jobs): every member of every job is looked at, and the first parked entry it has is taken and applied ----
#[verifier::external_body]
pub fn pop_reap_map(pid: i32, Tracked(k): Tracked<&mut Kernel>) -> (r: Option<i32>)
    ensures r.is_some() == old(k).reap.contains_key(pid as int), final(k).reap == old(k).reap.remove(pid as int),
        final(k).kill == old(k).kill && final(k).stop == old(k).stop && final(k).cont == old(k).cont && final(k).delivered == old(k).delivered,
{ unimplemented!() }
#[verifier::external_body]
pub fn killed_map_pop(pid: i32, Tracked(k): Tracked<&mut Kernel>) -> (r: Option<i32>)
    ensures r.is_some() == old(k).kill.contains_key(pid as int), final(k).kill == old(k).kill.remove(pid as int),
        final(k).reap == old(k).reap && final(k).stop == old(k).stop && final(k).cont == old(k).cont && final(k).delivered == old(k).delivered,
{ unimplemented!() }
#[verifier::external_body]
pub fn pop_stopped_map(pid: i32, Tracked(k): Tracked<&mut Kernel>) -> (r: bool)
    ensures r == old(k).stop.contains(pid as int), final(k).stop == old(k).stop.remove(pid as int),
        final(k).reap == old(k).reap && final(k).kill == old(k).kill && final(k).cont == old(k).cont && final(k).delivered == old(k).delivered,
{ unimplemented!() }
#[verifier::external_body]
pub fn pop_cont_map(pid: i32, Tracked(k): Tracked<&mut Kernel>) -> (r: bool)
    ensures r == old(k).cont.contains(pid as int), final(k).cont == old(k).cont.remove(pid as int),
        final(k).reap == old(k).reap && final(k).kill == old(k).kill && final(k).stop == old(k).stop && final(k).delivered == old(k).delivered,
{ unimplemented!() }
// signals::handle_sigchld: collects whatever child events are pending (waitpid WNOHANG loop) into the four maps: any additions
#[verifier::external_body]
pub fn handle_sigchld(Tracked(k): Tracked<&mut Kernel>) { unimplemented!() }
#[verifier::external_body]
pub fn vx_reason(sig: i32) -> (r: String) { unimplemented!() }
#[verifier::external_body]
pub fn vx_jobs_is_empty(m: &HashMap<i32, Job>) -> (r: bool) ensures r == (m@.dom().len() == 0) { m.is_empty() }
#[verifier::external_body]
pub fn vx_clone_jobs(m: &HashMap<i32, Job>) -> (r: HashMap<i32, Job>) ensures r@ == m@ { unimplemented!() }
// HashMap iteration through a snapshot: every entry once, unspecified order
#[verifier::external_body]
pub fn vx_job_values(m: &HashMap<i32, Job>) -> (r: Vec<Job>)
    ensures forall|i: int| 0 <= i < r@.len() ==> m@.contains_key((#[trigger] r@[i]).id) && m@[r@[i].id] == r@[i],
        forall|x: i32| m@.contains_key(x) ==> exists|i: int| 0 <= i < r@.len() && (#[trigger] r@[i]).id == x
{ unimplemented!() }
// the maps only shrink during the poll proper
pub open spec fn shrunk(a: Kernel, b: Kernel) -> bool {
    (forall|x: int| b.reap.contains_key(x) ==> a.reap.contains_key(x)) && (forall|x: int| b.kill.contains_key(x) ==> a.kill.contains_key(x))
    && (forall|x: int| b.stop.contains(x) ==> a.stop.contains(x)) && (forall|x: int| b.cont.contains(x) ==> a.cont.contains(x))
}
// member `pid` was looked at: the first parked entry it had (exit, kill, stop, continue -- in that order) is gone
pub open spec fn looked_at(k1: Kernel, kf: Kernel, pid: int) -> bool {
    if k1.reap.contains_key(pid) { !kf.reap.contains_key(pid) }
    else if k1.kill.contains_key(pid) { !kf.kill.contains_key(pid) }
    else if k1.stop.contains(pid) { !kf.stop.contains(pid) }
    else { !kf.cont.contains(pid) }
}
//@FN try_wait_bg_jobs
''' + common.TAIL

J = 'src/jobc.rs'
T = 'src/types.rs'
RW = [Rw('shell::Shell', 'Shell', required=False, rule='R0'), Rw('types::Job', 'Job', required=False, rule='R0')]


def ext(fn):
    f = copy.copy(fn)
    f.external = True
    f.loops, f.hints = {}, {}
    return f


def ws_fn(name, ens=None, req=None):
    return Fn(T, name, impl='WaitStatus', ret='r', ensures=[('C02+C06+C07.ws.%s' % name, ens)] if ens else [],
              requires=[('C05.pre.ws_valid', 'ws_valid(*self)')] if req else [])


WS_FNS = [
    ws_fn('is_error', 'r == (self.1 == 255)'), ws_fn('is_signaled', 'r == (self.1 == 1)'),
    ws_fn('is_exited', 'r == (self.0 != 0 && self.1 == 0)'), ws_fn('is_stopped', 'r == (self.1 == 2)'),
    ws_fn('is_continued', 'r == (self.1 == 3)'), ws_fn('get_pid', 'r == self.0'),
    ws_fn('_get_signaled_status', 'r == self.2 + 128', req=True), ws_fn('get_signal', 'r == self.2'),
    ws_fn('get_status', 'ws_valid(*self) && (self.1 == 0 || self.1 == 1 || self.1 == 2) ==> r as int == status_of(*self)', req=True),
]

mark_job_as_done = Fn(J, 'mark_job_as_done', rewrites=RW,
    requires=[('C06.pre.wf', 'wf(old(sh).jobs@)')],
    ensures=[
        ('C06+C07.done.wf', 'wf(final(sh).jobs@)'),
        ('C06+C07.done.absent_unchanged', '!has_gid(old(sh).jobs@, gid) ==> final(sh).jobs@ == old(sh).jobs@'),
        ('C06+C07.done.pid_removed_job_dropped_when_empty',
         'has_gid(old(sh).jobs@, gid) ==> exists|k: i32| old(sh).jobs@.contains_key(k) && #[trigger] old(sh).jobs@[k].gid == gid '
         '&& same_but(final(sh).jobs@, old(sh).jobs@, k) '
         '&& ((!final(sh).jobs@.contains_key(k) && forall|p: i32| old(sh).jobs@[k].pids@.contains(p) ==> p == pid) '
         '    || (final(sh).jobs@.contains_key(k) && removed_one(old(sh).jobs@[k].pids@, final(sh).jobs@[k].pids@, pid) '
         '        && !final(sh).jobs@[k].pids@.contains(pid) && job_after_remove(final(sh).jobs@[k], old(sh).jobs@[k], pid)))'),
    ],
    let_types={})
mark_job_as_done.ensures.append(
    ('C06+C07.done.stopped_when_only_stopped_members_remain',
     'forall|k: i32| final(sh).jobs@.contains_key(k) && #[trigger] final(sh).jobs@[k].gid == gid ==> '
     '((forall|i: int| 0 <= i < final(sh).jobs@[k].pids@.len() ==> final(sh).jobs@[k].pids_stopped@.contains(final(sh).jobs@[k].pids@[i])) '
     ' ==> final(sh).jobs@[k].status@ == "Stopped"@)'))

jc_stopped = Fn(J, 'mark_job_as_stopped', rewrites=RW,
    requires=[('C06.pre.wf', 'wf(old(sh).jobs@)')],
    ensures=[('C06+C07.jc_stopped.wf', 'wf(final(sh).jobs@)'),
             ('C06+C07.jc_stopped.view', '(!has_gid(old(sh).jobs@, gid) ==> final(sh).jobs@ == old(sh).jobs@) && final(sh).jobs@.dom() == old(sh).jobs@.dom()'),
             ('C06+C07.jc_stopped.whole_view',
              'has_gid(old(sh).jobs@, gid) ==> exists|k: i32| old(sh).jobs@.contains_key(k) && #[trigger] old(sh).jobs@[k].gid == gid '
              '&& final(sh).jobs@.contains_key(k) && same_but(final(sh).jobs@, old(sh).jobs@, k) '
              '&& final(sh).jobs@[k].pids_stopped@ == old(sh).jobs@[k].pids_stopped@ && final(sh).jobs@[k].status@ == "Stopped"@ '
              '&& final(sh).jobs@[k].pids@ == old(sh).jobs@[k].pids@ && final(sh).jobs@[k].id == k && final(sh).jobs@[k].gid == gid')])
jc_member_stopped = Fn(J, 'mark_job_member_stopped', rewrites=RW + [Rw('unsafe { libc::getpgid(pid) }', 'vx_getpgid(pid)', rule='R8', required=False)],
    requires=[('C06.pre.wf', 'wf(old(sh).jobs@)')],
    ensures=[('C06+C07.jc_member_stopped.wf', 'wf(final(sh).jobs@)'),
             ('C06+C07.jc_member_stopped.dom', 'final(sh).jobs@.dom() == old(sh).jobs@.dom()'),
             ('C06+C07.jc_member_stopped.stopped_iff_all_stopped',
              'forall|k: i32| final(sh).jobs@.contains_key(k) && #[trigger] final(sh).jobs@[k].gid == gid && gid != 0 ==> '
              '((forall|i: int| 0 <= i < final(sh).jobs@[k].pids@.len() ==> final(sh).jobs@[k].pids_stopped@.contains(final(sh).jobs@[k].pids@[i])) '
              ' ==> final(sh).jobs@[k].status@ == "Stopped"@)')])
jc_member_continued = Fn(J, 'mark_job_member_continued', rewrites=RW + [Rw('unsafe { libc::getpgid(pid) }', 'vx_getpgid(pid)', rule='R8', required=False)],
    requires=[('C06.pre.wf', 'wf(old(sh).jobs@)')],
    ensures=[('C06+C07.jc_member_continued.wf', 'wf(final(sh).jobs@)'),
             ('C06+C07.jc_member_continued.dom', 'final(sh).jobs@.dom() == old(sh).jobs@.dom()'),
             ('C06+C07.jc_member_continued.running_when_a_member_runs',
              'has_gid(old(sh).jobs@, gid) ==> exists|k: i32| old(sh).jobs@.contains_key(k) && #[trigger] old(sh).jobs@[k].gid == gid '
              '&& final(sh).jobs@.contains_key(k) && final(sh).jobs@[k].gid == gid && final(sh).jobs@[k].status@ == "Running"@ '
              '&& !final(sh).jobs@[k].pids_stopped@.contains(pid)'),
             # ... and only that member: the shell goes on knowing which OTHER members are stopped (else the job can never become Stopped again)
             ('C06+C07.jc_member_continued.the_other_members_keep_their_stopped_mark',
              'forall|k: i32| old(sh).jobs@.contains_key(k) && #[trigger] old(sh).jobs@[k].gid == gid && gid != 0 && final(sh).jobs@.contains_key(k) ==> '
              'final(sh).jobs@[k].pids_stopped@ =~= old(sh).jobs@[k].pids_stopped@.remove(pid)'),
             # a job resumed from outside runs without the terminal: it is a background job from then on, so that its end is reported (C07: "reported once")
             ('C07.jc_member_continued.a_job_whose_members_all_run_again_is_a_background_job',
              'forall|k: i32| old(sh).jobs@.contains_key(k) && #[trigger] old(sh).jobs@[k].gid == gid && gid != 0 && final(sh).jobs@.contains_key(k) '
              '&& final(sh).jobs@[k].pids_stopped@.len() == 0 ==> final(sh).jobs@[k].is_bg')])
jc_running = Fn(J, 'mark_job_as_running', rewrites=RW,
    requires=[('C06.pre.wf', 'wf(old(sh).jobs@)')],
    ensures=[('C06+C07.jc_running.wf', 'wf(final(sh).jobs@)'), ('C06+C07.jc_running.dom', 'final(sh).jobs@.dom() == old(sh).jobs@.dom()'),
             ('C06+C07.jc_running.whole_view',
              '(!has_gid(old(sh).jobs@, gid) ==> final(sh).jobs@ == old(sh).jobs@) && (has_gid(old(sh).jobs@, gid) ==> exists|k: i32| old(sh).jobs@.contains_key(k) && #[trigger] old(sh).jobs@[k].gid == gid '
              '&& final(sh).jobs@.contains_key(k) && same_but(final(sh).jobs@, old(sh).jobs@, k) '
              '&& final(sh).jobs@[k].pids_stopped@ =~= Set::<i32>::empty() && final(sh).jobs@[k].status@ == "Running"@ && final(sh).jobs@[k].is_bg == bg '
              '&& final(sh).jobs@[k].pids@ == old(sh).jobs@[k].pids@ && final(sh).jobs@[k].id == k && final(sh).jobs@[k].gid == gid)')])

NEW_EVENTS = 'old(k).delivered.len() <= i < K.delivered.len()'
wait_fg_job = Fn(J, 'wait_fg_job', ret='r', rewrites=RW,
    attrs=['#[verifier::exec_allows_no_decreases_clause]'],
    pre_rewrites=[
        Rw('pids.last()', 'vx_last_i32(pids)', rule='R12', why='slice::last through a shim with its std contract'),
        Rw('pids.contains(&pid)', 'vx_contains_i32(pids, &pid)', rule='R12', why='slice::contains through a shim with its std contract'),
        Rw(r'let err = ws\.get_errno\(\);', '', regex=True, rule='R8', why='nix::Error value replaced by shims on the WaitStatus errno field'),
        Rw('err == nix::Error::ECHILD', 'vx_errno_is_echild(&ws)', rule='R8'),
        Rw('err as i32', 'vx_errno_as_i32(&ws)', rule='R8'),
    ],
    add_params='Tracked(k): Tracked<&mut Kernel>',
    ghost_args={'waitpidx': 'Tracked(k)', 'insert_reap_map': 'Tracked(k)', 'insert_stopped_map': 'Tracked(k)',
                'insert_cont_map': 'Tracked(k)', 'killed_map_insert': 'Tracked(k)'},
    requires=[('C06.pre.wf', 'wf(old(sh).jobs@)'), ('C06.pre.pids_positive', 'forall|i: int| 0 <= i < pids@.len() ==> (#[trigger] pids@[i]) > 0'),
              ('C06.pre.pids_distinct', 'pids@.no_duplicates()')],
    ensures=[
        ('C06+C07.wait.wf', 'wf(final(sh).jobs@)'),
        ('C06+C07.wait.no_background_event_lost',
         'forall|i: int| ' + NEW_EVENTS.replace('K', 'final(k)') + ' && !pids@.contains((#[trigger] final(k).delivered[i]).0) '
         '&& 0 <= final(k).delivered[i].1 <= 3 && final(k).delivered[i].0 > 0 ==> kept(*final(k), final(k).delivered, i, final(k).delivered.len() as int)'),
        ('C02+C03.wait.status_is_last_stage_status',
         'pids@.len() > 0 ==> (final(k).delivered.len() > old(k).delivered.len() && fatal_error(final(k).delivered.last())) '
         '|| r.status as int == last_status(final(k).delivered, old(k).delivered.len() as int, final(k).delivered.len() as int, pids@.last(), 0)'),
        # THE PROPERTY: the wait returns exactly when each member has exited or is stopped (and has not been continued since)
        ('C02+C03+C06+C07.wait.returns_when_every_member_has_exited_or_is_stopped',
         'pids@.len() > 0 && !(final(k).delivered.len() > old(k).delivered.len() && final(k).delivered.last().1 == 255) ==> '
         'forall|p: i32| pids@.contains(p) ==> #[trigger] settled_at(final(k).delivered, old(k).delivered.len() as int, final(k).delivered.len() as int, p)'),
        ('C02+C03+C06+C07.wait.returns_only_when_every_stage_reported',
         'pids@.len() > 0 && !(final(k).delivered.len() > old(k).delivered.len() && final(k).delivered.last().1 == 255) ==> '
         'forall|p: i32| pids@.contains(p) ==> exists|i: int| ' + NEW_EVENTS.replace('K', 'final(k)') +
         ' && (#[trigger] final(k).delivered[i]).0 == p && 0 <= final(k).delivered[i].1 <= 2'),
    ],
    loops={0: Loop(invariant=[
        ('C06+C07.inv.wait.wf', 'wf(sh.jobs@)'),
        ('C06+C07.inv.wait.stream', 'old(k).delivered.len() <= k.delivered.len() && count_child == pids@.len() && pids@.len() > 0 && *pid_last == pids@.last() && pids@.no_duplicates() '
                                '&& forall|i: int| 0 <= i < pids@.len() ==> (#[trigger] pids@[i]) > 0'),
        ('C06+C07.inv.wait.parked',
         'forall|i: int| ' + NEW_EVENTS.replace('K', 'k') + ' && !pids@.contains((#[trigger] k.delivered[i]).0) '
         '&& 0 <= k.delivered[i].1 <= 3 && k.delivered[i].0 > 0 ==> kept(*k, k.delivered, i, k.delivered.len() as int)'),
        ('C06+C07.inv.wait.events_valid', 'forall|i: int| ' + NEW_EVENTS.replace('K', 'k') + ' ==> ws_valid(#[trigger] k.delivered[i])'),
    ], invariant_except_break=[
        ('C02+C03+C06+C07.inv.wait.settled_is_the_set_of_members_that_exited_or_are_stopped',
         'settled@.finite() && (forall|p: i32| #[trigger] settled@.contains(p) ==> pids@.contains(p) && settled_at(k.delivered, old(k).delivered.len() as int, k.delivered.len() as int, p)) '
         '&& (forall|p: i32| pids@.contains(p) && #[trigger] settled_at(k.delivered, old(k).delivered.len() as int, k.delivered.len() as int, p) ==> settled@.contains(p))'),
        ('C02+C03.inv.wait.status', 'cmd_result.status as int == last_status(k.delivered, old(k).delivered.len() as int, k.delivered.len() as int, pids@.last(), 0)'),
    ], ensures=[
        ('C02+C03+C06+C07.inv.wait.exit_when_every_member_settled',
         '(k.delivered.len() > old(k).delivered.len() && k.delivered.last().1 == 255) '
         '|| forall|p: i32| pids@.contains(p) ==> #[trigger] settled_at(k.delivered, old(k).delivered.len() as int, k.delivered.len() as int, p)'),
        ('C02+C03.inv.wait.exit_status',
         '(k.delivered.len() > old(k).delivered.len() && fatal_error(k.delivered.last())) '
         '|| cmd_result.status as int == last_status(k.delivered, old(k).delivered.len() as int, k.delivered.len() as int, pids@.last(), 0)'),
    ])},
    hints={'before-call:waitpidx': 'RAW: let ghost __d0 = k.delivered;',
           'after-call:waitpidx': 'lemma_last_status_ext(__d0, k.delivered, old(k).delivered.len() as int, __d0.len() as int, pids@.last(), 0); '
                                  'assert forall|p: i32| settled_at(__d0, old(k).delivered.len() as int, __d0.len() as int, p) == #[trigger] settled_at(k.delivered, old(k).delivered.len() as int, __d0.len() as int, p) by '
                                  '{ lemma_settled_ext(__d0, k.delivered, old(k).delivered.len() as int, __d0.len() as int, p); } '
                                  'assert(k.delivered.len() == __d0.len() + 1 && k.delivered[__d0.len() as int] == ws); '
                                  'assert(k.delivered =~= __d0.push(ws)); '
                                  'assert forall|i: int| 0 <= i < __d0.len() implies #[trigger] superseded(k.delivered, i, k.delivered.len() as int) == '
                                  '(superseded(__d0, i, __d0.len() as int) || (ws.0 == __d0[i].0 && (ws.1 == 2 || ws.1 == 3))) by { lemma_superseded_push(__d0, ws, i); } '
                                  'if __d0.len() > 0 { lemma_superseded_push(__d0, ws, 0); } assert(!superseded(k.delivered, __d0.len() as int, k.delivered.len() as int)); '
                                  'assert forall|p: i32| #[trigger] settled_at(k.delivered, old(k).delivered.len() as int, k.delivered.len() as int, p) == '
                                  '(if ws.0 == p && ws.1 != 255 { ws.1 != 3 } else { settled_at(k.delivered, old(k).delivered.len() as int, __d0.len() as int, p) }) by { }',
           'after-text:if settled.len() >= count_child {': 'lemma_all_members(settled@, pids@);',
           'loop-0-exit': 'assert forall|p: i32| pids@.contains(p) && settled_at(k.delivered, old(k).delivered.len() as int, k.delivered.len() as int, p) implies '
                          'exists|i: int| old(k).delivered.len() <= i < k.delivered.len() && (#[trigger] k.delivered[i]).0 == p && 0 <= k.delivered[i].1 <= 2 by '
                          '{ lemma_settled_has_event(k.delivered, old(k).delivered.len() as int, k.delivered.len() as int, p); '
                          'let i = choose|i: int| old(k).delivered.len() <= i < k.delivered.len() && (#[trigger] k.delivered[i]).0 == p && k.delivered[i].1 != 3 && k.delivered[i].1 != 255; assert(ws_valid(k.delivered[i])); }'},
    let_types={},
)

try_wait_bg_jobs = Fn(J, 'try_wait_bg_jobs', rewrites=RW,
    pre_rewrites=[
        Rw('sh.jobs.is_empty()', 'vx_jobs_is_empty(&sh.jobs)', rule='R12'),
        Rw('signals::handle_sigchld(Signal::SIGCHLD as i32);', 'handle_sigchld(Tracked(k));', rule='R8', why='the SIGCHLD handler body (waitpid WNOHANG loop into the four maps): external, any additions'),
        Rw('sh.jobs.clone()', 'vx_clone_jobs(&sh.jobs)', rule='R7'),
        Rw('for (_i, job) in jobs.iter() {', 'let __jv = vx_job_values(&jobs); for job in __jv.iter() {', rule='R12', why='HashMap iteration through a snapshot shim: every entry once, unspecified order'),
        Rw(r'let reason = if sig == Signal::SIGQUIT[\s\S]*?\};', 'let reason = vx_reason(sig);', regex=True, rule='R3', why='the text of the end-of-job report (format!): opaque'),
        Rw(r'signals::(pop_reap_map|killed_map_pop|pop_stopped_map|pop_cont_map)\(', r'\1(', regex=True, rule='R0'),
    ],
    add_params='Tracked(k): Tracked<&mut Kernel>, Ghost(k1): Ghost<Kernel>',
    ghost_args={'pop_reap_map': 'Tracked(k)', 'killed_map_pop': 'Tracked(k)', 'pop_stopped_map': 'Tracked(k)', 'pop_cont_map': 'Tracked(k)'},
    requires=[('C06.pre.wf', 'wf(old(sh).jobs@)')],
    ensures=[('C06+C07.poll.wf', 'wf(final(sh).jobs@)'),
             # no status change of a background process is left unread: every member of every job of the table is looked at in one poll
             ('C06+C07.poll.every_member_of_every_job_is_looked_at',
              'old(sh).jobs@.dom().len() == 0 || exists|km: Kernel| shrunk(km, *final(k)) && forall|x: i32, i: int| old(sh).jobs@.contains_key(x) && 0 <= i < old(sh).jobs@[x].pids@.len() '
              '==> #[trigger] looked_at(km, *final(k), old(sh).jobs@[x].pids@[i] as int)')],
    loops={
        0: Loop(invariant=[
            ('C06+C07.inv.poll.wf', 'wf(sh.jobs@) && jobs@ == old(sh).jobs@ && shrunk(__km, *k)'),
            ('C06+C07.inv.poll.jobs_done', 'forall|a: int, i: int| 0 <= a < __i0 && 0 <= i < __jv@[a].pids@.len() ==> #[trigger] looked_at(__km, *k, __jv@[a].pids@[i] as int)'),
        ]),
        1: Loop(invariant=[
            ('C06+C07.inv.poll.wf2', 'wf(sh.jobs@) && shrunk(__km, *k) && 1 <= __i0 <= __jv@.len() && *job == __jv@[__i0 - 1]'),
            ('C06+C07.inv.poll.jobs_done2', 'forall|a: int, i: int| 0 <= a < __i0 - 1 && 0 <= i < __jv@[a].pids@.len() ==> #[trigger] looked_at(__km, *k, __jv@[a].pids@[i] as int)'),
            ('C06+C07.inv.poll.members_done', 'forall|i: int| 0 <= i < __i1 ==> #[trigger] looked_at(__km, *k, job.pids@[i] as int)'),
        ]),
    },
    hints={'before-text:let jobs = vx_clone_jobs(&sh.jobs);': 'RAW: let ghost __km = *k;',
           # entries are only taken out during the poll, so a member that was looked at stays looked at
           'loop-1-body-entry': 'RAW: let ghost __kb = *k; proof { assert forall|kb: Kernel, p: int| shrunk(__kb, kb) && looked_at(__km, __kb, p) implies #[trigger] looked_at(__km, kb, p) by { } }',
           'loop-0-body-entry': 'RAW: let ghost __ka = *k; proof { assert forall|kb: Kernel, p: int| shrunk(__ka, kb) && looked_at(__km, __ka, p) implies #[trigger] looked_at(__km, kb, p) by { } }'},
)
UNIT = Unit('U-WAIT', TEMPLATE,
    fns=[ext(u_jobs.all_members_stopped), ext(u_jobs.all_members_running), ext(u_jobs.get_job_by_gid), ext(u_jobs.mark_job_member_continued),
         ext(u_jobs.mark_job_member_stopped), ext(u_jobs.mark_job_as_running), ext(u_jobs.mark_job_as_stopped), ext(u_jobs.remove_pid_from_job)]
        + WS_FNS + [mark_job_as_done, jc_stopped, jc_member_stopped, jc_member_continued, jc_running,
           Fn(T, 'new', impl='CommandResult', ret='r', ensures=[('C02.cr.new', 'r.status == 0 && r.gid == 0')]),
           Fn(T, 'from_status', impl='CommandResult', ret='r', ensures=[('C02+C03.cr.from_status', 'r.status == status && r.gid == gid')]), wait_fg_job, try_wait_bg_jobs],
    types=[TypeItem(T, 'struct', 'WaitStatus', rewrites=[Rw('WaitStatus(i32, i32, i32)', 'WaitStatus(pub i32, pub i32, pub i32)', rule='R13', why='field visibility only (single-module unit file)')]), TypeItem(T, 'struct', 'Job'), TypeItem(T, 'struct', 'CommandResult'),
           TypeItem('src/shell.rs', 'struct', 'Shell', rewrites=[Rw('types::Job', 'Job', rule='R0')])],
    props=('C06', 'C02', 'C05'))
TRUSTED = common.TRUSTED_STR + [
    'Shell job-table methods are external here with exactly the contracts proved in U-JOBS (same Fn objects, emitted as external_body)',
    'waitpidx (nix waitpid wrapper) is external: returns ANY valid WaitStatus (adversarial kernel) and appends it to the ghost delivered-stream',
    'signals.rs parking maps (lazy_static Mutex<HashMap/HashSet>) are modelled as ghost maps of the Kernel; try_lock never fails (single thread)',
    'libc::getpgid through a shim; nix::Error comparison (ECHILD) through shims',
]
