"""U-EXP3: command substitution passes $(...) and `...` (C11, C13, C01): which tokens may be rewritten (never single-quoted / escaped ones),
tags and token count never change, the inner command is planned and run once per substitution step, safety of the index bookkeeping."""
from vx.gen import Unit, Fn, TypeItem, Loop, Rw
from . import common

TEMPLATE = common.HEAD + common.STR_SHIMS + common.TOKEN_TYPES + r'''
//@TYPE Command
//@TYPE CommandLine
//@TYPE CommandResult
pub struct Shell { pub previous_status: i32 }
impl CommandResult {
//@FN CommandResult::new
}
pub open spec fn unq(t: Token) -> bool { t.0@.len() == 0 }

// HashMap<usize, String> used as the rewrite buffer: shims stated over an integer-keyed view
pub uninterp spec fn umap(m: HashMap<usize, String>) -> Map<int, Seq<char>>;
#[verifier::external_body]
pub fn vx_um_new() -> (r: HashMap<usize, String>) ensures umap(r) == Map::<int, Seq<char>>::empty() { HashMap::new() }
#[verifier::external_body]
pub fn vx_um_insert(m: &mut HashMap<usize, String>, k: usize, v: String) ensures umap(*final(m)) == umap(*old(m)).insert(k as int, v@) { m.insert(k, v); }
#[verifier::external_body]
pub fn vx_um_entries(m: &HashMap<usize, String>) -> (r: Vec<(usize, String)>)
    ensures forall|i: int| 0 <= i < r@.len() ==> umap(*m).contains_key((#[trigger] r@[i]).0 as int) && umap(*m)[r@[i].0 as int] == r@[i].1@,
        forall|i: int, j: int| 0 <= i < j < r@.len() ==> (#[trigger] r@[i]).0 != (#[trigger] r@[j]).0,
{ unimplemented!() }
#[verifier::external_body]
pub fn vx_set_token_text(tokens: &mut Tokens, i: usize, s: String)
    requires i < old(tokens)@.len()
    ensures final(tokens)@.len() == old(tokens)@.len(),
        forall|k: int| 0 <= k < old(tokens)@.len() && k != i ==> final(tokens)@[k] == old(tokens)@[k],
        final(tokens)@[i as int].0 == old(tokens)@[i as int].0, final(tokens)@[i as int].1@ == s@,
{ tokens[i].1 = s; }

// tokens[i].0 = s  (IndexMut + field assignment)
#[verifier::external_body]
pub fn vx_set_token_tag(tokens: &mut Tokens, i: usize, s: String)
    requires i < old(tokens)@.len()
    ensures final(tokens)@.len() == old(tokens)@.len(),
        forall|k: int| 0 <= k < old(tokens)@.len() && k != i ==> final(tokens)@[k] == old(tokens)@[k],
        final(tokens)@[i as int].1 == old(tokens)@[i as int].1, final(tokens)@[i as int].0@ == s@,
{ tokens[i].0 = s; }
pub open spec fn in_words(v: Seq<usize>, k: int) -> bool { exists|j: int| 0 <= j < v.len() && #[trigger] v[j] as int == k }
#[verifier::external_body]
pub fn vx_vec_contains(v: &Vec<usize>, x: &usize) -> (r: bool) ensures r == in_words(v@, *x as int) { v.contains(x) }
pub proof fn lemma_in_words_push(v: Seq<usize>, x: usize)
    ensures forall|k: int| #[trigger] in_words(v.push(x), k) == (in_words(v, k) || k == x as int),
{
    assert forall|k: int| #[trigger] in_words(v.push(x), k) == (in_words(v, k) || k == x as int) by {
        if in_words(v, k) { let j = choose|j: int| 0 <= j < v.len() && #[trigger] v[j] as int == k; assert(v.push(x)[j] as int == k); }
        if k == x as int { assert(v.push(x)[v.len() as int] as int == k); }
        if in_words(v.push(x), k) { let j = choose|j: int| 0 <= j < v.push(x).len() && #[trigger] v.push(x)[j] as int == k; if j < v.len() { assert(v[j] as int == k); } }
    }
}
pub proof fn lemma_quote_lit() ensures "\""@ == seq!['"'], "\""@.len() == 1 { reveal_strlit("\""); assert("\""@ =~= seq!['"']); }
pub open spec fn has_op(s: Seq<char>) -> bool { s.contains('|') || s.contains('&') || s.contains('<') || s.contains('>') }
// C11: "with trailing newlines removed" -- exactly that, blanks stay
pub open spec fn strip_nl(s: Seq<char>) -> Seq<char>
    decreases s.len()
{
    if s.len() > 0 && s.last() == '\n' { strip_nl(s.drop_last()) } else { s }
}
#[verifier::external_body]
pub fn vx_strip_nl(s: &String) -> (r: &str) ensures r@ == strip_nl(s@) { s.trim_end_matches('\n') }
#[verifier::external_body]
pub fn vx_eprint(s: &String) { }
#[verifier::external_body]
pub fn vx_eprint_nl() { }
//@FN has_operator_char
// ---- shared with the other expansion unit (common.ASSIGN_PREFIX) ----
pub uninterp spec fn spec_is_assign(t: Seq<char>) -> bool;
#[verifier::external_body]
pub fn is_assignment_word(text: &str) -> (r: bool) ensures r == spec_is_assign(text@) { unimplemented!() }
pub open spec fn assign_prefix(toks: Seq<Token>, k: int) -> bool {
    forall|j: int| 0 <= j <= k && j < toks.len() ==> (#[trigger] toks[j]).0@.len() == 0 && spec_is_assign(toks[j].1@)
}
//@FN in_assignment_prefix

''' + common.NESTING_SPEC + common.NESTING_TWIN + r'''
//@TYPE MAX_NESTING
// the gate of the $(..) pass (verified below): two pattern literals (uninterpreted: a substitution is written; not inside the single-quoted value of an assignment) AND the word is within the nesting limit
pub uninterp spec fn spec_dollar_ptn1() -> Seq<char>;
pub uninterp spec fn spec_dollar_ptn2() -> Seq<char>;
pub open spec fn spec_should_dollar(t: Seq<char>) -> bool { spec_re(spec_dollar_ptn1(), t) && !spec_re(spec_dollar_ptn2(), t) && nest(t, '(', ')') <= MAX_NESTING as int }
#[verifier::external_body]
pub fn vx_dollar_ptn1() -> (r: &'static str) ensures r@ == spec_dollar_ptn1() { unimplemented!() }
#[verifier::external_body]
pub fn vx_dollar_ptn2() -> (r: &'static str) ensures r@ == spec_dollar_ptn2() { unimplemented!() }
//@FN should_do_dollar_command_extension
#[verifier::external_body]
pub fn find_first_group(ptn: &str, text: &str) -> (r: Option<String>) { unimplemented!() }
pub struct VxRegex { pub id: i32 }
#[verifier::external_body]
pub fn vx_regex_new(ptn: &str) -> (r: Result<VxRegex, i32>) { unimplemented!() }
pub uninterp spec fn spec_dot_match(t: Seq<char>) -> bool;
pub struct VxCap { pub g1: String, pub g2: String, pub g3: String }
// number of $(..) substitutions still to do in a word. ASSUMED: one replace step removes one (false when the inserted output itself
// contains "$(" : the inserted text is scanned again, see the rescanning note in DESIGN)
pub uninterp spec fn spec_subst_count(t: Seq<char>) -> nat;
// the word text before the first `$(` (the unmatched prefix plus group head) and after the last `)` (group tail)
pub uninterp spec fn spec_sub_head(t: Seq<char>) -> Seq<char>;
pub uninterp spec fn spec_sub_tail(t: Seq<char>) -> Seq<char>;
// s with every `$` doubled (str::replace('$', "$$"))
pub uninterp spec fn tmpl_escape(s: Seq<char>) -> Seq<char>;
#[verifier::external_body]
pub fn vx_escape_dollar(s: &str) -> (r: String) ensures r@ == tmpl_escape(s@) { s.replace('$', "$$") }
impl VxRegex {
    // Regex::replace with a replacement TEMPLATE. ASSUMED (regex crate; validated on a bounded set by axcheck): with the pattern
    // (?P<head>[^$]*)\$\(.+\)(?P<tail>.*) and the template "${head}" + X + "${tail}", where X is some text o with every `$` doubled,
    // the result is head(text) + o + tail(text): `$$` is the template's spelling of a literal `$`, nothing else in o is special.
    #[verifier::external_body]
    pub fn replace(&self, text: &str, to: &str) -> (r: String)
        ensures spec_should_dollar(text@) ==> spec_subst_count(r@) < spec_subst_count(text@),
            forall|o: Seq<char>| to@ == "${head}"@ + #[trigger] tmpl_escape(o) + "${tail}"@ ==> r@ == spec_sub_head(text@) + o + spec_sub_tail(text@),
    { unimplemented!() }
    #[verifier::external_body]
    pub fn is_match(&self, t: &str) -> (r: bool) ensures r == spec_dot_match(t@) { unimplemented!() }
    // anchored pattern: at most one match; group 3 (the rest) is a proper suffix of the text (the `..` part is consumed)
    #[verifier::external_body]
    pub fn captures_iter(&self, t: &str) -> (r: Vec<VxCap>)
        ensures r@.len() <= 1, spec_dot_match(t@) ==> r@.len() == 1, forall|i: int| 0 <= i < r@.len() ==> (#[trigger] r@[i]).g3@.len() < t@.len()
    { unimplemented!() }
}
#[verifier::external_body]
pub fn vx_clone_cap(c: &VxCap) -> (r: VxCap) ensures r.g1@ == c.g1@, r.g2@ == c.g2@, r.g3@ == c.g3@ { unimplemented!() }

// ghost: how many inner commands were planned and run
// op_words: the unquoted words (other than the untagged NAME=value words the line starts with, which are taken off it before operators are looked for)
// into which an inner command's output brought an operator character (C13)
pub ghost struct SubLog { pub planned: int, pub ran: int, pub op_words: Set<int>, pub order: Seq<int> }
impl CommandLine {
    #[verifier::external_body]
    pub fn from_line(line: &str, sh: &mut Shell, Tracked(lg): Tracked<&mut SubLog>) -> (r: Result<CommandLine, String>)
        ensures final(lg).planned == old(lg).planned + 1, final(lg).ran == old(lg).ran, final(lg).op_words == old(lg).op_words, final(lg).order == old(lg).order
    { unimplemented!() }
}
// ghost bookkeeping only: record that word k received an operator character from an output
#[verifier::external_body]
pub proof fn note_op_word(tracked lg: &mut SubLog, k: int)
    ensures final(lg).op_words == old(lg).op_words.insert(k), final(lg).planned == old(lg).planned, final(lg).ran == old(lg).ran, final(lg).order == old(lg).order
{ unimplemented!() }
// ghost bookkeeping only: pass `id` (0 = backquote pass, 1 = $(..) pass) starts
#[verifier::external_body]
pub proof fn note_pass(tracked lg: &mut SubLog, id: int)
    ensures final(lg).order == old(lg).order.push(id), final(lg).planned == old(lg).planned, final(lg).ran == old(lg).ran, final(lg).op_words == old(lg).op_words
{ unimplemented!() }
#[verifier::external_body]
pub fn run_pipeline(sh: &mut Shell, cl: &CommandLine, tty: bool, capture: bool, log_cmd: bool, Tracked(lg): Tracked<&mut SubLog>) -> (r: (bool, CommandResult))
    ensures final(lg).ran == old(lg).ran + 1, final(lg).planned == old(lg).planned, final(lg).op_words == old(lg).op_words, final(lg).order == old(lg).order
{ unimplemented!() }
#[verifier::external_body]
pub fn vx_take_terminal_back() { unimplemented!() }

// ---- split_first_substitution: the first `$(` of a text and its matching `)` ----
pub open spec fn opens_at(t: Seq<char>, k: int) -> bool { 0 <= k && k + 1 < t.len() && t[k] == '$' && t[k + 1] == '(' }
// nesting depth after reading c[0..n), starting from 1 (just inside the `$(`)
pub open spec fn depth_after(c: Seq<char>, n: int) -> int
    decreases n
{
    if n <= 0 { 1 } else { depth_after(c, n - 1) + (if c[n - 1] == '(' { 1int } else if c[n - 1] == ')' { -1int } else { 0int }) }
}
pub open spec fn after_open(t: Seq<char>, i: int) -> Seq<char> { t.subrange(i + 2, t.len() as int) }
// the `$(` at k is never closed: the nesting depth behind it stays at 1 or above to the end of the text
pub open spec fn never_closed(t: Seq<char>, k: int) -> bool { forall|n: int| 0 <= n <= t.len() - (k + 2) ==> #[trigger] depth_after(after_open(t, k), n) >= 1 }
pub proof fn lemma_depth_prefix(a: Seq<char>, b: Seq<char>, n: int)
    requires 0 <= n <= a.len(), n <= b.len(), forall|k: int| 0 <= k < n ==> a[k] == b[k],
    ensures depth_after(a, n) == depth_after(b, n),
    decreases n
{
    if n > 0 { lemma_depth_prefix(a, b, n - 1); }
}
#[verifier::external_body]
pub fn vx_chars_b(a: &str) -> (r: Vec<char>) ensures r@ == a@, r@.len() < usize::MAX as int { a.chars().collect() }
#[verifier::external_body]
pub fn vx_collect(v: &Vec<char>, a: usize, b: usize) -> (r: String)
    requires a <= b <= v@.len()
    ensures r@ == v@.subrange(a as int, b as int)
{ v[a..b].iter().collect() }
//@FN split_first_substitution
//@FN do_command_substitution_for_dollar
//@FN do_command_substitution_for_dot
//@FN do_command_substitution
''' + common.TAIL

S = 'src/shell.rs'
COMMON_RW = [
    Rw(r"(\w+)\.stdout\.trim_end_matches\('\\n'\)", r'vx_strip_nl(&\1.stdout)', regex=True, required=False, rule='R12',
       why="str::trim_end_matches('\\n') through a shim with that contract: the longest prefix that does not end in a newline"),
    Rw(r'eprint!\("\{\}", (\w+)\.stderr\);', r'vx_eprint(&\1.stderr);', regex=True, required=False, rule='R3', why='the inner command\'s stderr text written to the shell\'s stderr'),
    Rw('eprintln!();', 'vx_eprint_nl();', required=False, rule='R3'),
    Rw("output_txt.contains('{')", "vx_contains_char(&output_txt, '{')", required=False, rule='R12'),
    Rw('types::Tokens', 'Tokens', required=False, rule='R0'),
    Rw(r'let mut buff: HashMap<usize, String> = HashMap::new\(\);', 'let mut buff: HashMap<usize, String> = vx_um_new();', regex=True, rule='R12',
       why='HashMap<usize,String> rewrite buffer through shims over an integer-keyed view'),
    Rw(r'buff\.insert\(', 'vx_um_insert(&mut buff, ', regex=True, rule='R12'),
    Rw(r'for \(i, text\) in buff\.iter\(\) \{', 'let __entries = vx_um_entries(&buff); for (i, text) in __entries.iter() {', regex=True, rule='R12',
       why='HashMap iteration through a snapshot shim: every entry once, unspecified order'),
    Rw(r'tokens\[\*i\]\.1 = (.*?);', r'vx_set_token_text(tokens, *i, \1);', regex=True, rule='R12'),
    Rw(r'tokens\[\*i\]\.0 = (.*?);', r'vx_set_token_tag(tokens, *i, \1);', regex=True, rule='R12', required=False,
       why='IndexMut + tuple-field assignment through a shim (frame: only that token tag changes)'),
    Rw('data_words.contains(&idx)', 'vx_vec_contains(&data_words, &idx)', required=False, rule='R12', why='Vec::contains through a shim with its std contract'),
    Rw(r'if term_given \{', 'if term_given { vx_take_terminal_back(); }', regex=True, balanced=True, rule='R8',
       why='unsafe { give_terminal_to(getpgid(0)) } after the inner pipeline (terminal hand-back: see C07)'),
    Rw('core::run_pipeline(', 'run_pipeline(', rule='R0'),
    Rw('libs::re::find_first_group(', 'find_first_group(', required=False, rule='R0'),
]


def frame(cond_old):
    return ('final(tokens)@.len() == old(tokens)@.len() && forall|k: int| 0 <= k < old(tokens)@.len() ==> '
            '((#[trigger] final(tokens)@[k]).0@ == old(tokens)@[k].0@ || (old(tokens)@[k].0@.len() == 0 && final(tokens)@[k].0@ == "\\""@ && (' + cond_old + '))) '
            '&& (!(' + cond_old + ') ==> final(tokens)@[k].1@ == old(tokens)@[k].1@)')


def data_clause():
    """C13: every unquoted word that received an operator character from an output is tagged as double-quoted afterwards"""
    return ('final(tokens)@ == old(tokens)@ || (forall|k: int| #[trigger] final(lg).op_words.contains(k) ==> old(lg).op_words.contains(k) || '
            '(0 <= k < final(tokens)@.len() && final(tokens)@[k].0@ == "\\""@))')


DCOND = 'T.0@ != "\'"@ && T.0@ != "\\\\"@ && T.0@ != "`"@ && (spec_should_dollar(T.1@) || T.1@.contains(\'`\'))'
EXIT_HINT = ('assert forall|k: int| lg.op_words.contains(k) && !old(lg).op_words.contains(k) implies in_words(data_words@, k) by {} '
             'assert forall|k: int| in_words(data_words@, k) implies 0 <= k < tokens@.len() && tokens@[k].0@ == "\\""@ by { '
             'let j = choose|j: int| 0 <= j < data_words@.len() && #[trigger] data_words@[j] as int == k; assert(tokens@[data_words@[j] as int].0@ == "\\""@); } '
             'assert forall|k: int| #[trigger] lg.op_words.contains(k) implies old(lg).op_words.contains(k) || (0 <= k < tokens@.len() && tokens@[k].0@ == "\\""@) by { '
             'if !old(lg).op_words.contains(k) { assert(in_words(data_words@, k)); } }')
OPS = 'forall|k: int| lg.op_words.contains(k) ==> old(lg).op_words.contains(k) || in_words(data_words@, k)'


def words_inv(tok, bound, cond):
    return ('forall|j: int| 0 <= j < data_words@.len() ==> (#[trigger] data_words@[j]) < %s && %s[data_words@[j] as int].0@.len() == 0 && (%s)'
            % (bound, tok, cond.replace('T', '%s[data_words@[j] as int]' % tok)))


def frame_inv(cond):
    c_old = cond.replace('T', 'old(tokens)@[k]')
    return ('tokens@.len() == old(tokens)@.len() && forall|k: int| 0 <= k < tokens@.len() ==> '
            '((#[trigger] tokens@[k]).0@ == old(tokens)@[k].0@ || (old(tokens)@[k].0@.len() == 0 && tokens@[k].0@ == "\\""@ && (' + c_old + '))) '
            '&& (!(' + c_old + ') ==> tokens@[k].1@ == old(tokens)@[k].1@)')


split_first = Fn(S, 'split_first_substitution', ret='r', props=('C11',),
    pre_rewrites=[
        Rw('text.chars().collect()', 'vx_chars_b(text)', rule='R2', why='chars().collect() through the chars shim (a Vec holds fewer than usize::MAX elements)'),
        Rw('chars[..i].iter().collect()', 'vx_collect(&chars, 0, i)', rule='R12', count=0, why='slice of the char vector collected into a String, through a shim'),
        Rw('chars[i + 2..j].iter().collect()', 'vx_collect(&chars, i + 2, j)', rule='R12'),
        Rw('chars[i + 1..j].iter().collect()', 'vx_collect(&chars, i + 1, j)', rule='R12'),
        Rw('chars[j + 1..].iter().collect()', 'vx_collect(&chars, j + 1, chars.len())', rule='R12', count=0),
    ],
    let_types={'i': 'usize', 'j': 'usize'},
    hints={'before-text:let cmd: String = vx_collect(&chars, i + 2, j);':
               # (guarded: when the closing parenthesis was NOT found the slicing below must fail as a safety obligation of its own, not be masked by this hint)
               'if j < chars@.len() { assert forall|n: int| 0 <= n <= j - (i + 2) implies '
               '#[trigger] depth_after(text@.subrange(i + 2, j as int), n) == depth_after(after_open(text@, i as int), n) by '
               '{ lemma_depth_prefix(text@.subrange(i + 2, j as int), after_open(text@, i as int), n); } '
               'assert(text@ =~= text@.subrange(0, i as int) + seq![\'$\', \'(\'] + text@.subrange(i + 2, j as int) + seq![\')\'] + text@.subrange(j + 1, text@.len() as int)); }',
           'before-text:let cmd: String = vx_collect(&chars, i + 1, j);':
               'assert(text@ =~= text@.subrange(0, i as int) + seq![\'`\'] + text@.subrange(i + 1, j as int) + seq![\'`\'] + text@.subrange(j + 1, text@.len() as int));',
           'loop-1-body-entry': 'assert(after_open(text@, i as int)[j - (i + 2)] == text@[j as int]);'},
    ensures=[
        ('C11.split.pieces_are_head_command_tail_of_the_first_substitution',
         'match r { Some(p) => p.2@.len() < text@.len() && (forall|k: int| 0 <= k < p.0@.len() ==> !opens_at(text@, k)) && ('
         # `$(` form: the parentheses inside are balanced and the closing one is the matching one
         '(text@ == p.0@ + seq![\'$\', \'(\'] + p.1@ + seq![\')\'] + p.2@ && depth_after(p.1@, p.1@.len() as int) == 1 '
         ' && (forall|n: int| 0 <= n <= p.1@.len() ==> depth_after(p.1@, n) >= 1)) '
         # backquote form: a non-empty command without a backquote in it
         '|| (text@ == p.0@ + seq![\'`\'] + p.1@ + seq![\'`\'] + p.2@ && p.1@.len() > 0 && !p.1@.contains(\'`\'))), None => true }'),
        # "no substitution" is answered only when the text has no `$(` at all, or its first `$(` is never closed -- in particular a backquote
        # without a partner in front of a `$(..)` does not hide it
        ('C11.split.none_only_without_an_opening_or_with_an_unclosed_first_one',
         'r.is_none() ==> forall|k: int| #[trigger] opens_at(text@, k) && (forall|q: int| 0 <= q < k ==> !opens_at(text@, q)) ==> never_closed(text@, k)'),
    ],
    loops={
        0: Loop(invariant=[('C11.inv.split.no_opening_before', 'chars@ == text@ && chars@.len() < usize::MAX as int && i <= chars@.len() && forall|k: int| 0 <= k < i ==> !opens_at(text@, k)')],
                decreases='chars@.len() - i'),
        1: Loop(invariant=[
            ('C11.inv.split.scan', 'chars@ == text@ && chars@.len() < usize::MAX as int && i + 2 <= j <= chars@.len() && opens_at(text@, i as int) '
                                   '&& (forall|n: int| 0 <= n <= j - (i + 2) ==> #[trigger] depth_after(after_open(text@, i as int), n) >= 1) '
                                   '&& (forall|k: int| 0 <= k < i ==> !opens_at(text@, k))'),
        ], invariant_except_break=[
            ('C11.inv.split.depth', 'depth as int == depth_after(after_open(text@, i as int), j - (i + 2)) && 1 <= depth <= j - i'),
        ], ensures=[('C11.inv.split.found', 'j < chars@.len() ==> text@[j as int] == \')\' && depth_after(after_open(text@, i as int), j - (i + 2)) == 1')],
           decreases='chars@.len() - j'),
        2: Loop(invariant=[
            ('C11.inv.split.backquote_scan', 'chars@ == text@ && chars@.len() < usize::MAX as int && i + 1 <= j <= chars@.len() && text@[i as int] == \'`\' '
                                             '&& (forall|q: int| i < q < j ==> text@[q] != \'`\') && (forall|k: int| 0 <= k < i ==> !opens_at(text@, k))'),
        ], decreases='chars@.len() - j'),
    },
)

dollar = Fn(S, 'do_command_substitution_for_dollar', props=('C11',),
    pre_rewrites=COMMON_RW,
    add_params='Tracked(lg): Tracked<&mut SubLog>',
    ghost_args={'from_line': 'Tracked(lg)', 'run_pipeline': 'Tracked(lg)'},
    hints={'fn-entry': 'note_pass(lg, 1);',
           # ghost record, taken from the data flow (not from the code's own flag): this word received an operator character from an output
           'after-call:vx_strip_nl': 'if (has_op(strip_nl(cmd_result.stdout@)) || strip_nl(cmd_result.stdout@).contains(\'{\')) && sep@.len() == 0 && !assign_prefix(tokens@, idx as int) { note_op_word(lg, idx as int); }',
           'before-text:line.push_str(&head);': 'RAW: let ghost __line0 = line@;',
           # THE STEP: the text in front of the substitution and the output are appended literally; only the tail is scanned again
           'after-text:rest = tail;':
           'LABEL:C11.dollar.step_appends_head_and_output_literally_and_continues_with_the_tail_only: '
           'assert(line@ == __line0 + head@ + strip_nl(cmd_result.stdout@) && rest@ == tail@);',
           'before-text:data_words.push(idx);': 'lemma_in_words_push(data_words@, idx);',
           'loop-3-body-entry': 'lemma_quote_lit();',
           'loop-3-exit': EXIT_HINT},
    ensures=[
        ('C11+C13+C01.dollar.only_unquoted_words_with_a_substitution_change', frame(DCOND.replace('T', 'old(tokens)@[k]'))),
        ('C11.dollar.inner_command_run_once_per_planning', 'final(lg).ran - old(lg).ran <= final(lg).planned - old(lg).planned'),
        ('C11+C13.dollar.operator_characters_of_an_output_are_data', data_clause()),
        ('C11.dollar.pass_id', 'final(lg).order == old(lg).order.push(1)'),
    ],
    loops={
        0: Loop(invariant=[
            ('C11.inv.dollar.idx', 'idx == __I && tokens@ == old(tokens)@ && lg.ran - old(lg).ran <= lg.planned - old(lg).planned && lg.order == old(lg).order.push(1)'),
            ('C11+C13.inv.dollar.buff', 'forall|kk: int| umap(buff).contains_key(kk) ==> 0 <= kk < __I && ' + DCOND.replace('T', 'tokens@[kk]')),
            ('C11+C13.inv.dollar.words', words_inv('tokens@', '__I', DCOND)),
            ('C11+C13.inv.dollar.ops', OPS),
        ]),
        # the scan of one word terminates: what is left to scan gets shorter with every substitution
        1: Loop(invariant=[
            ('C11.inv.dollar.once', 'lg.ran - old(lg).ran <= lg.planned - old(lg).planned && lg.order == old(lg).order.push(1)'),
            ('C11+C13.inv.dollar.ops_inner', 'forall|k: int| lg.op_words.contains(k) ==> old(lg).op_words.contains(k) || in_words(data_words@, k) || (k == idx as int && got_operator && sep@.len() == 0 && !assign_prefix(tokens@, idx as int))'),
        ], decreases='rest@.len()'),
        2: Loop(invariant=[
            ('C11+C13.inv.dollar.frame', 'tokens@.len() == old(tokens)@.len() && forall|k: int| 0 <= k < tokens@.len() ==> (#[trigger] tokens@[k]).0@ == old(tokens)@[k].0@ '
                                         '&& (!(' + DCOND.replace('T', 'old(tokens)@[k]') + ') ==> tokens@[k].1@ == old(tokens)@[k].1@)'),
            ('C11+C13.inv.dollar.entries', 'forall|i: int| 0 <= i < __entries@.len() ==> (#[trigger] __entries@[i]).0 < tokens@.len() && ' + DCOND.replace('T', 'old(tokens)@[__entries@[i].0 as int]')),
            ('C11.inv.dollar.once2', 'lg.ran - old(lg).ran <= lg.planned - old(lg).planned && lg.order == old(lg).order.push(1)'),
            ('C11+C13.inv.dollar.words2', words_inv('old(tokens)@', 'tokens@.len()', DCOND)),
            ('C11+C13.inv.dollar.ops2', OPS),
        ]),
        3: Loop(invariant=[
            ('C11+C13.inv.dollar.frame3', frame_inv(DCOND)),
            ('C11+C13.inv.dollar.tagged', 'forall|j: int| 0 <= j < __I ==> tokens@[(#[trigger] data_words@[j]) as int].0@ == "\\""@'),
            ('C11+C13.inv.dollar.words3', words_inv('old(tokens)@', 'tokens@.len()', DCOND)),
            ('C11+C13.inv.dollar.ops3', '(' + OPS + ') && lg.ran - old(lg).ran <= lg.planned - old(lg).planned && lg.order == old(lg).order.push(1)'),
        ]),
    },
)

DCOND2 = 'T.0@ == "`"@'
dot = Fn(S, 'do_command_substitution_for_dot', props=('C11',),
    pre_rewrites=COMMON_RW,
    add_params='Tracked(lg): Tracked<&mut SubLog>',
    ghost_args={'from_line': 'Tracked(lg)', 'run_pipeline': 'Tracked(lg)'},
    hints={'fn-entry': 'note_pass(lg, 0); ;;; RAW: let ghost mut g_out: Seq<char> = Seq::empty();',
           'before-text:if !cr.stderr.is_empty() {': 'g_out = cr.stdout@;',
           # the word becomes what the command wrote, without its trailing newlines and with nothing else removed
           'before-call:vx_um_insert': 'LABEL:C11.dot.the_word_becomes_the_output_without_its_trailing_newlines: assert(new_token@ == strip_nl(g_out));'},
    ensures=[
        # only whole words written between backquotes are rewritten here; their tag (the backquote) stays, so no later pass reads them as syntax
        ('C11+C13+C01.dot.only_backquoted_words_change', frame(DCOND2.replace('T', 'old(tokens)@[k]'))),
        ('C11+C13.dot.inner_command_run_once_per_planning', 'final(lg).ran - old(lg).ran <= final(lg).planned - old(lg).planned'),
        ('C13.dot.no_word_recorded', 'final(lg).op_words == old(lg).op_words'),
        ('C11+C13.dot.pass_id', 'final(lg).order == old(lg).order.push(0)'),
    ],
    loops={
        0: Loop(invariant=[
            ('C11+C13.inv.dot.idx', 'idx == __I && tokens@ == old(tokens)@ && lg.ran - old(lg).ran <= lg.planned - old(lg).planned && lg.order == old(lg).order.push(0) && lg.op_words == old(lg).op_words'),
            ('C11+C13.inv.dot.buff', 'forall|kk: int| umap(buff).contains_key(kk) ==> 0 <= kk < __I && (' + DCOND2.replace('T', 'tokens@[kk]') + ')'),
        ]),
        1: Loop(invariant=[
            ('C11+C13.inv.dot.frame', 'tokens@.len() == old(tokens)@.len() && forall|k: int| 0 <= k < tokens@.len() ==> (#[trigger] tokens@[k]).0@ == old(tokens)@[k].0@ '
                                      '&& (!(' + DCOND2.replace('T', 'old(tokens)@[k]') + ') ==> tokens@[k].1@ == old(tokens)@[k].1@)'),
            ('C11+C13.inv.dot.entries', 'forall|i: int| 0 <= i < __entries@.len() ==> (#[trigger] __entries@[i]).0 < tokens@.len() && (' + DCOND2.replace('T', 'old(tokens)@[__entries@[i].0 as int]') + ')'),
            ('C11+C13.inv.dot.once3', 'lg.ran - old(lg).ran <= lg.planned - old(lg).planned && lg.order == old(lg).order.push(0) && lg.op_words == old(lg).op_words'),
        ]),
    },
)

# the $(..) pass runs LAST: what it inserts is not looked at by the backquote pass any more (an output containing backquotes stays literal)
both = Fn(S, 'do_command_substitution', add_params='Tracked(lg): Tracked<&mut SubLog>',
    pre_rewrites=[Rw('types::Tokens', 'Tokens', required=False, rule='R0')],
    ghost_args={'do_command_substitution_for_dot': 'Tracked(lg)', 'do_command_substitution_for_dollar': 'Tracked(lg)'},
    ensures=[('C11.subst.backquote_pass_first_then_the_dollar_pass', 'final(lg).order == old(lg).order.push(0).push(1)')])

should_dollar = Fn('src/shell.rs', 'should_do_dollar_command_extension', ret='r', props=('C11', 'C05'),
    pre_rewrites=[Rw(r'libs::re::re_contains(line, r"\$\([^\)]+\)")', 're_contains(line, vx_dollar_ptn1())', rule='R6', why='the pattern literal through an opaque constant (axiom ref_gates validates the literal itself)'),
                  Rw(r"""libs::re::re_contains(line, r"='.*\$\([^\)]+\).*'$")""", 're_contains(line, vx_dollar_ptn2())', rule='R6', why='the pattern literal through an opaque constant'),
                  Rw('tools::nesting_depth(', 'nesting_depth(', rule='R0'), Rw('tools::MAX_NESTING', 'MAX_NESTING', rule='R0')],
    ensures=[('C11.gate.dollar.a_substitution_is_written_and_the_word_is_within_the_nesting_limit', 'r == spec_should_dollar(line@)'),
             ('C05.gate.dollar.the_pass_that_runs_a_shell_per_level_is_given_only_words_within_the_nesting_limit', "r ==> nest(line@, '(', ')') <= MAX_NESTING as int")])
UNIT = Unit('U-EXP3', TEMPLATE, fns=[common.has_operator_fn(), common.in_assignment_prefix_fn(), should_dollar, split_first, dollar, dot, both, Fn('src/types.rs', 'new', impl='CommandResult')],
            types=[TypeItem('src/types.rs', 'struct', 'Command'), TypeItem('src/types.rs', 'struct', 'CommandLine'), TypeItem('src/types.rs', 'struct', 'CommandResult'), TypeItem('src/tools.rs', 'const', 'MAX_NESTING')],
            props=('C11', 'C13', 'C01', 'C05'))
TRUSTED = common.TRUSTED_STR + common.TRUSTED_TOKEN + [
    'the machine stack is treated as unbounded: termination (decreases) is proved for the recursive brace parser, the substitution pass and the callers of the calculator, their recursion DEPTH is not; it is bounded by tools::MAX_NESTING (<= 200 required; 1000 levels were measured to fit the 8 MB main stack of a debug build) through the gates need_expand_brace / should_do_dollar_command_extension / run_calculator, which are under contract',
    'the substitution passes no longer use regexes to locate a substitution: split_first_substitution (both spellings) is verified (first `$(` with its matching `)`, or a pair of '
    'backquotes; pieces concatenate to the text; tail shorter); the gate should_do_dollar_command_extension is under contract (its two pattern literals stay uninterpreted; the word must be within the nesting limit)',
    'that the text appended is the command\'s stdout (trimmed) is kernel / std behaviour',
    'CommandLine::from_line and core::run_pipeline are external here (contracts in U-PLAN / U-FD)',
]
