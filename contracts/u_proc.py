"""U-PROC: execute::run_proc: one pipeline of a command list: planning errors give status 1, NAME=v without a command assigns
shell variables (and only then), the terminal is taken back after a foreground job (C07, C09, C03, C05)."""
from vx.gen import Unit, Fn, TypeItem, Loop, Rw
from . import common

TEMPLATE = common.HEAD + common.STR_SHIMS + common.TOKEN_TYPES + r'''
//@TYPE Command
//@TYPE CommandLine
//@TYPE CommandResult
pub struct Shell { pub cmd: String, pub previous_status: i32 }

// ghost: terminal ownership and a record of whether shell variables were assigned
pub ghost struct World {
    pub tty_pgrp: int,      // foreground process group of the terminal
    pub pgrp: int,          // the shell's own process group
    pub assigned: Seq<Map<Seq<char>, Seq<char>>>,   // set_shell_vars calls
    pub pipelines: int,     // run_pipeline calls
    pub planned: int,       // CommandLine::from_line calls: each one runs the command substitutions of the line
}
pub uninterp spec fn smap(m: HashMap<String, String>) -> Map<Seq<char>, Seq<char>>;
#[verifier::external_body]
pub fn vx_hm_is_empty(m: &HashMap<String, String>) -> (r: bool) ensures r == (smap(*m).dom() =~= Set::<Seq<char>>::empty()) { m.is_empty() }

impl CommandLine {
    // contract proved in U-PLAN (commands have at least one word)
    #[verifier::external_body]
    pub fn from_line(line: &str, sh: &mut Shell, Tracked(w): Tracked<&mut World>) -> (r: Result<CommandLine, String>)
        ensures final(w).planned == old(w).planned + 1, final(w).tty_pgrp == old(w).tty_pgrp, final(w).pgrp == old(w).pgrp, final(w).assigned == old(w).assigned, final(w).pipelines == old(w).pipelines,
            match r { Ok(cl) => forall|i: int| 0 <= i < cl.commands@.len() ==> (#[trigger] cl.commands@[i]).tokens@.len() > 0, Err(_) => true }
    { unimplemented!() }
    #[verifier::external_body]
    pub fn is_empty(&self) -> (r: bool) ensures r == (self.commands@.len() == 0) { unimplemented!() }
}
impl CommandResult {
//@FN CommandResult::new
//@FN CommandResult::from_status
}
// contract proved in U-ENV
#[verifier::external_body]
pub fn set_shell_vars(sh: &mut Shell, envs: &HashMap<String, String>, Tracked(w): Tracked<&mut World>)
    ensures final(w).assigned == old(w).assigned.push(smap(*envs)), final(w).tty_pgrp == old(w).tty_pgrp, final(w).pgrp == old(w).pgrp, final(w).pipelines == old(w).pipelines, final(w).planned == old(w).planned
{ unimplemented!() }
// contract proved in U-FD: the terminal is given away only if that is reported to the caller
#[verifier::external_body]
pub fn run_pipeline(sh: &mut Shell, cl: &CommandLine, tty: bool, capture: bool, log_cmd: bool, Tracked(w): Tracked<&mut World>) -> (r: (bool, CommandResult))
    requires forall|i: int| 0 <= i < cl.commands@.len() ==> (#[trigger] cl.commands@[i]).tokens@.len() > 0
    ensures final(w).tty_pgrp != old(w).tty_pgrp ==> r.0, final(w).pgrp == old(w).pgrp, final(w).assigned == old(w).assigned, final(w).pipelines == old(w).pipelines + 1, final(w).planned == old(w).planned
{ unimplemented!() }
#[verifier::external_body]
pub fn vx_getpgid0(Tracked(w): Tracked<&World>) -> (r: i32) ensures r as int == w.pgrp { unimplemented!() }
// tcsetpgrp with SIGTTOU blocked: assumed to succeed when the shell names its own group
#[verifier::external_body]
pub fn give_terminal_to(gid: i32, Tracked(w): Tracked<&mut World>) -> (r: bool)
    ensures final(w).tty_pgrp == (if r { gid as int } else { old(w).tty_pgrp }), gid as int == old(w).pgrp ==> r,
        final(w).pgrp == old(w).pgrp, final(w).assigned == old(w).assigned, final(w).pipelines == old(w).pipelines, final(w).planned == old(w).planned
{ unimplemented!() }

//@FN run_proc
//@FN run_with_shell
''' + common.TAIL

run_proc = Fn('src/execute.rs', 'run_proc', ret='r',
    pre_rewrites=[
        Rw('core::run_pipeline(', 'run_pipeline(', rule='R0'),
        Rw('let gid = libc::getpgid(0);', 'let gid = vx_getpgid0(Tracked(w));', rule='R8'),
        Rw('shell::give_terminal_to(gid);', 'give_terminal_to(gid, Tracked(w));', rule='R8'),
        Rw(r'\bunsafe\s*\{', '{', regex=True, rule='R14'),
        Rw('cl.envs.is_empty()', 'vx_hm_is_empty(&cl.envs)', rule='R12'),
    ],
    add_params='Tracked(w): Tracked<&mut World>',
    ghost_args={'run_pipeline': 'Tracked(w)', 'set_shell_vars': 'Tracked(w)', 'from_line': 'Tracked(w)'},
    requires=[('C07.pre.shell_owns_terminal', 'old(w).tty_pgrp == old(w).pgrp')],
    ensures=[
        ('C11.run_proc.the_line_is_planned_once_so_its_substitutions_run_once', 'final(w).planned == old(w).planned + 1'),
        ('C07.run_proc.terminal_is_the_shells_again', 'final(w).tty_pgrp == final(w).pgrp && final(w).pgrp == old(w).pgrp'),
        ('C09.run_proc.assignment_only_without_command',
         '(final(w).assigned.len() > old(w).assigned.len() ==> final(w).pipelines == old(w).pipelines) '
         '&& final(w).assigned.len() <= old(w).assigned.len() + 1 && final(w).pipelines <= old(w).pipelines + 1'),
    ],
)

run_with_shell = Fn('src/execute.rs', 'run_with_shell', ret='r', props=('C11', 'C09', 'C07'),
    pre_rewrites=[
        Rw('core::run_pipeline(', 'run_pipeline(', rule='R0'),
        Rw('let gid = libc::getpgid(0);', 'let gid = vx_getpgid0(Tracked(w));', rule='R8'),
        Rw('shell::give_terminal_to(gid);', 'give_terminal_to(gid, Tracked(w));', rule='R8'),
        Rw(r'\bunsafe\s*\{', '{', regex=True, rule='R14'),
    ],
    add_params='Tracked(w): Tracked<&mut World>',
    ghost_args={'run_pipeline': 'Tracked(w)', 'set_shell_vars': 'Tracked(w)', 'from_line': 'Tracked(w)'},
    requires=[('C07.pre.run_with_shell.shell_owns_terminal', 'old(w).tty_pgrp == old(w).pgrp')],
    ensures=[
        # (repair 274970d) the library entry point (cicada::run, the commands of a prompt template) plans the line once
        ('C11.run_with_shell.the_line_is_planned_once_so_its_substitutions_run_once', 'final(w).planned == old(w).planned + 1'),
        ('C07.run_with_shell.terminal_is_the_shells_again', 'final(w).tty_pgrp == final(w).pgrp && final(w).pgrp == old(w).pgrp'),
        ('C09.run_with_shell.assignment_only_without_command',
         '(final(w).assigned.len() > old(w).assigned.len() ==> final(w).pipelines == old(w).pipelines) '
         '&& final(w).assigned.len() <= old(w).assigned.len() + 1 && final(w).pipelines <= old(w).pipelines + 1'),
    ],
)
UNIT = Unit('U-PROC', TEMPLATE, fns=[run_proc, run_with_shell, Fn('src/types.rs', 'new', impl='CommandResult'), Fn('src/types.rs', 'from_status', impl='CommandResult')],
            types=[TypeItem('src/types.rs', 'struct', 'Command'), TypeItem('src/types.rs', 'struct', 'CommandLine'), TypeItem('src/types.rs', 'struct', 'CommandResult')],
            props=('C07', 'C09', 'C11', 'C05'))
TRUSTED = common.TRUSTED_STR + [
    'CommandLine::from_line, core::run_pipeline, set_shell_vars are external here with (the relevant part of) the contracts proved in U-PLAN / U-FD / U-ENV',
    'tcsetpgrp (give_terminal_to) succeeds when the shell names its own process group (SIGTTOU is blocked around the call): assumed',
    'what Ctrl-C / Ctrl-Z do, job resumption by bg/fg and the kernel tty layer are outside any single-call contract: not covered',
]
