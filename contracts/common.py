"""Shared Verus vocabulary: shims with assumed std contracts (each listed in the trusted base)."""

HEAD = r'''
#![allow(unused_imports, unused_variables, unused_mut, unused_assignments, dead_code, unused_parens, unreachable_code, non_snake_case)]
use vstd::prelude::*;
use std::collections::{HashMap, HashSet};
verus! {
'''

TAIL = r'''
} // verus!
fn main() {}
'''

# ---- string shims. Assumed: str equality is equality of the char sequences; to_string/clone/concat
# produce the obvious sequences; chars() yields the scalar values in order.
STR_SHIMS = r'''
#[verifier::external_body]
pub fn vx_streq(a: &str, b: &str) -> (r: bool)
    ensures r == (a@ == b@)
{ a == b }

#[verifier::external_body]
pub fn vx_s(a: &str) -> (r: String)
    ensures r@ == a@
{ a.to_string() }

#[verifier::external_body]
pub fn vx_char_to_string(c: char) -> (r: String)
    ensures r@ == seq![c]
{ c.to_string() }

#[verifier::external_body]
pub fn vx_chars(a: &str) -> (r: Vec<char>)
    ensures r@ == a@
{ a.chars().collect() }

#[verifier::external_body]
pub fn vx_chars_count(a: &str) -> (r: usize)
    ensures r == a@.len()
{ a.chars().count() }

#[verifier::external_body]
pub fn vx_chars_nth(a: &str, n: usize) -> (r: Option<char>)
    ensures r == (if n < a@.len() { Some(a@[n as int]) } else { None::<char> })
{ a.chars().nth(n) }

#[verifier::external_body]
pub fn vx_chars_next(a: &str) -> (r: Option<char>)
    ensures r == (if 0 < a@.len() { Some(a@[0]) } else { None::<char> })
{ a.chars().next() }

#[verifier::external_body]
pub fn vx_concat1(a: &str) -> (r: String) ensures r@ == a@ { a.to_string() }
#[verifier::external_body]
pub fn vx_concat2(a: &str, b: &str) -> (r: String) ensures r@ == a@ + b@ { format!("{}{}", a, b) }
#[verifier::external_body]
pub fn vx_concat3(a: &str, b: &str, c: &str) -> (r: String) ensures r@ == a@ + b@ + c@ { format!("{}{}{}", a, b, c) }
#[verifier::external_body]
pub fn vx_concat4(a: &str, b: &str, c: &str, d: &str) -> (r: String) ensures r@ == a@ + b@ + c@ + d@ { format!("{}{}{}{}", a, b, c, d) }
#[verifier::external_body]
pub fn vx_concat5(a: &str, b: &str, c: &str, d: &str, e: &str) -> (r: String) ensures r@ == a@ + b@ + c@ + d@ + e@ { format!("{}{}{}{}{}", a, b, c, d, e) }

pub uninterp spec fn spec_trim(s: Seq<char>) -> Seq<char>;
pub uninterp spec fn spec_trim_end(s: Seq<char>) -> Seq<char>;
#[verifier::external_body]
pub fn vx_trim(a: &str) -> (r: &str) ensures r@ == spec_trim(a@) { a.trim() }
#[verifier::external_body]
pub fn vx_trim_end(a: &str) -> (r: &str) ensures r@ == spec_trim_end(a@) { a.trim_end() }
pub uninterp spec fn spec_trim_start(s: Seq<char>) -> Seq<char>;
#[verifier::external_body]
pub fn vx_trim_start(a: &str) -> (r: &str) ensures r@ == spec_trim_start(a@) { a.trim_start() }
#[verifier::external_body]
pub fn vx_starts_with_char(a: &str, c: char) -> (r: bool) ensures r == (a@.len() > 0 && a@[0] == c) { a.starts_with(c) }
#[verifier::external_body]
pub fn vx_ends_with_char(a: &str, c: char) -> (r: bool) ensures r == (a@.len() > 0 && a@.last() == c) { a.ends_with(c) }
#[verifier::external_body]
pub fn vx_contains_char(a: &str, c: char) -> (r: bool) ensures r == a@.contains(c) { a.contains(c) }
#[verifier::external_body]
pub fn vx_starts_with_str(a: &str, b: &str) -> (r: bool) ensures r == (b@.len() <= a@.len() && a@.subrange(0, b@.len() as int) == b@) { a.starts_with(b) }
#[verifier::external_body]
pub fn vx_ends_with_str(a: &str, b: &str) -> (r: bool) ensures r == (b@.len() <= a@.len() && a@.subrange(a@.len() - b@.len(), a@.len() as int) == b@) { a.ends_with(b) }
pub uninterp spec fn spec_contains_str(a: Seq<char>, b: Seq<char>) -> bool;
#[verifier::external_body]
pub fn vx_contains_str(a: &str, b: &str) -> (r: bool) ensures r == spec_contains_str(a@, b@) { a.contains(b) }

#[verifier::external_body]
pub fn vx_opaque_string() -> (r: String) { unimplemented!() }
'''

TOKEN_TYPES = r'''
pub type Token = (String, String);
pub type Tokens = Vec<Token>;
pub type Redirection = (String, String, String);

pub open spec fn tok_view(t: Token) -> (Seq<char>, Seq<char>) { (t.0@, t.1@) }
pub open spec fn toks_view(v: Seq<Token>) -> Seq<(Seq<char>, Seq<char>)> { v.map_values(|t: Token| tok_view(t)) }

#[verifier::external_body]
pub fn vx_clone_token(t: &Token) -> (r: Token)
    ensures r.0@ == t.0@, r.1@ == t.1@
{ t.clone() }

#[verifier::external_body]
pub fn vx_clone_tokens(t: &Tokens) -> (r: Tokens)
    ensures toks_view(r@) == toks_view(t@), r@.len() == t@.len(),
        forall|j: int| 0 <= j < t@.len() ==> (#[trigger] r@[j]).0@ == t@[j].0@ && r@[j].1@ == t@[j].1@,
{ t.clone() }
'''

TRUSTED_STR = [
    'vx_streq: str/String equality is equality of the char sequences (std PartialEq for str)',
    'vx_s / vx_char_to_string / vx_concatN: to_string, String::from, char::to_string and format!("{}{}") concatenation produce the obvious char sequences (std Display for str/String/char)',
    'vx_chars*: str::chars() yields the scalar values in order (count/nth/next accordingly)',
    'vx_trim/starts_with/ends_with/contains shims: std str methods with the obvious contracts (trim and substring search left uninterpreted)',
    'vx_opaque_string: result of a format! that is not a pure concatenation is left uninterpreted (can only weaken what is provable)',
]
TRUSTED_TOKEN = [
    'vx_clone_token(s): derived Clone on (String,String) and Vec of them is structural',
]


# shell::has_operator_char, shared by the expansion units: extracted and verified in each of them against this spec
HAS_OP = r"""
pub open spec fn has_op(s: Seq<char>) -> bool { s.contains('|') || s.contains('&') || s.contains('<') || s.contains('>') }
//@FN has_operator_char
"""


# shell::in_assignment_prefix, shared by U-EXP2 / U-EXP3: which NAME=value words are exempt from data tagging (C13): only the untagged
# ones the line starts with, i.e. exactly the words that are taken off the line as assignments before operators are looked for
ASSIGN_PREFIX = r"""
pub uninterp spec fn spec_is_assign(t: Seq<char>) -> bool;
#[verifier::external_body]
pub fn is_assignment_word(text: &str) -> (r: bool) ensures r == spec_is_assign(text@) { unimplemented!() }
pub open spec fn assign_prefix(toks: Seq<Token>, k: int) -> bool {
    forall|j: int| 0 <= j <= k && j < toks.len() ==> (#[trigger] toks[j]).0@.len() == 0 && spec_is_assign(toks[j].1@)
}
//@FN in_assignment_prefix
"""


def in_assignment_prefix_fn():
    from vx.gen import Fn, Loop, Rw
    return Fn('src/shell.rs', 'in_assignment_prefix', ret='r', props=('C13',),
              rewrites=[Rw('types::Tokens', 'Tokens', required=False, rule='R0')],
              let_types={'i': 'usize'},
              ensures=[('C13.assignment_prefix.only_the_untagged_assignments_a_line_starts_with', 'r == assign_prefix(tokens@, idx as int)')],
              loops={0: Loop(invariant=[('C13.inv.assignment_prefix.so_far', 'i <= tokens@.len() && i <= idx + 1 && assign_prefix(tokens@, i as int - 1)')],
                             decreases='tokens@.len() - i')})


def has_operator_fn():
    from vx.gen import Fn
    return Fn('src/shell.rs', 'has_operator_char', ret='r', props=('C13',),
              ensures=[('C13.has_operator_char.is_the_operator_test', 'r == has_op(text@)')])


# ---- tools::nesting_depth (repair a105e61): the specification, and the function as an external twin with the contract proved in U-CALC ----
NESTING_SPEC = r"""
// the running depth of open .. close pairs after the first n characters, and the deepest it has been (an open that is never closed counts)
pub open spec fn depth_at(t: Seq<char>, open: char, close: char, n: int) -> int
    decreases n
{
    if n <= 0 { 0 } else {
        let d = depth_at(t, open, close, n - 1);
        if t[n - 1] == open { d + 1 } else if t[n - 1] == close && d > 0 { d - 1 } else { d }
    }
}
pub open spec fn deepest_at(t: Seq<char>, open: char, close: char, n: int) -> int
    decreases n
{
    if n <= 0 { 0 } else {
        let m = deepest_at(t, open, close, n - 1);
        let d = depth_at(t, open, close, n);
        if d > m { d } else { m }
    }
}
pub open spec fn nest(t: Seq<char>, open: char, close: char) -> int { deepest_at(t, open, close, t.len() as int) }
"""
NESTING_TWIN = r"""
// tools::nesting_depth: external here, with exactly the contract proved in U-CALC
#[verifier::external_body]
pub fn nesting_depth(text: &str, open: char, close: char) -> (r: usize) ensures r as int == nest(text@, open, close) { unimplemented!() }
// libs::re::re_contains on a pattern literal: an uninterpreted predicate of the text, per literal
pub uninterp spec fn spec_re(ptn: Seq<char>, t: Seq<char>) -> bool;
#[verifier::external_body]
pub fn re_contains(text: &str, ptn: &str) -> (r: bool) ensures r == spec_re(ptn@, text@) { unimplemented!() }
"""
