"""U-OPEN: the two helpers that open the files of a redirection (tools.rs): `>` / `>>` targets are opened for writing, created when missing, truncated
unless they are appended to (then in append mode, so every write goes to the end of the file as it is at that moment); `<` targets are opened for
reading only. Both go through the standard library, which opens close-on-exec (C04, C08)."""
from vx.gen import Unit, Fn, TypeItem, Loop, Rw
from . import common

TEMPLATE = common.HEAD + common.STR_SHIMS + r'''
// ---- std::fs::OpenOptions / File::open, reduced to the flags they are given; every open through them is close-on-exec (std adds O_CLOEXEC) ----
pub struct Flags { pub read: bool, pub write: bool, pub append: bool, pub truncate: bool, pub create: bool }
pub ghost struct OpenLog { pub opened: Seq<(Seq<char>, Flags)>, pub handed_out: Seq<int> }
pub struct VxOpenOptions { pub f: Flags }
pub struct VxFile { pub fd: i32 }
pub struct VxIoErr { pub e: i32 }
impl VxOpenOptions {
    #[verifier::external_body]
    pub fn new() -> (r: VxOpenOptions) ensures r.f == (Flags { read: false, write: false, append: false, truncate: false, create: false }) { unimplemented!() }
    #[verifier::external_body]
    pub fn append(&mut self, v: bool) ensures final(self).f == (Flags { append: v, ..old(self).f }) { unimplemented!() }
    #[verifier::external_body]
    pub fn write(&mut self, v: bool) ensures final(self).f == (Flags { write: v, ..old(self).f }) { unimplemented!() }
    #[verifier::external_body]
    pub fn truncate(&mut self, v: bool) ensures final(self).f == (Flags { truncate: v, ..old(self).f }) { unimplemented!() }
    #[verifier::external_body]
    pub fn read(&mut self, v: bool) ensures final(self).f == (Flags { read: v, ..old(self).f }) { unimplemented!() }
    // create(true).open(name): the last two steps of the builder chain
    #[verifier::external_body]
    pub fn create_and_open(&mut self, v: bool, name: &str, Tracked(ol): Tracked<&mut OpenLog>) -> (r: Result<VxFile, VxIoErr>)
        ensures final(self).f == (Flags { create: v, ..old(self).f }), final(ol).opened == old(ol).opened.push((name@, final(self).f)), final(ol).handed_out == old(ol).handed_out,
            match r { Ok(f) => f.fd >= 0, Err(_) => true }
    { unimplemented!() }
}
// File::open(path): read only
#[verifier::external_body]
pub fn vx_file_open(name: &str, Tracked(ol): Tracked<&mut OpenLog>) -> (r: Result<VxFile, VxIoErr>)
    ensures final(ol).opened == old(ol).opened.push((name@, Flags { read: true, write: false, append: false, truncate: false, create: false })), final(ol).handed_out == old(ol).handed_out,
        match r { Ok(f) => f.fd >= 0, Err(_) => true }
{ unimplemented!() }
impl VxFile {
    // into_raw_fd: the caller now owns the descriptor (nothing closes it behind its back)
    #[verifier::external_body]
    pub fn into_raw_fd(self, Tracked(ol): Tracked<&mut OpenLog>) -> (r: i32)
        ensures r == self.fd, final(ol).handed_out == old(ol).handed_out.push(self.fd as int), final(ol).opened == old(ol).opened
    { unimplemented!() }
}
#[verifier::external_body]
pub fn vx_err_text(e: &VxIoErr) -> (r: String) { unimplemented!() }
#[verifier::external_body]
pub fn vx_eprint_open_error(name: &str, e: &VxIoErr) { }
pub open spec fn out_flags(append: bool) -> Flags { Flags { read: false, write: !append, append: append, truncate: !append, create: true } }
//@FN create_raw_fd_from_file
//@FN get_fd_from_file
''' + common.TAIL

S = 'src/tools.rs'
create_raw = Fn(S, 'create_raw_fd_from_file', ret='r', props=('C04', 'C08'),
    pre_rewrites=[Rw('OpenOptions::new()', 'VxOpenOptions::new()', rule='R9', why='std::fs::OpenOptions through a builder that records the flags it is given'),
                  Rw('oos.create(true).open(file_name)', 'oos.create_and_open(true, file_name, Tracked(ol))', rule='R9', why='the end of the builder chain: create(..).open(..)'),
                  Rw('Err(e) => Err(format!("{}", e)),', 'Err(e) => Err(vx_err_text(&e)),', rule='R4', why='the text of the error (opaque)')],
    add_params='Tracked(ol): Tracked<&mut OpenLog>', ghost_args={'into_raw_fd': 'Tracked(ol)'},
    requires=[('C04.pre.create_raw.fresh_log', 'old(ol).opened.len() == 0 && old(ol).handed_out.len() == 0')],
    ensures=[('C04.open.an_output_target_is_opened_for_writing_created_when_missing_truncated_unless_appended_to',
              'final(ol).opened.len() == 1 && final(ol).opened[0] == (file_name@, out_flags(append))'),
             ('C04+C08.open.the_descriptor_is_handed_to_the_caller_exactly_when_the_open_succeeded',
              'match r { Ok(fd) => final(ol).handed_out == seq![fd as int], Err(_) => final(ol).handed_out.len() == 0 }')],
)
get_fd = Fn(S, 'get_fd_from_file', ret='r', props=('C04', 'C08'),
    pre_rewrites=[Rw('let path = Path::new(file_name);', '', rule='R9', why='Path wrapper of the name (no effect)'), Rw('let display = path.display();', '', rule='R9'),
                  Rw('File::open(path)', 'vx_file_open(file_name, Tracked(ol))', rule='R9', why='File::open through a shim that records a read-only open'),
                  Rw('println_stderr!("cicada: {}: {}", display, why);', 'vx_eprint_open_error(file_name, &why);', rule='R3', why='diagnostic output')],
    add_params='Tracked(ol): Tracked<&mut OpenLog>', ghost_args={'into_raw_fd': 'Tracked(ol)'},
    requires=[('C04.pre.get_fd.fresh_log', 'old(ol).opened.len() == 0 && old(ol).handed_out.len() == 0')],
    ensures=[('C04.open.an_input_target_is_opened_for_reading_only',
              'final(ol).opened.len() == 1 && final(ol).opened[0] == (file_name@, Flags { read: true, write: false, append: false, truncate: false, create: false })'),
             ('C04+C08.open.minus_one_exactly_when_the_file_could_not_be_opened_and_then_nothing_is_left_open',
              '(r == -1 <==> final(ol).handed_out.len() == 0) && (final(ol).handed_out.len() >= 1 ==> final(ol).handed_out == seq![r as int])')],
)
UNIT = Unit('U-OPEN', TEMPLATE, fns=[create_raw, get_fd], props=('C04', 'C08', 'C05'))
TRUSTED = common.TRUSTED_STR + [
    'std::fs::OpenOptions / File::open are modelled by the flags they are given; that the standard library opens close-on-exec, that append mode makes every write go to the end of the file, and what open(2) does with the flags is std / kernel behaviour (assumed)',
]
