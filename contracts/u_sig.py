"""U-SIG: the two places that ask the kernel for child events (C06, C07, C02): jobc::waitpidx (the foreground wait's one call) and the constructors it
uses. What is asked for -- stops AND continues, blocking exactly when told to -- and how a kernel event becomes the WaitStatus triple."""
from vx.gen import Unit, Fn, TypeItem, Loop, Rw
from . import common

T = 'src/types.rs'
TEMPLATE = common.HEAD + common.STR_SHIMS + r'''
//@TYPE WaitStatus
// ---- nix::sys::wait, reduced to what the code looks at ----
pub struct Pid { pub raw: i32 }
impl Pid {
    pub fn from_raw(p: i32) -> (r: Pid) ensures r.raw == p { Pid { raw: p } }
}
pub fn vx_pid_i32(p: Pid) -> (r: i32) ensures r == p.raw { p.raw }
// WaitPidFlag: which events are asked for, and whether the call may block
#[derive(Clone, Copy)]
pub struct WFlags { pub untraced: bool, pub continued: bool, pub nohang: bool }
pub struct WF {}
impl WF {
    pub fn WUNTRACED() -> (r: WFlags) ensures r == (WFlags { untraced: true, continued: false, nohang: false }) { WFlags { untraced: true, continued: false, nohang: false } }
    pub fn WCONTINUED() -> (r: WFlags) ensures r == (WFlags { untraced: false, continued: true, nohang: false }) { WFlags { untraced: false, continued: true, nohang: false } }
    pub fn WNOHANG() -> (r: WFlags) ensures r == (WFlags { untraced: false, continued: false, nohang: true }) { WFlags { untraced: false, continued: false, nohang: true } }
}
impl WFlags {
    // the `|` of two flag sets
    pub fn or(self, o: WFlags) -> (r: WFlags)
        ensures r == (WFlags { untraced: self.untraced || o.untraced, continued: self.continued || o.continued, nohang: self.nohang || o.nohang })
    { WFlags { untraced: self.untraced || o.untraced, continued: self.continued || o.continued, nohang: self.nohang || o.nohang } }
}
// WaitStatus of nix: the kernel's answer
pub enum WS { Exited(Pid, i32), Stopped(Pid, i32), Continued(Pid), Signaled(Pid, i32, bool), StillAlive, PtraceEvent(Pid, i32, i32) }
pub struct VxErrno { pub e: i32 }
pub fn vx_errno_i32(e: VxErrno) -> (r: i32) ensures r == e.e { e.e }
pub fn vx_sig_i32(s: i32) -> (r: i32) ensures r == s { s }

// THE SPECIFIED TRIPLE (pid, kind, code) of a kernel answer: kind 0 exited (code = status), 1 killed (code = signal), 2 stopped (code = signal),
// 3 continued, 255 error (code = errno), (0, 0, 0) nothing to report
pub open spec fn triple_of(a: Result<WS, VxErrno>) -> (int, int, int) {
    match a {
        Ok(WS::Exited(p, st)) => (p.raw as int, 0, st as int),
        Ok(WS::Stopped(p, sig)) => (p.raw as int, 2, sig as int),
        Ok(WS::Continued(p)) => (p.raw as int, 3, 0),
        Ok(WS::Signaled(p, sig, _c)) => (p.raw as int, 1, sig as int),
        Ok(WS::StillAlive) => (0, 0, 0),
        Ok(WS::PtraceEvent(_p, _a, _b)) => (0, 9, 9),
        Err(e) => (0, 255, e.e as int),
    }
}
pub ghost struct AskLog { pub answer: Option<Result<WS, VxErrno>> }
// waitpid(2): what the code asks for is what it can be told
#[verifier::external_body]
pub fn waitpid(pid: Pid, options: Option<WFlags>, Ghost(may_block): Ghost<bool>, Tracked(a): Tracked<&mut AskLog>) -> (r: Result<WS, VxErrno>)
    requires options.is_some() && options.unwrap().untraced && options.unwrap().continued, //@L C06+C07.wait.stops_and_continues_of_children_are_asked_for
        options.is_some() && options.unwrap().nohang == !may_block //@L C02+C05.wait.the_call_blocks_exactly_when_it_is_told_to
    ensures final(a).answer == Some(r)
{ unimplemented!() }
impl WaitStatus {
//@FN WaitStatus::from_exited
//@FN WaitStatus::from_signaled
//@FN WaitStatus::from_stopped
//@FN WaitStatus::from_continuted
//@FN WaitStatus::from_others
//@FN WaitStatus::from_error
//@FN WaitStatus::empty
}
//@FN waitpidx

// ---- signals::handle_sigchld: the non-blocking poll of the prompt (and of the SIGCHLD handler): every event it is told is parked in the map of its kind ----
pub ghost struct Parked { pub evs: Seq<(int, int, int)> }
#[verifier::external_body]
pub fn insert_reap_map(pid: i32, status: i32, Tracked(pk): Tracked<&mut Parked>) ensures final(pk).evs == old(pk).evs.push((pid as int, 0, status as int)) { unimplemented!() }
#[verifier::external_body]
pub fn killed_map_insert(pid: i32, sig: i32, Tracked(pk): Tracked<&mut Parked>) ensures final(pk).evs == old(pk).evs.push((pid as int, 1, sig as int)) { unimplemented!() }
#[verifier::external_body]
pub fn insert_stopped_map(pid: i32, Tracked(pk): Tracked<&mut Parked>) ensures final(pk).evs.len() == old(pk).evs.len() + 1 && final(pk).evs.drop_last() == old(pk).evs && final(pk).evs.last().0 == pid && final(pk).evs.last().1 == 2 { unimplemented!() }
#[verifier::external_body]
pub fn insert_cont_map(pid: i32, Tracked(pk): Tracked<&mut Parked>) ensures final(pk).evs == old(pk).evs.push((pid as int, 3, 0)) { unimplemented!() }
pub struct VxSavedErrno { pub e: i32 }
#[verifier::external_body]
pub fn errno() -> (r: VxSavedErrno) { unimplemented!() }
#[verifier::external_body]
pub fn set_errno(e: VxSavedErrno) { }
#[verifier::external_body]
pub fn vx_is_echild(e: &VxErrno) -> (r: bool) { unimplemented!() }
#[verifier::external_body]
pub fn vx_log_err(e: &VxErrno) { }
// an event (a child exited / was killed / stopped / continued) as opposed to "nothing more" or an error
pub open spec fn is_event(a: Result<WS, VxErrno>) -> bool { triple_of(a).1 == 0 && triple_of(a).0 != 0 || triple_of(a).1 == 1 || triple_of(a).1 == 2 || triple_of(a).1 == 3 }
//@FN handle_sigchld
''' + common.TAIL


def ctor(name, ens):
    return Fn(T, name, impl='WaitStatus', ret='r', ensures=[('C02+C06+C07.ws.ctor.%s' % name, ens)])


waitpidx = Fn('src/jobc.rs', 'waitpidx', ret='r',
    pre_rewrites=[
        Rw(r'#\[cfg\(cicada_verif\)\][\s\S]{0,40}?let waitpid = crate::verif_hooks::waitpid;', '', regex=True, required=False, rule='R10', why='the guarded hook line (off in the build that ships): dropped'),
        Rw(r'let waitpid = crate::verif_hooks::waitpid;', '', regex=True, required=False, rule='R10'),
        Rw(r'\s*\|\s*WF::(\w+)', r'.or(WF::\1())', regex=True, required=False, rule='R12', why='`|` of flag sets through a method (Verus has no `|` on user types)'),
        Rw(r'WF::(\w+)\b(?!\()', r'WF::\1()', regex=True, required=False, rule='R12', why='flag constants as functions'),
        Rw('i32::from(pid)', 'vx_pid_i32(pid)', required=False, rule='R12'),
        Rw('sig as i32', 'vx_sig_i32(sig)', required=False, rule='R12', why='Signal -> i32'),
        Rw('e as i32', 'vx_errno_i32(e)', required=False, rule='R12', why='Errno -> i32'),
        Rw('types::WaitStatus', 'WaitStatus', required=False, rule='R0'),
        Rw('Ok(_others)', 'Ok(WS::PtraceEvent(_p, _a, _b))', required=False, rule='R12', why='the catch-all arm names the one remaining variant'),
    ],
    add_params='Tracked(a): Tracked<&mut AskLog>',
    ghost_args={'waitpid': 'Ghost(block), Tracked(a)'},
    ensures=[('C02+C03+C06+C07.waitpidx.the_triple_is_the_one_of_the_kernel_answer',
              'final(a).answer.is_some() && (r.0 as int, r.1 as int, r.2 as int) == triple_of(final(a).answer.unwrap())')],
)

handle_sigchld = Fn('src/signals.rs', 'handle_sigchld',
    attrs=['#[verifier::exec_allows_no_decreases_clause]'],
    pre_rewrites=[
        Rw(r'#\[cfg\(cicada_verif\)\][\s\S]{0,40}?let waitpid = crate::verif_hooks::waitpid;', '', regex=True, required=False, rule='R10'),
        Rw(r'let waitpid = crate::verif_hooks::waitpid;', '', regex=True, required=False, rule='R10'),
        Rw(r'pub extern "C" fn', 'pub fn', required=False, rule='R13', why='ABI marker of the signal handler dropped'),
        Rw(r'\s*\|\s*WF::(\w+)', r'.or(WF::\1())', regex=True, required=False, rule='R12'),
        Rw(r'WF::(\w+)\b(?!\()', r'WF::\1()', regex=True, required=False, rule='R12'),
        Rw('i32::from(pid)', 'vx_pid_i32(pid)', required=False, rule='R12'),
        Rw('sig as i32', 'vx_sig_i32(sig)', required=False, rule='R12'),
        Rw('e == nix::Error::ECHILD', 'vx_is_echild(&e)', required=False, rule='R8'),
        Rw(r'log!\("chld waitpid error: \{:\?\}", e\);', 'vx_log_err(&e);', regex=True, required=False, rule='R3'),
        Rw('Ok(_others)', 'Ok(WS::PtraceEvent(_p, _a, _b))', required=False, rule='R12'),
    ],
    add_params='Tracked(a): Tracked<&mut AskLog>, Tracked(pk): Tracked<&mut Parked>',
    ghost_args={'waitpid': 'Ghost(false), Tracked(a)', 'insert_reap_map': 'Tracked(pk)', 'killed_map_insert': 'Tracked(pk)', 'insert_stopped_map': 'Tracked(pk)', 'insert_cont_map': 'Tracked(pk)'},
    loops={0: Loop(invariant=[('C06+C07.inv.sigchld.flags', 'options.is_some() && options.unwrap().untraced && options.unwrap().continued && options.unwrap().nohang')])},
    hints={'loop-0-body-entry': 'RAW: let ghost __p0 = pk.evs;',
           'after-call:insert_reap_map': 'LABEL:C06+C07.sigchld.an_exit_is_parked_as_an_exit_with_its_status: assert(pk.evs == __p0.push(triple_of(a.answer.unwrap())));',
           'after-call:killed_map_insert': 'LABEL:C06+C07.sigchld.a_kill_is_parked_as_a_kill_with_its_signal: assert(pk.evs == __p0.push(triple_of(a.answer.unwrap())));',
           'after-call:insert_stopped_map': 'LABEL:C06+C07.sigchld.a_stop_is_parked_as_a_stop: assert(pk.evs.len() == __p0.len() + 1 && pk.evs.last().0 == triple_of(a.answer.unwrap()).0 && pk.evs.last().1 == 2 && triple_of(a.answer.unwrap()).1 == 2);',
           'after-call:insert_cont_map': 'LABEL:C06+C07.sigchld.a_continue_is_parked_as_a_continue: assert(pk.evs == __p0.push(triple_of(a.answer.unwrap())));'},
)
UNIT = Unit('U-SIG', TEMPLATE,
            fns=[waitpidx, handle_sigchld, ctor('from_exited', 'r.0 == pid && r.1 == 0 && r.2 == status'), ctor('from_signaled', 'r.0 == pid && r.1 == 1 && r.2 == sig'),
                 ctor('from_stopped', 'r.0 == pid && r.1 == 2 && r.2 == sig'), ctor('from_continuted', 'r.0 == pid && r.1 == 3 && r.2 == 0'),
                 ctor('from_others', 'r.0 == 0 && r.1 == 9 && r.2 == 9'), ctor('from_error', 'r.0 == 0 && r.1 == 255 && r.2 == errno'),
                 ctor('empty', 'r.0 == 0 && r.1 == 0 && r.2 == 0')],
            types=[TypeItem(T, 'struct', 'WaitStatus', rewrites=[Rw('WaitStatus(i32, i32, i32)', 'WaitStatus(pub i32, pub i32, pub i32)', rule='R13', why='field visibility only (single-module unit file)')])],
            props=('C06', 'C07', 'C02', 'C05'))
TRUSTED = [
    'nix::sys::wait::{waitpid, WaitStatus, WaitPidFlag} are modelled: the flag set by three booleans, the answer by an enum with the variants the code matches on; '
    'that the kernel reports a stop only under WUNTRACED, a continue only under WCONTINUED and never blocks under WNOHANG is POSIX (assumed)',
    'the maps of signals.rs (static, behind mutexes) are shims that record what is parked; errno save / restore is opaque',
]
