"""U-LIST: execute::run_command_line against the list-evaluation semantics of C03."""
from vx.gen import Unit, Fn, TypeItem, Loop, Rw
from . import common

TEMPLATE = common.HEAD + common.STR_SHIMS + r'''
//@TYPE CommandResult

// The shell state: only the field this unit reads/writes is modelled; run_proc may change all of it.
pub struct Shell { pub previous_status: i32, pub exit_on_error: bool }

// Ghost run log: one entry (command text, status, `set -e` in effect after it) per run_proc call of this activation.
pub ghost struct RunLog { pub log: Seq<(Seq<char>, int, bool)> }

// ---- specification taken from the property statements (C03; the stop rule of C15) ------------------------------------
pub open spec fn is_op(t: Seq<char>) -> bool { t == ";"@ || t == "&&"@ || t == "||"@ }
pub open spec fn skipped(sep: Seq<char>, status: int) -> bool {
    (sep == "&&"@ && status != 0) || (sep == "||"@ && status == 0)
}
// C15: after `set -e` a failing pipeline that ends its and-or list (`;` or the end of the line follows) ends the line
pub open spec fn stops(toks: Seq<Seq<char>>, n: int, e: (Seq<char>, int, bool)) -> bool {
    e.1 != 0 && e.2 && (n == toks.len() || toks[n] == ";"@)
}
// state after the first n list elements: (pending operator, status so far, next log position, stopped by `set -e`)
pub open spec fn st(toks: Seq<Seq<char>>, log: Seq<(Seq<char>, int, bool)>, j0: int, n: int) -> (Seq<char>, int, int, bool)
    decreases n
{
    if n <= 0 { (Seq::<char>::empty(), 0int, j0, false) } else {
        let p = st(toks, log, j0, n - 1);
        let t = toks[n - 1];
        if p.3 { p }
        else if is_op(t) { (t, p.1, p.2, false) }
        else if skipped(p.0, p.1) { p }
        else { (p.0, log[p.2].1, p.2 + 1, stops(toks, n, log[p.2])) }
    }
}
// every pipeline that had to run did run, at its position, with its own text
pub open spec fn ran_ok(toks: Seq<Seq<char>>, log: Seq<(Seq<char>, int, bool)>, j0: int, n: int) -> bool
    decreases n
{
    n <= 0 || (ran_ok(toks, log, j0, n - 1) && {
        let p = st(toks, log, j0, n - 1);
        let t = toks[n - 1];
        p.3 || is_op(t) || skipped(p.0, p.1) || (0 <= p.2 < log.len() && log[p.2].0 == t)
    })
}
pub proof fn lemma_st_ext(toks: Seq<Seq<char>>, l1: Seq<(Seq<char>, int, bool)>, l2: Seq<(Seq<char>, int, bool)>, j0: int, n: int)
    requires
        0 <= j0, 0 <= n <= toks.len(), l1.len() <= l2.len(),
        forall|k: int| 0 <= k < l1.len() ==> l1[k] == l2[k],
        ran_ok(toks, l1, j0, n),
    ensures
        st(toks, l2, j0, n) == st(toks, l1, j0, n), ran_ok(toks, l2, j0, n),
        j0 <= st(toks, l1, j0, n).2,
    decreases n
{
    if n > 0 { lemma_st_ext(toks, l1, l2, j0, n - 1); }
}
// once stopped, nothing more is required and nothing more is counted
pub proof fn lemma_stopped_sticky(toks: Seq<Seq<char>>, log: Seq<(Seq<char>, int, bool)>, j0: int, n: int, m: int)
    requires 0 <= n <= m, st(toks, log, j0, n).3, ran_ok(toks, log, j0, n),
    ensures st(toks, log, j0, m) == st(toks, log, j0, n), ran_ok(toks, log, j0, m),
    decreases m - n
{
    if n < m { lemma_stopped_sticky(toks, log, j0, n, m - 1); }
}

// ---- externals ----------------------------------------------------------------------------------
pub uninterp spec fn spec_line_to_cmds(line: Seq<char>) -> Seq<Seq<char>>;
pub open spec fn strs(v: Seq<String>) -> Seq<Seq<char>> { v.map_values(|s: String| s@) }

#[verifier::external_body]
pub fn line_to_cmds(line: &str) -> (r: Vec<String>)
    ensures strs(r@) == spec_line_to_cmds(line@)
{ unimplemented!() }

// run_proc runs one pipeline: any status, any effect on the shell; it is logged exactly once.
#[verifier::external_body]
pub fn run_proc(sh: &mut Shell, line: &str, tty: bool, capture: bool, Tracked(lg): Tracked<&mut RunLog>) -> (cr: CommandResult)
    ensures final(lg).log == old(lg).log.push((line@, cr.status as int, final(sh).exit_on_error)),
{ unimplemented!() }

//@FN run_command_line

// ---- execute::run_procs_for_non_tty (C01 / C03): what arrives on standard input of a shell without a terminal is ONE command line -- it is handed to
// run_command_line once, as it was read (a newline inside quotes is a character of the line like any other; line_to_cmds and the tokenizer decide what it means) ----
pub uninterp spec fn spec_stdin_text() -> Option<Seq<char>>;
pub struct VxIoErr { pub e: i32 }
#[verifier::external_body]
pub fn vx_read_stdin_to_string(buffer: &mut String) -> (r: Result<usize, VxIoErr>)
    ensures match r { Ok(_) => spec_stdin_text() == Some(final(buffer)@), Err(_) => spec_stdin_text().is_none() }
{ unimplemented!() }
#[verifier::external_body]
pub fn vx_print_io_error(e: &VxIoErr) { }
//@FN run_procs_for_non_tty
''' + common.TAIL

run_command_line = Fn(
    'src/execute.rs', 'run_command_line', ret='r',
    add_params='Tracked(lg): Tracked<&mut RunLog>',
    ghost_args={'run_proc': 'Tracked(lg)'},
    let_types={'cr_list': 'Vec<CommandResult>'},
    ensures=[
        # C03: left to right, short-circuit, skip-and-continue, everything after `;` runs -- unless (C15) a pipeline failed under `set -e` at the end of its and-or list
        ('C03+C15.list_semantics',
         'ran_ok(spec_line_to_cmds(line@), final(lg).log, old(lg).log.len() as int, spec_line_to_cmds(line@).len() as int) '
         '&& st(spec_line_to_cmds(line@), final(lg).log, old(lg).log.len() as int, spec_line_to_cmds(line@).len() as int).2 == final(lg).log.len()'),
        ('C03.log_grows', 'old(lg).log.len() <= final(lg).log.len() && '
         'forall|k: int| 0 <= k < old(lg).log.len() ==> final(lg).log[k] == old(lg).log[k]'),
        ('C03+C10.status_is_last_run',
         'final(lg).log.len() > old(lg).log.len() ==> final(sh).previous_status == final(lg).log.last().1'),
        ('C03.results_in_order',
         'r@.len() == final(lg).log.len() - old(lg).log.len() && '
         'forall|k: int| 0 <= k < r@.len() ==> r@[k].status == #[trigger] final(lg).log[old(lg).log.len() + k].1'),
    ],
    loops={0: Loop(invariant=[
        ('C03.inv.cmds', 'strs(cmds@) == spec_line_to_cmds(line@)'),
        ('C03.inv.prefix', 'old(lg).log.len() <= lg.log.len() && forall|k: int| 0 <= k < old(lg).log.len() ==> lg.log[k] == old(lg).log[k]'),
        ('C03.inv.ran_ok', 'ran_ok(strs(cmds@), lg.log, old(lg).log.len() as int, __i0 as int)'),
        ('C03+C10.inv.prev', 'lg.log.len() > old(lg).log.len() ==> sh.previous_status == lg.log.last().1 && status == lg.log.last().1'),
        ('C03.inv.results', 'cr_list@.len() == lg.log.len() - old(lg).log.len() && '
         'forall|k: int| 0 <= k < cr_list@.len() ==> cr_list@[k].status == #[trigger] lg.log[old(lg).log.len() + k].1'),
    ], invariant_except_break=[
        ('C03+C10+C15.inv.state', 'st(strs(cmds@), lg.log, old(lg).log.len() as int, __i0 as int) == (sep@, status as int, lg.log.len() as int, false)'),
    ], ensures=[
        # the loop is left at the end of the list, or (C15) right after a pipeline that failed under `set -e` at the end of its and-or list
        ('C03+C15.loop_left_at_the_end_or_at_the_stop_rule',
         '__i0 <= cmds@.len() && st(strs(cmds@), lg.log, old(lg).log.len() as int, __i0 as int).2 == lg.log.len() '
         '&& (__i0 == cmds@.len() || st(strs(cmds@), lg.log, old(lg).log.len() as int, __i0 as int).3)'),
    ])},
    hints={
        'loop-0-body-entry': 'assert(strs(cmds@)[__i0 as int] == cmds@[__i0 as int]@); reveal_strlit(";"); '
                             'if __i0 + 1 < cmds@.len() { assert(strs(cmds@)[__i0 + 1] == cmds@[__i0 + 1]@); }',
        'before-call:run_proc': 'RAW: let ghost __l1 = lg.log;',
        'after-call:run_proc': 'lemma_st_ext(strs(cmds@), __l1, lg.log, old(lg).log.len() as int, (__i0 - 1) as int);',
        'loop-0-exit': 'if __i0 < cmds@.len() { lemma_stopped_sticky(strs(cmds@), lg.log, old(lg).log.len() as int, __i0 as int, cmds@.len() as int); }',
    },
)

non_tty = Fn('src/execute.rs', 'run_procs_for_non_tty', props=('C01', 'C03'),
    pre_rewrites=[Rw(r'let stdin = io::stdin\(\);[\s\S]*?match handle\.read_to_string\(&mut buffer\) \{', 'match vx_read_stdin_to_string(&mut buffer) {', regex=True, rule='R10',
                     why='reading standard input to its end: one opaque shim (the text read, or an error)'),
                  Rw(r'log!\("run non tty command: \{\}", &buffer\);', '', regex=True, rule='R3', required=False, why='log line'),
                  Rw(r'println!\("cicada: stdin\.read_to_string\(\) failed: \{:\?\}", e\);', 'vx_print_io_error(&e);', regex=True, rule='R3', why='diagnostic output')],
    add_params='Tracked(lg): Tracked<&mut RunLog>',
    ghost_args={'run_command_line': 'Tracked(lg)'},
    ensures=[('C01+C03.non_tty.the_text_read_from_standard_input_is_run_once_as_one_command_line',
              'match spec_stdin_text() { '
              'Some(t) => ran_ok(spec_line_to_cmds(t), final(lg).log, old(lg).log.len() as int, spec_line_to_cmds(t).len() as int) '
              '&& st(spec_line_to_cmds(t), final(lg).log, old(lg).log.len() as int, spec_line_to_cmds(t).len() as int).2 == final(lg).log.len(), '
              'None => final(lg).log == old(lg).log }')],
)
UNIT = Unit('U-LIST', TEMPLATE,
            fns=[run_command_line, non_tty],
            types=[TypeItem('src/types.rs', 'struct', 'CommandResult')],
            props=('C03', 'C05'))

TRUSTED = common.TRUSTED_STR + [
    'run_proc (execute.rs) is external: assumed to run the given pipeline once and return its status; it may change the Shell arbitrarily',
    'line_to_cmds is uninterpreted in this unit (its own separator contract is in U-TOK)',
    'run_procs_for_non_tty: reading standard input to its end is one opaque shim (the text read, or an error)',
    'Shell is modelled by the single field previous_status (the only one run_command_line touches)',
    'main.rs exits with sh.previous_status for -c / scripts: 3 bin-only lines read, not verified',
]
