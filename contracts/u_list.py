"""U-LIST: execute::run_command_line against the list-evaluation semantics of C03."""
from vx.gen import Unit, Fn, TypeItem, Loop, Rw
from . import common

TEMPLATE = common.HEAD + common.STR_SHIMS + r'''
//@TYPE CommandResult

// The shell state: only the field this unit reads/writes is modelled; run_proc may change all of it.
pub struct Shell { pub previous_status: i32 }

// Ghost run log: one entry (command text, status) per run_proc call of this activation.
pub ghost struct RunLog { pub log: Seq<(Seq<char>, int)> }

// ---- specification taken from the property statement (C03) ------------------------------------
pub open spec fn is_op(t: Seq<char>) -> bool { t == ";"@ || t == "&&"@ || t == "||"@ }
pub open spec fn skipped(sep: Seq<char>, status: int) -> bool {
    (sep == "&&"@ && status != 0) || (sep == "||"@ && status == 0)
}
// state after the first n list elements: (pending operator, status so far, next log position)
pub open spec fn st(toks: Seq<Seq<char>>, log: Seq<(Seq<char>, int)>, j0: int, n: int) -> (Seq<char>, int, int)
    decreases n
{
    if n <= 0 { (Seq::<char>::empty(), 0int, j0) } else {
        let p = st(toks, log, j0, n - 1);
        let t = toks[n - 1];
        if is_op(t) { (t, p.1, p.2) }
        else if skipped(p.0, p.1) { p }
        else { (p.0, log[p.2].1, p.2 + 1) }
    }
}
// every pipeline that had to run did run, at its position, with its own text
pub open spec fn ran_ok(toks: Seq<Seq<char>>, log: Seq<(Seq<char>, int)>, j0: int, n: int) -> bool
    decreases n
{
    n <= 0 || (ran_ok(toks, log, j0, n - 1) && {
        let p = st(toks, log, j0, n - 1);
        let t = toks[n - 1];
        is_op(t) || skipped(p.0, p.1) || (0 <= p.2 < log.len() && log[p.2].0 == t)
    })
}
pub proof fn lemma_st_ext(toks: Seq<Seq<char>>, l1: Seq<(Seq<char>, int)>, l2: Seq<(Seq<char>, int)>, j0: int, n: int)
    requires
        0 <= j0, 0 <= n <= toks.len(), l1.len() <= l2.len(),
        forall|k: int| 0 <= k < l1.len() ==> l1[k] == l2[k],
        ran_ok(toks, l1, j0, n),
    ensures
        st(toks, l2, j0, n) == st(toks, l1, j0, n), ran_ok(toks, l2, j0, n),
        j0 <= st(toks, l1, j0, n).2,
    decreases n
{
    if n > 0 { lemma_st_ext(toks, l1, l2, j0, n - 1); }
}

// ---- externals ----------------------------------------------------------------------------------
pub uninterp spec fn spec_line_to_cmds(line: Seq<char>) -> Seq<Seq<char>>;
pub open spec fn strs(v: Seq<String>) -> Seq<Seq<char>> { v.map_values(|s: String| s@) }

#[verifier::external_body]
pub fn line_to_cmds(line: &str) -> (r: Vec<String>)
    ensures strs(r@) == spec_line_to_cmds(line@)
{ unimplemented!() }

// run_proc runs one pipeline: any status, any effect on the shell; it is logged exactly once.
#[verifier::external_body]
pub fn run_proc(sh: &mut Shell, line: &str, tty: bool, capture: bool, Tracked(lg): Tracked<&mut RunLog>) -> (cr: CommandResult)
    ensures final(lg).log == old(lg).log.push((line@, cr.status as int)),
{ unimplemented!() }

//@FN run_command_line
''' + common.TAIL

run_command_line = Fn(
    'src/execute.rs', 'run_command_line', ret='r',
    add_params='Tracked(lg): Tracked<&mut RunLog>',
    ghost_args={'run_proc': 'Tracked(lg)'},
    loop_kinds={0: 'value'},
    let_types={'cr_list': 'Vec<CommandResult>'},
    ensures=[
        # C03: left to right, short-circuit, skip-and-continue, everything after `;` runs
        ('C03.list_semantics',
         'ran_ok(spec_line_to_cmds(line@), final(lg).log, old(lg).log.len() as int, spec_line_to_cmds(line@).len() as int) '
         '&& st(spec_line_to_cmds(line@), final(lg).log, old(lg).log.len() as int, spec_line_to_cmds(line@).len() as int).2 == final(lg).log.len()'),
        ('C03.log_grows', 'old(lg).log.len() <= final(lg).log.len() && '
         'forall|k: int| 0 <= k < old(lg).log.len() ==> final(lg).log[k] == old(lg).log[k]'),
        ('C03.status_is_last_run',
         'final(lg).log.len() > old(lg).log.len() ==> final(sh).previous_status == final(lg).log.last().1'),
        ('C03.results_in_order',
         'r@.len() == final(lg).log.len() - old(lg).log.len() && '
         'forall|k: int| 0 <= k < r@.len() ==> r@[k].status == #[trigger] final(lg).log[old(lg).log.len() + k].1'),
    ],
    loops={0: Loop(invariant=[
        ('C03.inv.prefix', 'old(lg).log.len() <= lg.log.len() && forall|k: int| 0 <= k < old(lg).log.len() ==> lg.log[k] == old(lg).log[k]'),
        ('C03.inv.ran_ok', 'ran_ok(strs(__v0@), lg.log, old(lg).log.len() as int, __i0 as int)'),
        ('C03.inv.state', 'st(strs(__v0@), lg.log, old(lg).log.len() as int, __i0 as int) == (sep@, status as int, lg.log.len() as int)'),
        ('C03.inv.prev', 'lg.log.len() > old(lg).log.len() ==> sh.previous_status == lg.log.last().1 && status == lg.log.last().1'),
        ('C03.inv.results', 'cr_list@.len() == lg.log.len() - old(lg).log.len() && '
         'forall|k: int| 0 <= k < cr_list@.len() ==> cr_list@[k].status == #[trigger] lg.log[old(lg).log.len() + k].1'),
    ])},
    hints={
        'loop-0-body-entry': 'assert(strs(__v0@)[__i0 as int] == __v0@[__i0 as int]@);',
        'before-call:run_proc': 'RAW: let ghost __l1 = lg.log;',
        'after-call:run_proc': 'lemma_st_ext(strs(__v0@), __l1, lg.log, old(lg).log.len() as int, (__i0 - 1) as int);',
    },
)

UNIT = Unit('U-LIST', TEMPLATE,
            fns=[run_command_line],
            types=[TypeItem('src/types.rs', 'struct', 'CommandResult')],
            props=('C03', 'C05'))

TRUSTED = common.TRUSTED_STR + [
    'run_proc (execute.rs) is external: assumed to run the given pipeline once and return its status; it may change the Shell arbitrarily',
    'line_to_cmds is uninterpreted in this unit (its own separator contract is in U-TOK)',
    'Shell is modelled by the single field previous_status (the only one run_command_line touches)',
    'main.rs exits with sh.previous_status for -c / scripts: 3 bin-only lines read, not verified',
]
