"""U-EXP1: brace, filename (glob) and numeric-range expansion: which tokens are rewritten (never quoted ones), how the
produced words are spliced back (order kept, a word with a blank gets the double-quote tag), safety of the arithmetic
and of the recursive brace parser (C12, C13, C01, C05)."""
from vx.gen import Unit, Fn, TypeItem, Loop, Rw
from . import common

SPLICE_SPEC = r'''
pub open spec fn unq(t: Token) -> bool { t.0@.len() == 0 }
pub open spec fn tv(t: Token) -> (Seq<char>, Seq<char>) { tok_view(t) }
pub open spec fn tsv(v: Seq<Token>) -> Seq<(Seq<char>, Seq<char>)> { toks_view(v) }
pub open spec fn strs(v: Seq<String>) -> Seq<Seq<char>> { v.map_values(|s: String| s@) }

// a produced word becomes a token; a word with a blank stays ONE argument (double-quote tag)
pub open spec fn mk_tok(s: Seq<char>) -> (Seq<char>, Seq<char>) { (if s.contains(' ') { "\""@ } else { ""@ }, s) }
pub open spec fn mk_toks(items: Seq<Seq<char>>) -> Seq<(Seq<char>, Seq<char>)> { items.map_values(|s: Seq<char>| mk_tok(s)) }

pub type BV = Seq<(int, Seq<Seq<char>>)>;
pub open spec fn bview(b: Seq<(usize, Vec<String>)>) -> BV { b.map_values(|e: (usize, Vec<String>)| (e.0 as int, strs(e.1@))) }
pub open spec fn lo(b: BV, m: int, n: int) -> int { if 0 <= m < b.len() { b[m].0 } else { n } }
pub open spec fn buff_ok(b: BV, n: int) -> bool {
    forall|m: int| 0 <= m < b.len() ==> 0 <= (#[trigger] b[m]).0 < n && (m + 1 < b.len() ==> b[m].0 < b[m + 1].0)
}
// the token list from position lo(b,m) on, with entries m.. expanded in place
pub open spec fn rest(old: Seq<(Seq<char>, Seq<char>)>, b: BV, m: int) -> Seq<(Seq<char>, Seq<char>)>
    decreases b.len() - m
{
    if m < 0 || m >= b.len() { Seq::empty() }
    else { mk_toks(b[m].1) + old.subrange(b[m].0 + 1, lo(b, m + 1, old.len() as int)) + rest(old, b, m + 1) }
}
// THE SPECIFIED RESULT: untouched prefix, then every expanded word list in place of its token, order kept
pub open spec fn spliced(old: Seq<(Seq<char>, Seq<char>)>, b: BV) -> Seq<(Seq<char>, Seq<char>)> {
    old.take(lo(b, 0, old.len() as int)) + rest(old, b, 0)
}

pub proof fn lemma_tsv_ops(s: Seq<Token>)
    ensures
        forall|k: int, t: Token| 0 <= k <= s.len() ==> #[trigger] tsv(s.insert(k, t)) == tsv(s).insert(k, tv(t)),
        forall|k: int| 0 <= k < s.len() ==> #[trigger] tsv(s.remove(k)) == tsv(s).remove(k),
        tsv(s).len() == s.len(),
{
    assert forall|k: int, t: Token| 0 <= k <= s.len() implies #[trigger] tsv(s.insert(k, t)) == tsv(s).insert(k, tv(t)) by {
        assert(tsv(s.insert(k, t)) =~= tsv(s).insert(k, tv(t)));
    }
    assert forall|k: int| 0 <= k < s.len() implies #[trigger] tsv(s.remove(k)) == tsv(s).remove(k) by {
        assert(tsv(s.remove(k)) =~= tsv(s).remove(k));
    }
}

pub proof fn lemma_bview_push(b: Seq<(usize, Vec<String>)>)
    ensures forall|e: (usize, Vec<String>)| #[trigger] bview(b.push(e)) == bview(b).push((e.0 as int, strs(e.1@))),
        bview(b).len() == b.len(),
        forall|e: (usize, Vec<String>)| (#[trigger] bview(b.push(e)))[b.len() as int] == (e.0 as int, strs(e.1@)),
{
    assert forall|e: (usize, Vec<String>)| (#[trigger] bview(b.push(e)))[b.len() as int] == (e.0 as int, strs(e.1@)) by {
        assert(bview(b.push(e)) =~= bview(b).push((e.0 as int, strs(e.1@))));
    }
    assert forall|e: (usize, Vec<String>)| #[trigger] bview(b.push(e)) == bview(b).push((e.0 as int, strs(e.1@))) by {
        assert(bview(b.push(e)) =~= bview(b).push((e.0 as int, strs(e.1@))));
    }
}

pub open spec fn in_buff(b: BV, k: int) -> bool { exists|m: int| 0 <= m < b.len() && #[trigger] b[m].0 == k }
// after pushing (idx, words) every earlier position is still found and idx itself is found
pub proof fn lemma_found_push(b: Seq<(usize, Vec<String>)>)
    ensures forall|e: (usize, Vec<String>), k: int| #[trigger] in_buff(bview(b.push(e)), k) == (in_buff(bview(b), k) || k == e.0),
{
    lemma_bview_push(b);
    assert forall|e: (usize, Vec<String>), k: int| #[trigger] in_buff(bview(b.push(e)), k) == (in_buff(bview(b), k) || k == e.0) by {
        let b2 = bview(b.push(e));
        if in_buff(bview(b), k) { let m0 = choose|m: int| 0 <= m < b.len() && #[trigger] bview(b)[m].0 == k; assert(b2[m0].0 == k); }
        if k == e.0 { assert(b2[b.len() as int].0 == k); }
        if in_buff(b2, k) {
            let m1 = choose|m: int| 0 <= m < b2.len() && #[trigger] b2[m].0 == k;
            if m1 < b.len() { assert(bview(b)[m1].0 == k); }
        }
    }
}

// removing token i (an entry about to be expanded) from  old[..lo_m] ++ rest(m)
pub proof fn lemma_splice_remove(old: Seq<(Seq<char>, Seq<char>)>, b: BV, m: int, cur: Seq<(Seq<char>, Seq<char>)>)
    requires buff_ok(b, old.len() as int), 1 <= m <= b.len(), cur == old.take(lo(b, m, old.len() as int)) + rest(old, b, m),
    ensures
        b[m - 1].0 < cur.len(),
        cur.remove(b[m - 1].0) == old.take(b[m - 1].0) + mk_toks(b[m - 1].1).take(0) + (old.subrange(b[m - 1].0 + 1, lo(b, m, old.len() as int)) + rest(old, b, m)),
{
    let i = b[m - 1].0;
    let l = lo(b, m, old.len() as int);
    assert(i < l <= old.len());
    assert(cur.remove(i) =~= old.take(i) + mk_toks(b[m - 1].1).take(0) + (old.subrange(i + 1, l) + rest(old, b, m)));
}

// inserting the j-th produced word
pub proof fn lemma_splice_insert(a: Seq<(Seq<char>, Seq<char>)>, mm: Seq<(Seq<char>, Seq<char>)>, j: int,
                                 tail: Seq<(Seq<char>, Seq<char>)>, cur: Seq<(Seq<char>, Seq<char>)>)
    requires 0 <= j < mm.len(), cur == a + mm.take(j) + tail,
    ensures cur.insert(a.len() + j, mm[j]) == a + mm.take(j + 1) + tail, a.len() + j <= cur.len(),
{
    assert(cur.insert(a.len() + j, mm[j]) =~= a + mm.take(j + 1) + tail);
}

// all words of entry m-1 inserted: the invariant for m-1
pub proof fn lemma_splice_done(old: Seq<(Seq<char>, Seq<char>)>, b: BV, m: int, cur: Seq<(Seq<char>, Seq<char>)>)
    requires buff_ok(b, old.len() as int), 1 <= m <= b.len(),
        cur == old.take(b[m - 1].0) + mk_toks(b[m - 1].1).take(mk_toks(b[m - 1].1).len() as int)
               + (old.subrange(b[m - 1].0 + 1, lo(b, m, old.len() as int)) + rest(old, b, m)),
    ensures cur == old.take(lo(b, m - 1, old.len() as int)) + rest(old, b, m - 1),
{
    let mm = mk_toks(b[m - 1].1);
    assert(mm.take(mm.len() as int) =~= mm);
    assert(cur =~= old.take(lo(b, m - 1, old.len() as int)) + rest(old, b, m - 1));
}

// no entry at all: nothing changes
pub proof fn lemma_spliced_empty(old: Seq<(Seq<char>, Seq<char>)>, b: BV)
    requires b.len() == 0,
    ensures spliced(old, b) == old,
{
    assert(spliced(old, b) =~= old);
}
'''

TEMPLATE = common.HEAD + common.STR_SHIMS + common.TOKEN_TYPES + SPLICE_SPEC + r'''
pub uninterp spec fn spec_need_expand_brace(t: Seq<char>) -> bool;
#[verifier::external_body]
pub fn need_expand_brace(line: &str) -> (r: bool) ensures r == spec_need_expand_brace(line@) { unimplemented!() }
pub uninterp spec fn spec_brace_words(t: Seq<char>) -> Seq<Seq<char>>;
#[verifier::external_body]
pub fn brace_getitem(s: &str, depth: i32) -> (r: (Vec<String>, String))
    ensures depth == 0 ==> strs(r.0@) == spec_brace_words(s@)
{ unimplemented!() }

//@FN expand_brace
''' + common.TAIL

S = 'src/shell.rs'


def splice_loops(first, outer, inner, buffname='buff'):
    """invariants of the shared splice-back code: `for (i, items) in buff.iter().rev() { remove; for (j, token) in items.iter().enumerate() { insert } }`"""
    b = 'bview(%s@)' % buffname
    old = 'tsv(old(tokens)@)'
    n = '%s.len() as int' % old
    return {
        outer: Loop(invariant=[
            ('C12+C13.inv.splice.buff_ok', 'buff_ok(%s, %s)' % (b, n)),
            ('C12+C13.inv.splice.outer', 'tsv(tokens@) == %s.take(lo(%s, __i%d as int, %s)) + rest(%s, %s, __i%d as int)' % (old, b, outer, n, old, b, outer)),
        ]),
        inner: Loop(invariant=[
            ('C12+C13.inv.splice.buff_ok2', 'buff_ok(%s, %s) && 0 <= __i%d < %s.len() && *i == %s[__i%d as int].0 && strs(items@) == %s[__i%d as int].1'
             % (b, n, outer, b, b, outer, b, outer)),
            ('C12+C13.inv.splice.inner',
             'tsv(tokens@) == %s.take(*i as int) + mk_toks(strs(items@)).take(__i%d as int) + (%s.subrange(*i + 1, lo(%s, __i%d + 1, %s)) + rest(%s, %s, __i%d + 1))'
             % (old, inner, old, b, outer, n, old, b, outer)),
        ]),
    }


def splice_hints(outer, inner, buffname='buff'):
    b = 'bview(%s@)' % buffname
    old = 'tsv(old(tokens)@)'
    return {
        'loop-%d-body-entry' % outer:
            'lemma_tsv_ops(tokens@); lemma_splice_remove(%s, %s, __i%d as int, tsv(tokens@)); '
            'assert(%s[__i%d - 1] == ((%s@[__i%d - 1]).0 as int, strs((%s@[__i%d - 1]).1@)));' % (old, b, outer, b, outer, buffname, outer, buffname, outer),
        'loop-%d-body-entry' % inner:
            'lemma_tsv_ops(tokens@); lemma_tsv_ops(old(tokens)@); assert(tsv(old(tokens)@).take(*i as int).len() == *i); '
            'lemma_splice_insert(%s.take(*i as int), mk_toks(strs(items@)), __i%d as int, '
            '%s.subrange(*i + 1, lo(%s, __i%d + 1, %s.len() as int)) + rest(%s, %s, __i%d + 1), tsv(tokens@)); '
            'assert(mk_toks(strs(items@))[__i%d as int] == mk_tok(items@[__i%d as int]@)); '
            'assert(%s.take(*i as int).len() + __i%d <= tsv(tokens@).len()); assert(tsv(tokens@).len() == tokens@.len()); '
            'assert(tokens@.len() == tokens.len()); assert(tokens.len() <= usize::MAX); assert(*i + __i%d <= usize::MAX);'
            % (old, inner, old, b, outer, old, old, b, outer, inner, inner, old, inner, inner),
        'loop-%d-exit' % inner:
            'lemma_splice_done(%s, %s, __i%d + 1, tsv(tokens@));' % (old, b, outer),
    }


expand_brace = Fn(S, 'expand_brace',
    rewrites=[Rw('types::Tokens', 'Tokens', required=False, rule='R0')],
    let_types={'buff': 'Vec<(usize, Vec<String>)>'},
    loop_kinds={1: 'value'},
    ensures=[
        ('C12+C13+C01.brace.result_is_splice',
         'exists|b: BV| buff_ok(b, old(tokens)@.len() as int) && tsv(final(tokens)@) == spliced(tsv(old(tokens)@), b) '
         '&& (forall|m: int| 0 <= m < b.len() ==> unq(old(tokens)@[(#[trigger] b[m]).0]) && spec_need_expand_brace(old(tokens)@[b[m].0].1@) '
         '    && b[m].1 == spec_brace_words(old(tokens)@[b[m].0].1@)) '
         '&& (forall|k: int| 0 <= k < old(tokens)@.len() && unq(old(tokens)@[k]) && spec_need_expand_brace(old(tokens)@[k].1@) ==> in_buff(b, k))'),
    ],
    loops={
        0: Loop(invariant=[
            ('C12.inv.brace.idx', 'idx == __i0 && tokens@ == old(tokens)@'),
            ('C12+C13.inv.brace.buff_ok', 'buff_ok(bview(buff@), __i0 as int)'),
            ('C12+C13+C01.inv.brace.only_unquoted',
             'forall|m: int| 0 <= m < buff@.len() ==> unq(tokens@[(#[trigger] bview(buff@)[m]).0]) && spec_need_expand_brace(tokens@[bview(buff@)[m].0].1@) '
             '&& bview(buff@)[m].1 == spec_brace_words(tokens@[bview(buff@)[m].0].1@)'),
            ('C12.inv.brace.all_found',
             'forall|k: int| 0 <= k < __i0 && unq(tokens@[k]) && spec_need_expand_brace(tokens@[k].1@) ==> in_buff(bview(buff@), k)'),
        ]),
        1: Loop(invariant=[('C12.inv.brace.copy', 'strs(result@) == strs(__v1@).take(__i1 as int)')]),
        **splice_loops(0, 2, 3),
    },
    hints={**splice_hints(2, 3),
           'loop-0-body-entry': 'lemma_bview_push(buff@); lemma_found_push(buff@);',
           'loop-1-body-entry': 'assert(strs(__v1@).take(__i1 + 1) =~= strs(__v1@).take(__i1 as int).push(__v1@[__i1 as int]@));'},
)

UNIT = Unit('U-EXP1', TEMPLATE, fns=[expand_brace], props=('C12', 'C13', 'C01', 'C05'))
TRUSTED = common.TRUSTED_STR + common.TRUSTED_TOKEN + []
