"""U-EXP1: brace, filename (glob) and numeric-range expansion: which tokens are rewritten (never quoted ones), how the
produced words are spliced back (order kept, a word with a blank gets the double-quote tag), safety of the arithmetic
and of the recursive brace parser (C12, C13, C01, C05)."""
from vx.gen import Unit, Fn, TypeItem, Loop, Rw
from . import common

SPLICE_SPEC = r'''
pub open spec fn has_op(s: Seq<char>) -> bool { s.contains('|') || s.contains('&') || s.contains('<') || s.contains('>') }
pub open spec fn unq(t: Token) -> bool { t.0@.len() == 0 }
pub open spec fn tv(t: Token) -> (Seq<char>, Seq<char>) { tok_view(t) }
pub open spec fn tsv(v: Seq<Token>) -> Seq<(Seq<char>, Seq<char>)> { toks_view(v) }
pub open spec fn strs(v: Seq<String>) -> Seq<Seq<char>> { v.map_values(|s: String| s@) }

// a produced word becomes a token; a word with a blank stays ONE argument (double-quote tag)
// (expand_glob, g = true: a file name that contains an operator character or a `{` (the range pass runs later) is data as well)
pub open spec fn mk_tok(s: Seq<char>, g: bool) -> (Seq<char>, Seq<char>) { (if s.contains(' ') || (g && (has_op(s) || s.contains('{'))) { "\""@ } else { ""@ }, s) }
pub open spec fn mk_toks(items: Seq<Seq<char>>, g: bool) -> Seq<(Seq<char>, Seq<char>)> { items.map_values(|s: Seq<char>| mk_tok(s, g)) }

pub type BV = Seq<(int, Seq<Seq<char>>)>;
pub open spec fn bview(b: Seq<(usize, Vec<String>)>) -> BV { b.map_values(|e: (usize, Vec<String>)| (e.0 as int, strs(e.1@))) }
pub open spec fn lo(b: BV, m: int, n: int) -> int { if 0 <= m < b.len() { b[m].0 } else { n } }
pub open spec fn buff_ok(b: BV, n: int) -> bool {
    forall|m: int| 0 <= m < b.len() ==> 0 <= (#[trigger] b[m]).0 < n && (m + 1 < b.len() ==> b[m].0 < b[m + 1].0)
}
// the token list from position lo(b,m) on, with entries m.. expanded in place
pub open spec fn rest(old: Seq<(Seq<char>, Seq<char>)>, b: BV, m: int, g: bool) -> Seq<(Seq<char>, Seq<char>)>
    decreases b.len() - m
{
    if m < 0 || m >= b.len() { Seq::empty() }
    else { mk_toks(b[m].1, g) + old.subrange(b[m].0 + 1, lo(b, m + 1, old.len() as int)) + rest(old, b, m + 1, g) }
}
// THE SPECIFIED RESULT: untouched prefix, then every expanded word list in place of its token, order kept
pub open spec fn spliced(old: Seq<(Seq<char>, Seq<char>)>, b: BV, g: bool) -> Seq<(Seq<char>, Seq<char>)> {
    old.take(lo(b, 0, old.len() as int)) + rest(old, b, 0, g)
}

pub proof fn lemma_tsv_ops(s: Seq<Token>)
    ensures
        forall|k: int, t: Token| 0 <= k <= s.len() ==> #[trigger] tsv(s.insert(k, t)) == tsv(s).insert(k, tv(t)),
        forall|k: int| 0 <= k < s.len() ==> #[trigger] tsv(s.remove(k)) == tsv(s).remove(k),
        tsv(s).len() == s.len(),
{
    assert forall|k: int, t: Token| 0 <= k <= s.len() implies #[trigger] tsv(s.insert(k, t)) == tsv(s).insert(k, tv(t)) by {
        assert(tsv(s.insert(k, t)) =~= tsv(s).insert(k, tv(t)));
    }
    assert forall|k: int| 0 <= k < s.len() implies #[trigger] tsv(s.remove(k)) == tsv(s).remove(k) by {
        assert(tsv(s.remove(k)) =~= tsv(s).remove(k));
    }
}

pub proof fn lemma_bview_push(b: Seq<(usize, Vec<String>)>)
    ensures forall|e: (usize, Vec<String>)| #[trigger] bview(b.push(e)) == bview(b).push((e.0 as int, strs(e.1@))),
        bview(b).len() == b.len(),
        forall|e: (usize, Vec<String>)| (#[trigger] bview(b.push(e)))[b.len() as int] == (e.0 as int, strs(e.1@)),
{
    assert forall|e: (usize, Vec<String>)| (#[trigger] bview(b.push(e)))[b.len() as int] == (e.0 as int, strs(e.1@)) by {
        assert(bview(b.push(e)) =~= bview(b).push((e.0 as int, strs(e.1@))));
    }
    assert forall|e: (usize, Vec<String>)| #[trigger] bview(b.push(e)) == bview(b).push((e.0 as int, strs(e.1@))) by {
        assert(bview(b.push(e)) =~= bview(b).push((e.0 as int, strs(e.1@))));
    }
}

pub open spec fn in_buff(b: BV, k: int) -> bool { exists|m: int| 0 <= m < b.len() && #[trigger] b[m].0 == k }
// after pushing (idx, words) every earlier position is still found and idx itself is found
pub proof fn lemma_found_push(b: Seq<(usize, Vec<String>)>)
    ensures forall|e: (usize, Vec<String>), k: int| #[trigger] in_buff(bview(b.push(e)), k) == (in_buff(bview(b), k) || k == e.0),
{
    lemma_bview_push(b);
    assert forall|e: (usize, Vec<String>), k: int| #[trigger] in_buff(bview(b.push(e)), k) == (in_buff(bview(b), k) || k == e.0) by {
        let b2 = bview(b.push(e));
        if in_buff(bview(b), k) { let m0 = choose|m: int| 0 <= m < b.len() && #[trigger] bview(b)[m].0 == k; assert(b2[m0].0 == k); }
        if k == e.0 { assert(b2[b.len() as int].0 == k); }
        if in_buff(b2, k) {
            let m1 = choose|m: int| 0 <= m < b2.len() && #[trigger] b2[m].0 == k;
            if m1 < b.len() { assert(bview(b)[m1].0 == k); }
        }
    }
}

// removing token i (an entry about to be expanded) from  old[..lo_m] ++ rest(m, g)
pub proof fn lemma_splice_remove(old: Seq<(Seq<char>, Seq<char>)>, b: BV, m: int, cur: Seq<(Seq<char>, Seq<char>)>, g: bool)
    requires buff_ok(b, old.len() as int), 1 <= m <= b.len(), cur == old.take(lo(b, m, old.len() as int)) + rest(old, b, m, g),
    ensures
        b[m - 1].0 < cur.len(),
        cur.remove(b[m - 1].0) == old.take(b[m - 1].0) + mk_toks(b[m - 1].1, g).take(0) + (old.subrange(b[m - 1].0 + 1, lo(b, m, old.len() as int)) + rest(old, b, m, g)),
{
    let i = b[m - 1].0;
    let l = lo(b, m, old.len() as int);
    assert(i < l <= old.len());
    assert(cur.remove(i) =~= old.take(i) + mk_toks(b[m - 1].1, g).take(0) + (old.subrange(i + 1, l) + rest(old, b, m, g)));
}

// inserting the j-th produced word
pub proof fn lemma_splice_insert(a: Seq<(Seq<char>, Seq<char>)>, mm: Seq<(Seq<char>, Seq<char>)>, j: int,
                                 tail: Seq<(Seq<char>, Seq<char>)>, cur: Seq<(Seq<char>, Seq<char>)>)
    requires 0 <= j < mm.len(), cur == a + mm.take(j) + tail,
    ensures cur.insert(a.len() + j, mm[j]) == a + mm.take(j + 1) + tail, a.len() + j <= cur.len(),
{
    assert(cur.insert(a.len() + j, mm[j]) =~= a + mm.take(j + 1) + tail);
}

// all words of entry m-1 inserted: the invariant for m-1
pub proof fn lemma_splice_done(old: Seq<(Seq<char>, Seq<char>)>, b: BV, m: int, cur: Seq<(Seq<char>, Seq<char>)>, g: bool)
    requires buff_ok(b, old.len() as int), 1 <= m <= b.len(),
        cur == old.take(b[m - 1].0) + mk_toks(b[m - 1].1, g).take(mk_toks(b[m - 1].1, g).len() as int)
               + (old.subrange(b[m - 1].0 + 1, lo(b, m, old.len() as int)) + rest(old, b, m, g)),
    ensures cur == old.take(lo(b, m - 1, old.len() as int)) + rest(old, b, m - 1, g),
{
    let mm = mk_toks(b[m - 1].1, g);
    assert(mm.take(mm.len() as int) =~= mm);
    assert(cur =~= old.take(lo(b, m - 1, old.len() as int)) + rest(old, b, m - 1, g));
}

// no entry at all: nothing changes
pub proof fn lemma_spliced_empty(old: Seq<(Seq<char>, Seq<char>)>, b: BV, g: bool)
    requires b.len() == 0,
    ensures spliced(old, b, g) == old,
{
    assert(spliced(old, b, g) =~= old);
}
'''

TEMPLATE = common.HEAD + common.STR_SHIMS + common.TOKEN_TYPES + SPLICE_SPEC + r'''
''' + common.NESTING_SPEC + common.NESTING_TWIN + r'''
//@TYPE MAX_NESTING
// the gate of the brace pass (verified below): the pattern literal finds a group with a comma (uninterpreted, axiom brace_gates) AND the word is not nested deeper than the limit
pub uninterp spec fn spec_brace_ptn() -> Seq<char>;
pub open spec fn spec_need_expand_brace(t: Seq<char>) -> bool { spec_re(spec_brace_ptn(), t) && nest(t, '{', '}') <= MAX_NESTING as int }
#[verifier::external_body]
pub fn vx_brace_ptn() -> (r: &'static str) ensures r@ == spec_brace_ptn() { unimplemented!() }
//@FN need_expand_brace

// ---- brace parser helpers ----
#[verifier::external_body]
pub fn vx_remove0(s: &mut String)
    requires old(s)@.len() > 0
    ensures final(s)@ == old(s)@.drop_first()
{ s.remove(0); }
// String::len is the byte length: at least one byte per char; a lone backslash is one byte
#[verifier::external_body]
pub fn vx_byte_len(s: &String) -> (r: usize) ensures r >= s@.len(), (s@.len() > 0 ==> r > 0), (s@.len() == 1 && s@[0] == '\\' ==> r == 1) { s.len() }

// ---- THE SPECIFIED BRACE EXPANSION (C12): one word per alternative, left to right; several groups in a word give the cartesian product
// (earlier group varies slowest), nesting expands inside out, an empty alternative is an empty text, a backslash keeps the next char,
// a group without a comma is text. sp_item reads a word (up to the `,`/`}` that closes the alternative it is in, when depth > 0),
// sp_group reads the alternatives of one group after its `{`; None: no such group (unbalanced).
pub open spec fn pre_each(x: Seq<char>, g: Seq<Seq<char>>) -> Seq<Seq<char>> { g.map_values(|y: Seq<char>| x + y) }
pub open spec fn app_each(out: Seq<Seq<char>>, t: Seq<char>) -> Seq<Seq<char>> { out.map_values(|x: Seq<char>| x + t) }
pub open spec fn wrap_each(out: Seq<Seq<char>>) -> Seq<Seq<char>> { out.map_values(|x: Seq<char>| seq!['{'] + x + seq!['}']) }
pub open spec fn cross(a: Seq<Seq<char>>, g: Seq<Seq<char>>) -> Seq<Seq<char>>
    decreases a.len()
{
    if a.len() == 0 { Seq::empty() } else { cross(a.drop_last(), g) + pre_each(a.last(), g) }
}
pub open spec fn one_empty() -> Seq<Seq<char>> { seq![Seq::<char>::empty()] }
pub open spec fn sp_item(s: Seq<char>, depth: int, out: Seq<Seq<char>>) -> (Seq<Seq<char>>, Seq<char>)
    decreases s.len(), 0int
{
    if s.len() == 0 { (out, s) }
    else if depth > 0 && (s[0] == ',' || s[0] == '}') { (out, s) }
    else {
        let grp = if s[0] == '{' { sp_group(s.drop_first(), depth + 1, Seq::empty(), false) } else { None };
        if grp.is_some() && grp.unwrap().1.len() < s.len() {
            sp_item(grp.unwrap().1, depth, cross(out, grp.unwrap().0))
        } else if s[0] == '{' && depth > 0 && grp.is_none() {
            // inside a group: an inner `{` without a `}` means there is no `}` left for the enclosing group either; it fails whatever the
            // rest holds, so the rest is not looked at (this is what keeps the parser from trying every inner `{` twice per level: C05)
            (out, Seq::empty())
        } else if s[0] == '\\' && s.len() > 1 {
            sp_item(s.skip(2), depth, app_each(out, seq!['\\', s[1]]))
        } else {
            sp_item(s.drop_first(), depth, app_each(out, seq![s[0]]))
        }
    }
}
pub open spec fn sp_group(s: Seq<char>, depth: int, out: Seq<Seq<char>>, comma: bool) -> Option<(Seq<Seq<char>>, Seq<char>)>
    decreases s.len(), 1int
{
    if s.len() == 0 { None }
    else {
        let it = sp_item(s, depth, one_empty());
        if it.1.len() == 0 || it.1.len() > s.len() { None }
        else if it.1[0] == '}' {
            if comma { Some((out + it.0, it.1.drop_first())) } else { Some((wrap_each(out + it.0), it.1.drop_first())) }
        }
        else if it.1[0] == ',' { sp_group(it.1.drop_first(), depth, out + it.0, true) }
        else { None }
    }
}
// the words an unquoted word `t` expands to
pub open spec fn brace_words(t: Seq<char>) -> Seq<Seq<char>> { sp_item(t, 0, one_empty()).0 }

pub proof fn lemma_quote_bs()
    ensures "\\"@ == seq!['\\'], "{"@ == seq!['{'], "}"@ == seq!['}'], forall|c: char| #[trigger] ("\\"@ + seq![c]) == seq!['\\', c],
{
    reveal_strlit("\\"); reveal_strlit("{"); reveal_strlit("}");
    assert("\\"@ =~= seq!['\\']); assert("{"@ =~= seq!['{']); assert("}"@ =~= seq!['}']);
    assert forall|c: char| #[trigger] ("\\"@ + seq![c]) == seq!['\\', c] by { assert("\\"@ + seq![c] =~= seq!['\\', c]); }
}
pub proof fn lemma_cross_step(a: Seq<Seq<char>>, g: Seq<Seq<char>>, i: int)
    requires 0 <= i < a.len(),
    ensures cross(a.take(i + 1), g) == cross(a.take(i), g) + pre_each(a[i], g), cross(a.take(0), g) == Seq::<Seq<char>>::empty(),
{
    assert(a.take(i + 1).drop_last() =~= a.take(i));
    assert(a.take(i + 1).last() == a[i]);
}
pub proof fn lemma_each_step(x: Seq<char>, g: Seq<Seq<char>>, j: int)
    ensures
        pre_each(x, g.take(0)) == Seq::<Seq<char>>::empty(), app_each(g.take(0), x) == Seq::<Seq<char>>::empty(), wrap_each(g.take(0)) == Seq::<Seq<char>>::empty(),
        0 <= j < g.len() ==> pre_each(x, g.take(j + 1)) == pre_each(x, g.take(j)).push(x + g[j]),
        0 <= j < g.len() ==> app_each(g.take(j + 1), x) == app_each(g.take(j), x).push(g[j] + x),
        0 <= j < g.len() ==> wrap_each(g.take(j + 1)) == wrap_each(g.take(j)).push(seq!['{'] + g[j] + seq!['}']),
        g.take(g.len() as int) == g,
{
    assert(pre_each(x, g.take(0)) =~= Seq::<Seq<char>>::empty());
    assert(app_each(g.take(0), x) =~= Seq::<Seq<char>>::empty());
    assert(wrap_each(g.take(0)) =~= Seq::<Seq<char>>::empty());
    assert(g.take(g.len() as int) =~= g);
    if 0 <= j < g.len() {
        assert(pre_each(x, g.take(j + 1)) =~= pre_each(x, g.take(j)).push(x + g[j]));
        assert(app_each(g.take(j + 1), x) =~= app_each(g.take(j), x).push(g[j] + x));
        assert(wrap_each(g.take(j + 1)) =~= wrap_each(g.take(j)).push(seq!['{'] + g[j] + seq!['}']));
    }
}
// validation of the specification itself: it computes the expansions the property statement describes (one word per alternative in order,
// cartesian product with the earlier group varying slowest, nesting, empty alternative, group without comma is text, unbalanced is text)
pub proof fn lemma_brace_spec_examples()
{
    // a{b,c}d -> abd acd
    assert(brace_words(seq!['a','{','b',',','c','}','d']) =~~= seq![seq!['a','b','d'], seq!['a','c','d']]) by (compute);
    // {a,b}{1,2} -> a1 a2 b1 b2
    assert(brace_words(seq!['{','a',',','b','}','{','1',',','2','}']) =~~= seq![seq!['a','1'], seq!['a','2'], seq!['b','1'], seq!['b','2']]) by (compute);
    // {a,{b,c}d} -> a bd cd
    assert(brace_words(seq!['{','a',',','{','b',',','c','}','d','}']) =~~= seq![seq!['a'], seq!['b','d'], seq!['c','d']]) by (compute);
    // x{,y} -> x xy
    assert(brace_words(seq!['x','{',',','y','}']) =~~= seq![seq!['x'], seq!['x','y']]) by (compute);
    // a{b}c{d,e} -> a{b}cd a{b}ce
    assert(brace_words(seq!['a','{','b','}','c','{','d',',','e','}']) =~~= seq![seq!['a','{','b','}','c','d'], seq!['a','{','b','}','c','e']]) by (compute);
    // {a,b -> {a,b
    assert(brace_words(seq!['{','a',',','b']) =~~= seq![seq!['{','a',',','b']]) by (compute);
    // {a\\,b,c} -> a\\,b c
    assert(brace_words(seq!['{','a','\\',',','b',',','c','}']) =~~= seq![seq!['a','\\',',','b'], seq!['c']]) by (compute);
    // p{a,b}q{c,d}r -> paqcr paqdr pbqcr pbqdr
    assert(brace_words(seq!['p','{','a',',','b','}','q','{','c',',','d','}','r']) =~~= seq![seq!['p','a','q','c','r'], seq!['p','a','q','d','r'], seq!['p','b','q','c','r'], seq!['p','b','q','d','r']]) by (compute);
}
pub proof fn lemma_strs_push(v: Seq<String>)
    ensures forall|x: String| #[trigger] strs(v.push(x)) == strs(v).push(x@), strs(Seq::<String>::empty()) == Seq::<Seq<char>>::empty(),
{
    assert forall|x: String| #[trigger] strs(v.push(x)) == strs(v).push(x@) by { assert(strs(v.push(x)) =~= strs(v).push(x@)); }
    assert(strs(Seq::<String>::empty()) =~= Seq::<Seq<char>>::empty());
}
#[verifier::external_body]
pub fn vx_clone_strings(v: &Vec<String>) -> (r: Vec<String>) ensures strs(r@) == strs(v@), r@.len() == v@.len() { v.clone() }

// ---- glob ----
pub uninterp spec fn spec_needs_globbing(t: Seq<char>) -> bool;
#[verifier::external_body]
pub fn needs_globbing(line: &str) -> (r: bool) ensures r == spec_needs_globbing(line@) { unimplemented!() }
pub uninterp spec fn spec_basename(p: Seq<char>) -> Seq<char>;
#[verifier::external_body]
pub fn basename(path: &str) -> (r: String) ensures r@ == spec_basename(path@) { unimplemented!() }
pub struct VxPath { pub s: String }
impl VxPath {
    #[verifier::external_body]
    pub fn to_string_lossy(&self) -> (r: String) ensures r@ == self.s@ { unimplemented!() }
}
// glob::glob(pattern): Err for a malformed pattern, else the directory entries in glob's (sorted) order, each Ok(path) or Err (unreadable)
#[verifier::external_body]
pub fn vx_glob(pattern: &str) -> (r: Result<Vec<Result<VxPath, String>>, String>) { unimplemented!() }
#[verifier::external_body]
pub fn vx_clone_entry(e: &Result<VxPath, String>) -> (r: Result<VxPath, String>)
    ensures match (r, *e) { (Ok(a), Ok(b)) => a.s@ == b.s@, (Err(_), Err(_)) => true, _ => false }
{ unimplemented!() }
// the hidden-file rule of the property statement
// below_hidden_dir(pattern, path) (shell.rs, str::split / glob::Pattern: outside Verus): some directory on the way to the path starts with a
// `.` that the pattern does not spell out. Uninterpreted here; exercised by the bounded hidden-directory populations.
pub uninterp spec fn spec_below_hidden(pat: Seq<char>, p: Seq<char>) -> bool;
#[verifier::external_body]
pub fn below_hidden_dir(pattern: &str, path: &str) -> (r: bool) ensures r == spec_below_hidden(pattern@, path@) { unimplemented!() }
pub open spec fn glob_keep(p: Seq<char>, show_hidden: bool, pat: Seq<char>) -> bool {
    let bn = spec_basename(p);
    bn != ".."@ && bn != "."@ && !(bn.len() > 0 && bn[0] == '.' && !show_hidden) && !spec_below_hidden(pat, p)
}
pub open spec fn entry_path(e: Result<VxPath, String>) -> Seq<char> { match e { Ok(p) => p.s@, Err(_) => Seq::empty() } }
pub open spec fn visible_at(v: Seq<Result<VxPath, String>>, e: int, sh: bool, pat: Seq<char>) -> bool { v[e].is_ok() && glob_keep(entry_path(v[e]), sh, pat) }
pub open spec fn from_entries(w: Seq<char>, v: Seq<Result<VxPath, String>>, upto: int, sh: bool, pat: Seq<char>) -> bool {
    exists|e: int| 0 <= e < upto && visible_at(v, e, sh, pat) && #[trigger] entry_path(v[e]) == w
}
pub open spec fn has_word(words: Seq<String>, w: Seq<char>) -> bool { exists|q: int| 0 <= q < words.len() && (#[trigger] words[q])@ == w }
pub proof fn lemma_glob_step(words: Seq<String>, v: Seq<Result<VxPath, String>>, n: int, sh: bool, pat: Seq<char>)
    requires 0 <= n < v.len(),
    ensures
        forall|w: Seq<char>| from_entries(w, v, n, sh, pat) ==> #[trigger] from_entries(w, v, n + 1, sh, pat),
        visible_at(v, n, sh, pat) ==> from_entries(entry_path(v[n]), v, n + 1, sh, pat),
        forall|x: String, w: Seq<char>| has_word(words, w) ==> #[trigger] has_word(words.push(x), w),
        forall|x: String| #[trigger] has_word(words.push(x), x@),
{
    assert forall|w: Seq<char>| from_entries(w, v, n, sh, pat) implies #[trigger] from_entries(w, v, n + 1, sh, pat) by {
        let e = choose|e: int| 0 <= e < n && visible_at(v, e, sh, pat) && #[trigger] entry_path(v[e]) == w;
        assert(0 <= e < n + 1 && visible_at(v, e, sh, pat) && entry_path(v[e]) == w);
    }
    if visible_at(v, n, sh, pat) { assert(0 <= n < n + 1 && visible_at(v, n, sh, pat) && entry_path(v[n]) == entry_path(v[n])); }
    assert forall|x: String, w: Seq<char>| has_word(words, w) implies #[trigger] has_word(words.push(x), w) by {
        let q = choose|q: int| 0 <= q < words.len() && (#[trigger] words[q])@ == w;
        assert(words.push(x)[q]@ == w);
    }
    assert forall|x: String| #[trigger] has_word(words.push(x), x@) by {
        assert(words.push(x)[words.len() as int]@ == x@);
    }
}

// ---- numeric range ----
pub struct VxRangeCaps { pub c1: String, pub c2: String, pub c4: Option<String>, pub head: String, pub tail: String }
pub uninterp spec fn spec_range_match(t: Seq<char>) -> bool;
// the text before / after the first `{m..n[..s]}` group of the word (Match::start / Match::end of capture 0)
pub uninterp spec fn spec_range_head(t: Seq<char>) -> Seq<char>;
pub uninterp spec fn spec_range_tail(t: Seq<char>) -> Seq<char>;
// the bound texts of that group (capture groups 1, 2 and the optional step, group 4)
pub uninterp spec fn spec_range_c1(t: Seq<char>) -> Seq<char>;
pub uninterp spec fn spec_range_c2(t: Seq<char>) -> Seq<char>;
pub uninterp spec fn spec_range_c4(t: Seq<char>) -> Option<Seq<char>>;
#[verifier::external_body]
pub fn vx_range_is_match(t: &str) -> (r: bool) ensures r == spec_range_match(t@) { unimplemented!() }
#[verifier::external_body]
pub fn vx_range_captures(t: &str) -> (r: Option<VxRangeCaps>)
    ensures r.is_some() == spec_range_match(t@),
        r.is_some() ==> r.unwrap().head@ == spec_range_head(t@) && r.unwrap().tail@ == spec_range_tail(t@)
            && r.unwrap().c1@ == spec_range_c1(t@) && r.unwrap().c2@ == spec_range_c2(t@)
            && (match r.unwrap().c4 { Some(x) => spec_range_c4(t@) == Some(x@), None => spec_range_c4(t@).is_none() })
{ unimplemented!() }
pub struct VxParseErr { pub e: i32 }
pub uninterp spec fn spec_parse_i32(t: Seq<char>) -> Option<int>;
#[verifier::external_body]
pub fn vx_parse_i32(t: &str) -> (r: Result<i32, VxParseErr>)
    ensures match r { Ok(x) => spec_parse_i32(t@) == Some(x as int), Err(_) => spec_parse_i32(t@).is_none() }
{ unimplemented!() }
// a word is range-expanded when it has a group AND its bounds fit an i32; a word whose bound does not is left as it is (and alone: the others still expand)
pub open spec fn range_ok(t: Seq<char>) -> bool {
    spec_range_match(t) && spec_parse_i32(spec_range_c1(t)).is_some() && spec_parse_i32(spec_range_c2(t)).is_some()
    && (spec_range_c4(t).is_some() ==> spec_parse_i32(spec_range_c4(t).unwrap()).is_some())
}
pub uninterp spec fn spec_int_str(n: int) -> Seq<char>;
#[verifier::external_body]
pub fn vx_int_to_string(n: i64) -> (r: String) ensures r@ == spec_int_str(n as int) { format!("{}", n) }
// the inclusive arithmetic sequence from a toward b in steps of d >= 1 (property statement)
pub open spec fn arith_len(a: int, b: int, d: int) -> int { if a <= b { (b - a) / d + 1 } else { (a - b) / d + 1 } }
pub open spec fn arith_at(a: int, b: int, d: int, k: int) -> int { if a <= b { a + k * d } else { a - k * d } }

//@FN brace_getitem
//@FN brace_getgroup
//@FN expand_brace
//@FN has_operator_char
//@FN expand_glob
// ---- shared with the other expansion units (common.ASSIGN_PREFIX) ----
pub uninterp spec fn spec_is_assign(t: Seq<char>) -> bool;
#[verifier::external_body]
pub fn is_assignment_word(text: &str) -> (r: bool) ensures r == spec_is_assign(text@) { unimplemented!() }
pub open spec fn assign_prefix(toks: Seq<Token>, k: int) -> bool {
    forall|j: int| 0 <= j <= k && j < toks.len() ==> (#[trigger] toks[j]).0@.len() == 0 && spec_is_assign(toks[j].1@)
}
//@FN in_assignment_prefix
// the words the range pass rewrites: well-formed range, and not one of the assignments the line starts with (their value is text)
pub open spec fn range_gate(toks: Seq<Token>, k: int) -> bool { range_ok(toks[k].1@) && !assign_prefix(toks, k) }
//@FN expand_brace_range
''' + common.TAIL

S = 'src/shell.rs'


def splice_loops(first, outer, inner, buffname='buff', items='items', g='false'):
    """invariants of the shared splice-back code: `for (i, items) in buff.iter().rev() { remove; for (j, token) in items.iter().enumerate() { insert } }`"""
    b = 'bview(%s@)' % buffname
    old = 'tsv(old(tokens)@)'
    n = '%s.len() as int' % old
    _r = {
        outer: Loop(invariant=[
            ('C12+C13.inv.splice.buff_ok', 'buff_ok(%s, %s)' % (b, n)),
            ('C12+C13.inv.splice.outer', 'tsv(tokens@) == %s.take(lo(%s, __i%d as int, %s)) + rest(%s, %s, __i%d as int, GFLAG)' % (old, b, outer, n, old, b, outer)),
        ]),
        inner: Loop(invariant=[
            ('C12+C13.inv.splice.buff_ok2', 'buff_ok(%s, %s) && 0 <= __i%d < %s.len() && *i == %s[__i%d as int].0 && strs(ITEMS@) == %s[__i%d as int].1'
             % (b, n, outer, b, b, outer, b, outer)),
            ('C12+C13.inv.splice.inner',
             'tsv(tokens@) == %s.take(*i as int) + mk_toks(strs(ITEMS@), GFLAG).take(__i%d as int) + (%s.subrange(*i + 1, lo(%s, __i%d + 1, %s)) + rest(%s, %s, __i%d + 1, GFLAG))'
             % (old, inner, old, b, outer, n, old, b, outer)),
        ]),
    }
    for lp in _r.values():
        lp.invariant = [(l, e.replace('ITEMS', items).replace('GFLAG', g)) for l, e in lp.invariant]
    return _r


def splice_hints(outer, inner, buffname='buff', items='items', g='false'):
    b = 'bview(%s@)' % buffname
    old = 'tsv(old(tokens)@)'
    _h = {
        'loop-%d-body-entry' % outer:
            'lemma_tsv_ops(tokens@); lemma_splice_remove(%s, %s, __i%d as int, tsv(tokens@), GFLAG); '
            'assert(%s[__i%d - 1] == ((%s@[__i%d - 1]).0 as int, strs((%s@[__i%d - 1]).1@)));' % (old, b, outer, b, outer, buffname, outer, buffname, outer),
        'loop-%d-body-entry' % inner:
            'lemma_tsv_ops(tokens@); lemma_tsv_ops(old(tokens)@); assert(tsv(old(tokens)@).take(*i as int).len() == *i); '
            'lemma_splice_insert(%s.take(*i as int), mk_toks(strs(ITEMS@), GFLAG), __i%d as int, '
            '%s.subrange(*i + 1, lo(%s, __i%d + 1, %s.len() as int)) + rest(%s, %s, __i%d + 1, GFLAG), tsv(tokens@)); '
            'assert(mk_toks(strs(ITEMS@), GFLAG)[__i%d as int] == mk_tok(ITEMS@[__i%d as int]@, GFLAG)); '
            'assert(%s.take(*i as int).len() + __i%d <= tsv(tokens@).len()); assert(tsv(tokens@).len() == tokens@.len()); '
            'assert(tokens@.len() == tokens.len()); assert(tokens.len() <= usize::MAX); assert(*i + __i%d <= usize::MAX);'
            % (old, inner, old, b, outer, old, old, b, outer, inner, inner, old, inner, inner),
        'loop-%d-exit' % inner:
            'lemma_splice_done(%s, %s, __i%d + 1, tsv(tokens@), GFLAG);' % (old, b, outer),
    }
    return {k: v.replace('ITEMS', items).replace('GFLAG', g) for k, v in _h.items()}


expand_brace = Fn(S, 'expand_brace',
    rewrites=[Rw('types::Tokens', 'Tokens', required=False, rule='R0')],
    requires=[('C05.pre.token_len', 'forall|i: int| 0 <= i < old(tokens)@.len() ==> (#[trigger] old(tokens)@[i]).1@.len() < 0x7fff_fff0')],
    let_types={'buff': 'Vec<(usize, Vec<String>)>'},
    loop_kinds={1: 'value'},
    ensures=[
        ('C12+C13+C01.brace.result_is_splice',
         'exists|b: BV| buff_ok(b, old(tokens)@.len() as int) && tsv(final(tokens)@) == spliced(tsv(old(tokens)@), b, false) '
         # ... and the words put in place of such a word are exactly its specified expansion
         '&& (forall|m: int| 0 <= m < b.len() ==> unq(old(tokens)@[(#[trigger] b[m]).0]) && spec_need_expand_brace(old(tokens)@[b[m].0].1@) '
         '&& b[m].1 == brace_words(old(tokens)@[b[m].0].1@)) '
         '&& (forall|k: int| 0 <= k < old(tokens)@.len() && unq(old(tokens)@[k]) && spec_need_expand_brace(old(tokens)@[k].1@) ==> in_buff(b, k))'),
    ],
    loops={
        0: Loop(invariant=[
            ('C12.inv.brace.idx', 'idx == __i0 && tokens@ == old(tokens)@'),
            ('C05.inv.brace.token_len', 'forall|i: int| 0 <= i < tokens@.len() ==> (#[trigger] tokens@[i]).1@.len() < 0x7fff_fff0'),
            ('C12+C13.inv.brace.buff_ok', 'buff_ok(bview(buff@), __i0 as int)'),
            ('C12+C13+C01.inv.brace.only_unquoted',
             'forall|m: int| 0 <= m < buff@.len() ==> unq(tokens@[(#[trigger] bview(buff@)[m]).0]) && spec_need_expand_brace(tokens@[bview(buff@)[m].0].1@) '
             '&& bview(buff@)[m].1 == brace_words(tokens@[bview(buff@)[m].0].1@)'),
            ('C12.inv.brace.all_found',
             'forall|k: int| 0 <= k < __i0 && unq(tokens@[k]) && spec_need_expand_brace(tokens@[k].1@) ==> in_buff(bview(buff@), k)'),
        ]),
        1: Loop(invariant=[('C12.inv.brace.copy', 'strs(result@) == strs(__v1@).take(__i1 as int)')]),
        **splice_loops(0, 2, 3),
    },
    hints={**splice_hints(2, 3),
           'loop-0-body-entry': 'lemma_bview_push(buff@); lemma_found_push(buff@);',
           'loop-1-body-entry': 'assert(strs(__v1@).take(__i1 + 1) =~= strs(__v1@).take(__i1 as int).push(__v1@[__i1 as int]@));'},
)


def splice_ensures(name, extra_entry, match_pred, g='false'):
    return (name, (
         'exists|b: BV| buff_ok(b, old(tokens)@.len() as int) && tsv(final(tokens)@) == spliced(tsv(old(tokens)@), b, GFLAG) '
         '&& (forall|m: int| 0 <= m < b.len() ==> unq(old(tokens)@[(#[trigger] b[m]).0]) && %s(old(tokens)@[b[m].0].1@) && %s) '
         '&& (forall|k: int| 0 <= k < old(tokens)@.len() && unq(old(tokens)@[k]) && %s(old(tokens)@[k].1@) ==> in_buff(b, k))'
         % (match_pred, extra_entry, match_pred)).replace('GFLAG', g))


def first_loop_inv(prefix, extra_entry, match_pred):
    return [
        ('C12.inv.%s.idx' % prefix, 'idx == __i0 && tokens@ == old(tokens)@'),
        ('C12+C13.inv.%s.buff_ok' % prefix, 'buff_ok(bview(buff@), __i0 as int)'),
        ('C12+C13+C01.inv.%s.only_unquoted' % prefix,
         'forall|m: int| 0 <= m < buff@.len() ==> unq(tokens@[(#[trigger] bview(buff@)[m]).0]) && %s(tokens@[bview(buff@)[m].0].1@) && %s'
         % (match_pred, extra_entry)),
        ('C12.inv.%s.all_found' % prefix,
         'forall|k: int| 0 <= k < __i0 && unq(tokens@[k]) && %s(tokens@[k].1@) ==> in_buff(bview(buff@), k)' % match_pred),
    ]


TYRW = [Rw('types::Tokens', 'Tokens', required=False, rule='R0')]

# ------------------------------------------------------------------ expand_glob
expand_glob = Fn(S, 'expand_glob',
    rewrites=TYRW + [Rw('glob::glob(item)', 'vx_glob(item)', rule='R10',
                        why='glob::glob through an uninterpreted shim: Err for a bad pattern, else the entries in glob order')],
    let_types={'buff': 'Vec<(usize, Vec<String>)>'},
    loop_kinds={1: 'value', (1, 'clone'): 'vx_clone_entry(&{})'},
    ensures=[
        # every word that needs globbing is handled, whatever the other words of the line look like (a malformed pattern stays as it is)
        ('C12+C13+C01.glob.result_is_the_splice',
         splice_ensures('', 'b[m].1.len() > 0', 'spec_needs_globbing', g='true')[1]),
    ],
    loops={
        0: Loop(invariant=first_loop_inv('glob', 'bview(buff@)[m].1.len() > 0', 'spec_needs_globbing')),
        1: Loop(invariant=[
            ('C12.inv.glob.never_vanishes', '!is_empty ==> result@.len() > 0'),
            ('C12.inv.glob.only_visible', 'forall|q: int| 0 <= q < result@.len() ==> from_entries((#[trigger] result@[q])@, __v1@, __i1 as int, show_hidden, item@)'),
            ('C12.inv.glob.all_visible', 'forall|e: int| 0 <= e < __i1 && #[trigger] visible_at(__v1@, e, show_hidden, item@) ==> has_word(result@, entry_path(__v1@[e]))'),
        ]),
        **splice_loops(0, 2, 3, items='result', g='true'),
    },
    hints={**splice_hints(2, 3, items='result', g='true'), 'loop-0-body-entry': 'lemma_bview_push(buff@); lemma_found_push(buff@);',
           'loop-1-body-entry': 'lemma_glob_step(result@, __v1@, __i1 as int, show_hidden, item@);'},
)

# ------------------------------------------------------------------ expand_brace_range
RANGE_RW = TYRW + [
    Rw(r'let re;[\s\S]*?let mut idx: usize = 0;', 'let mut idx: usize = 0;', regex=True, rule='R6',
       why='Regex::new(range pattern) and its error path dropped; is_match/captures go through uninterpreted shims'),
    Rw('re.is_match(token)', 'vx_range_is_match(token)', rule='R6', required=False),
    Rw('re.captures(token)', 'vx_range_captures(token)', rule='R6', why='Regex::captures through a shim: Some iff the pattern matches (std contract); the .unwrap() stays and is proved'),
    Rw(r'caps\[(\d)\]\.to_string\(\)\.parse::<i32>\(\)', r'vx_parse_i32(&caps.c\1)', regex=True, rule='R6',
       why='capture group text parsed with str::parse::<i32> (Ok iff a decimal in range: std contract, uninterpreted value)'),
    Rw('caps.get(4).is_none()', 'caps.c4.is_none()', rule='R6'),
    Rw('token[..caps.get(0).unwrap().start()].to_string()', 'vx_s(&caps.head)', rule='R6',
       why='the word text before the matched group (str slice up to Match::start) through the captures shim'),
    Rw('token[caps.get(0).unwrap().end()..].to_string()', 'vx_s(&caps.tail)', rule='R6',
       why='the word text after the matched group (str slice from Match::end) through the captures shim'),
    Rw('vx_parse_i32(&caps.c4)', 'vx_parse_i32(caps.c4.as_ref().unwrap())', required=False, rule='R6'),
]
expand_brace_range = Fn(S, 'expand_brace_range', pre_rewrites=[], rewrites=[], int_args=('n',), props=('C12',),
    let_types={'buff': 'Vec<(usize, Vec<String>)>'},
    ensures=[
        # every word with a well-formed range is expanded, whatever the other words of the line look like
        ('C12+C13+C01.range.result_is_the_splice',
         splice_ensures('', 'b[m].1.len() > 0', 'range_ok')[1]),
    ],
    loops={
        0: Loop(invariant=first_loop_inv('range', 'bview(buff@)[m].1.len() > 0', 'range_ok')),
        1: Loop(invariant=[
            ('C12.inv.range.desc_bounds', 'incr >= 1 && start > end && n <= start && -0x8000_0000 <= end && start <= 0x7fff_ffff && incr <= 0x7fff_ffff'),
            ('C12.inv.range.desc_seq', 'n as int == start as int - result@.len() * incr as int && '
                                       'forall|k: int| 0 <= k < result@.len() ==> (#[trigger] result@[k])@ == head@ + spec_int_str(start as int - k * incr as int) + tail@'),
        ], decreases='n as int - end as int + incr as int'),
        2: Loop(invariant=[
            ('C12.inv.range.asc_bounds', 'incr >= 1 && start <= end && n >= start && -0x8000_0000 <= start && end <= 0x7fff_ffff && incr <= 0x7fff_ffff'),
            ('C12.inv.range.asc_seq', 'n as int == start as int + result@.len() * incr as int && '
                                      'forall|k: int| 0 <= k < result@.len() ==> (#[trigger] result@[k])@ == head@ + spec_int_str(start as int + k * incr as int) + tail@'),
        ], decreases='end as int - n as int + incr as int'),
        **splice_loops(0, 3, 4),
    },
    hints={**splice_hints(3, 4), 'loop-0-body-entry': 'lemma_bview_push(buff@); lemma_found_push(buff@);',
           'loop-1-body-entry': 'assert((result@.len() + 1) * incr as int == result@.len() * incr as int + incr as int) by(nonlinear_arith);',
           'loop-2-body-entry': 'assert((result@.len() + 1) * incr as int == result@.len() * incr as int + incr as int) by(nonlinear_arith);'},
)
expand_brace_range.pre_rewrites = RANGE_RW


def _gate(txt):
    """range_ok(<seq>[<idx>].1@)  ->  range_gate(<seq>, <idx>): the gate of the range pass depends on the position of the word (assignment prefix)"""
    return re.sub(r'range_ok\(((?:old\(tokens\)|tokens)@)\[(.*?)\]\.1@\)', r'range_gate(\1, \2)', txt)


import re
def _lab(l):
    """the range pass is the one that runs after command substitution: what it leaves alone matters to C11 (braces in an output are text)"""
    props, rest = l.split('.', 1)
    return (props if 'C11' in props.split('+') else props + '+C11') + '.' + rest


expand_brace_range.ensures = [(_lab(l), _gate(e)) for l, e in expand_brace_range.ensures]
expand_brace_range.loops[0].invariant = [(_lab(l), _gate(e)) for l, e in expand_brace_range.loops[0].invariant]

# ------------------------------------------------------------------ recursive brace parser: safety + termination
BRACE_RW = [
    Rw(r'\b(ss|sss)\.remove\(0\)', r'vx_remove0(&mut \1)', regex=True, rule='R12', why='String::remove(0) (first char) through a shim: requires non-empty'),
    Rw(r'\bss\.len\(\)', 'vx_byte_len(&ss)', regex=True, required=False, rule='R12', why='String::len is the byte length'),
]
brace_getitem = Fn(S, 'brace_getitem', ret='r', rewrites=BRACE_RW, props=('C12',),
    requires=[('C05.pre.brace.depth', '0 <= depth && depth as int + s@.len() < 0x7fff_ffff')],
    ensures=[('C05.brace.item.rest_not_longer', 'r.1@.len() <= s@.len()'),
             ('C05.brace.item.stops_at_sep', 'depth > 0 ==> r.1@.len() == 0 || r.1@[0] == \',\' || r.1@[0] == \'}\''),
             # C12: the words are the specified ones, for every word
             ('C12.brace.item.words_are_the_specified_expansion', '(strs(r.0@), r.1@) == sp_item(s@, depth as int, one_empty())')],
    decreases='s@.len(), 0int',
    let_types={'tmp_out': 'Vec<String>', 'result': 'Vec<String>'},
    loops={0: Loop(invariant=[('C05.inv.brace.item', 'ss@.len() <= s@.len() && 0 <= depth && depth as int + s@.len() < 0x7fff_ffff'),
                              # what is left to read, continued from the words built so far, gives the specified result
                              ('C12.inv.brace.item.rest_continues_the_words_so_far', 'sp_item(ss@, depth as int, strs(out@)) == sp_item(s@, depth as int, one_empty())')],
                   decreases='ss@.len()'),
           1: Loop(invariant=[('C12.inv.brace.item.product_outer', 'strs(tmp_out@) == cross(strs(out@).take(__i1 as int), strs(out_group@))')]),
           2: Loop(invariant=[('C12.inv.brace.item.product_inner',
                               '1 <= __i1 <= out@.len() && x@ == strs(out@)[__i1 - 1] && strs(tmp_out@) == cross(strs(out@).take(__i1 - 1), strs(out_group@)) + pre_each(x@, strs(out_group@).take(__i2 as int))')]),
           3: Loop(invariant=[('C12.inv.brace.item.append', 'strs(result@) == app_each(strs(out@).take(__i3 as int), tmp@)')])},
    hints={'after-text:vec![String::new()];': 'assert(strs(out@) =~= one_empty());',
           'loop-0-body-entry': 'RAW: let ghost __ss0 = ss@; let ghost __o0 = strs(out@);',
           'loop-1-body-entry': 'lemma_cross_step(strs(out@), strs(out_group@), __i1 as int); lemma_each_step(strs(out@)[__i1 as int], strs(out_group@), 0);',
           'loop-2-body-entry': 'lemma_each_step(x@, strs(out_group@), __i2 as int); lemma_strs_push(tmp_out@);',
           'loop-2-exit': 'lemma_each_step(x@, strs(out_group@), 0);',
           'loop-1-exit': 'lemma_each_step(Seq::empty(), strs(out@), 0); assert(__ss0.drop_first() == sss@);',
           # a group was read: the words so far are multiplied with its alternatives, reading goes on behind its `}`
           'before-text:continue;': 'assert(sp_item(__ss0, depth as int, __o0) == sp_item(ss@, depth as int, strs(out@)));',
           'loop-3-body-entry': 'lemma_each_step(tmp@, strs(out@), __i3 as int); lemma_strs_push(result@);',
           'loop-3-exit': 'lemma_each_step(tmp@, strs(out@), 0);',
           # one char (or a backslash and the char it keeps) is appended to every word so far
           'after-text:out = result;': 'lemma_quote_bs(); if __ss0.len() >= 2 { assert(__ss0.drop_first().drop_first() =~= __ss0.skip(2)); } '
                                       'assert(sp_item(__ss0, depth as int, __o0) == sp_item(ss@.drop_first(), depth as int, strs(out@)));',
           },
)
brace_getgroup = Fn(S, 'brace_getgroup', ret='r', rewrites=BRACE_RW, props=('C12',),
    requires=[('C05.pre.brace.depth_g', '1 <= depth && depth as int + s@.len() < 0x7fff_ffff')],
    ensures=[('C05.brace.group.rest_not_longer', 'match r { Some(p) => p.1@.len() <= s@.len(), None => true }'),
             ('C12.brace.group.alternatives_are_the_specified_ones',
              'match r { Some(p) => sp_group(s@, depth as int, Seq::empty(), false) == Some((strs(p.0@), p.1@)), None => sp_group(s@, depth as int, Seq::empty(), false).is_none() }')],
    decreases='s@.len(), 1int',
    let_types={'result': 'Vec<String>'},
    loops={0: Loop(invariant=[('C05.inv.brace.group', 'ss@.len() <= s@.len() && 1 <= depth && depth as int + s@.len() < 0x7fff_ffff'),
                              ('C12.inv.brace.group.rest_continues_the_alternatives_so_far',
                               'sp_group(ss@, depth as int, strs(out@), comma) == sp_group(s@, depth as int, Seq::empty(), false)')],
                   # the loop is left (condition or break) only when the text ran out before the group was closed: no group
                   ensures=[('C12.brace.group.loop_left_only_without_a_group', 'sp_group(s@, depth as int, Seq::empty(), false).is_none()')],
                   decreases='ss@.len()'),
           1: Loop(invariant=[('C12.inv.brace.group.collect', 'strs(out@) == __out0 + strs(g@).take(__i1 as int)')]),
           2: Loop(invariant=[('C12.inv.brace.group.wrap', 'strs(result@) == wrap_each(strs(out@).take(__i2 as int))')])},
    hints={'fn-entry': 'lemma_strs_push(Seq::empty());',
           'loop-0-body-entry': 'RAW: let ghost __ss0 = ss@; let ghost __o0 = strs(out@);',
           'before-text:let mut __i1: usize = 0;': 'RAW: let ghost __out0 = strs(out@);',
           'loop-1-body-entry': 'lemma_strs_push(out@); assert(strs(g@).take(__i1 + 1) =~= strs(g@).take(__i1 as int).push(g@[__i1 as int]@));',
           'loop-1-exit': 'assert(strs(g@).take(g@.len() as int) =~= strs(g@));',
           'loop-2-body-entry': 'lemma_quote_bs(); lemma_each_step(Seq::empty(), strs(out@), __i2 as int); lemma_strs_push(result@);',
           'loop-2-exit': 'lemma_each_step(Seq::empty(), strs(out@), 0);',
           },
)

need_brace = Fn(S, 'need_expand_brace', ret='r', props=('C12', 'C05'),
    pre_rewrites=[Rw(r'libs::re::re_contains\(line, r#"[^#]*"#\)', 're_contains(line, vx_brace_ptn())', regex=True, rule='R6', why='the pattern literal through an opaque constant (axiom brace_gates validates the literal itself)'),
                  Rw('tools::nesting_depth(', 'nesting_depth(', rule='R0'), Rw('tools::MAX_NESTING', 'MAX_NESTING', rule='R0')],
    ensures=[('C12.gate.brace.the_pattern_matches_and_the_word_is_within_the_nesting_limit', 'r == spec_need_expand_brace(line@)'),
             ('C05.gate.brace.the_recursive_parser_is_given_only_words_within_the_nesting_limit', "r ==> nest(line@, '{', '}') <= MAX_NESTING as int")])
UNIT = Unit('U-EXP1', TEMPLATE, fns=[common.has_operator_fn(), common.in_assignment_prefix_fn(), need_brace, brace_getitem, brace_getgroup, expand_brace, expand_glob, expand_brace_range], types=[TypeItem('src/tools.rs', 'const', 'MAX_NESTING')], props=('C12', 'C13', 'C01', 'C05'))
TRUSTED = common.TRUSTED_STR + common.TRUSTED_TOKEN + [
    'the machine stack is treated as unbounded: termination (decreases) is proved for the recursive brace parser, the substitution pass and the callers of the calculator, their recursion DEPTH is not; it is bounded by tools::MAX_NESTING (<= 200 required; 1000 levels were measured to fit the 8 MB main stack of a debug build) through the gates need_expand_brace / should_do_dollar_command_extension / run_calculator, which are under contract',
]
