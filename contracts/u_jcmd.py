"""U-JCMD: the `bg` and `fg` builtins (C07): the job that is looked up gets SIGCONT as a whole process group, `bg` marks it running in
the background, `fg` hands it the terminal before waiting for ALL its members and takes the terminal back afterwards."""
from vx.gen import Unit, Fn, TypeItem, Loop, Rw
from . import common

TEMPLATE = common.HEAD + common.STR_SHIMS + common.TOKEN_TYPES + r'''
//@TYPE Command
//@TYPE CommandLine
//@TYPE CommandResult
//@TYPE Job
pub struct Shell { pub jobs: HashMap<i32, Job>, pub previous_status: i32 }
pub const SIGCONT: i32 = 18;

// ghost world: terminal ownership, signals sent to process groups, what the job-control layer was asked to do
pub ghost struct World {
    pub tty_pgrp: int,                      // foreground process group of the terminal
    pub pgrp: int,                          // the shell's own process group
    pub signals: Seq<(int, int)>,           // killpg(gid, sig)
    pub marked_running: Seq<(int, bool)>,   // jobc::mark_job_as_running(gid, bg)
    pub waited: Seq<(int, Seq<i32>)>,       // jobc::wait_fg_job(gid, pids)
    pub target: Option<(int, Seq<i32>)>,    // (gid, pids) of the job the last successful lookup returned
}
pub open spec fn same_but_target(a: World, b: World) -> bool {
    a.tty_pgrp == b.tty_pgrp && a.pgrp == b.pgrp && a.signals == b.signals && a.marked_running == b.marked_running && a.waited == b.waited
}
impl CommandResult {
//@FN CommandResult::new
//@FN CommandResult::error
}
#[verifier::external_body]
pub fn vx_jobs_is_empty(m: &HashMap<i32, Job>) -> (r: bool) { m.is_empty() }
// HashMap::iter().next(): some entry of the table (unspecified which)
#[verifier::external_body]
pub fn vx_jobs_first(m: &HashMap<i32, Job>) -> (r: Option<(&i32, &Job)>) { m.iter().next() }
impl Shell {
    // contracts proved in U-JOBS; here the ghost `target` records which job a successful lookup returned
    #[verifier::external_body]
    pub fn get_job_by_id(&self, job_id: i32, Tracked(w): Tracked<&mut World>) -> (r: Option<&Job>)
        ensures same_but_target(*old(w), *final(w)),
            final(w).target == (match r { Some(j) => Some((j.gid as int, j.pids@)), None => old(w).target })
    { unimplemented!() }
    #[verifier::external_body]
    pub fn get_job_by_gid(&self, gid: i32, Tracked(w): Tracked<&mut World>) -> (r: Option<&Job>)
        ensures same_but_target(*old(w), *final(w)),
            final(w).target == (match r { Some(j) => Some((j.gid as int, j.pids@)), None => old(w).target })
    { unimplemented!() }
}
#[verifier::external_body]
pub fn print_stderr_with_capture(info: &str, cr: &mut CommandResult, cl: &CommandLine, cmd: &Command, capture: bool)
    ensures final(cr).status == old(cr).status
{ unimplemented!() }
#[verifier::external_body]
pub fn killpg(gid: i32, sig: i32, Tracked(w): Tracked<&mut World>) -> (r: i32)
    ensures final(w).signals == old(w).signals.push((gid as int, sig as int)), final(w).tty_pgrp == old(w).tty_pgrp, final(w).pgrp == old(w).pgrp,
        final(w).marked_running == old(w).marked_running, final(w).waited == old(w).waited, final(w).target == old(w).target
{ unimplemented!() }
// contract proved in U-WAIT / U-JOBS (state change of the table); here: that it was asked for, for which group, as background or not
#[verifier::external_body]
pub fn mark_job_as_running(sh: &mut Shell, gid: i32, bg: bool, Tracked(w): Tracked<&mut World>)
    ensures final(w).marked_running == old(w).marked_running.push((gid as int, bg)), final(w).tty_pgrp == old(w).tty_pgrp, final(w).pgrp == old(w).pgrp,
        final(w).signals == old(w).signals, final(w).waited == old(w).waited, final(w).target == old(w).target
{ unimplemented!() }
// C07: while a foreground job is waited for, the terminal belongs to its process group
#[verifier::external_body]
pub fn wait_fg_job(sh: &mut Shell, gid: i32, pids: &Vec<i32>, Tracked(w): Tracked<&mut World>) -> (r: CommandResult)
    requires old(w).tty_pgrp == gid as int
    ensures final(w).waited == old(w).waited.push((gid as int, pids@)), final(w).tty_pgrp == old(w).tty_pgrp, final(w).pgrp == old(w).pgrp,
        final(w).signals == old(w).signals, final(w).marked_running == old(w).marked_running, final(w).target == old(w).target
{ unimplemented!() }
// tcsetpgrp with SIGTTOU blocked: assumed to succeed when the shell names its own group (same assumption as U-PROC)
#[verifier::external_body]
pub fn give_terminal_to(gid: i32, Tracked(w): Tracked<&mut World>) -> (r: bool)
    ensures final(w).tty_pgrp == (if r { gid as int } else { old(w).tty_pgrp }), gid as int == old(w).pgrp ==> r,
        final(w).pgrp == old(w).pgrp, final(w).signals == old(w).signals, final(w).marked_running == old(w).marked_running,
        final(w).waited == old(w).waited, final(w).target == old(w).target
{ unimplemented!() }
#[verifier::external_body]
pub fn vx_getpgid0(Tracked(w): Tracked<&World>) -> (r: i32) ensures r as int == w.pgrp { unimplemented!() }
#[verifier::external_body]
pub fn vx_trim_start_pct(s: &str) -> (r: String) { s.trim_start_matches('%').to_string() }
pub struct VxParseErr { pub e: i32 }
#[verifier::external_body]
pub fn vx_parse_i32(t: &str) -> (r: Result<i32, VxParseErr>) { unimplemented!() }
pub uninterp spec fn spec_int_str(n: int) -> Seq<char>;
#[verifier::external_body]
pub fn vx_int_to_string(n: i64) -> (r: String) ensures r@ == spec_int_str(n as int) { format!("{}", n) }
#[verifier::external_body]
pub fn vx_clone_pids(v: &Vec<i32>) -> (r: Vec<i32>) ensures r@ == v@ { v.clone() }

//@FN bg_run
//@FN fg_run
''' + common.TAIL

RW = [
    Rw(r'\bunsafe\s*\{', '{', regex=True, required=False, rule='R14'),
    Rw('sh.jobs.is_empty()', 'vx_jobs_is_empty(&sh.jobs)', rule='R12'),
    Rw('sh.jobs.iter().next()', 'vx_jobs_first(&sh.jobs)', rule='R12', why='HashMap::iter().next() through a shim: some entry, unspecified which'),
    Rw("job_str.trim_start_matches('%').to_string()", 'vx_trim_start_pct(&job_str)', rule='R12'),
    Rw('job_str.parse::<i32>()', 'vx_parse_i32(&job_str)', rule='R12', why='str::parse::<i32> through a shim (value uninterpreted)'),
    Rw('libc::killpg(', 'killpg(', rule='R8'),
    Rw('libc::SIGCONT', 'SIGCONT', rule='R8'),
    Rw('jobc::mark_job_as_running(', 'mark_job_as_running(', rule='R0'),
    Rw('jobc::wait_fg_job(', 'wait_fg_job(', required=False, rule='R0'),
    Rw('shell::give_terminal_to(', 'give_terminal_to(', required=False, rule='R0'),
    Rw('libc::getpgid(0)', 'vx_getpgid0(Tracked(w))', required=False, rule='R8'),
    Rw('job.pids.clone()', 'vx_clone_pids(&job.pids)', required=False, rule='R7'),
]
GA = {'get_job_by_id': 'Tracked(w)', 'get_job_by_gid': 'Tracked(w)', 'killpg': 'Tracked(w)', 'mark_job_as_running': 'Tracked(w)',
      'wait_fg_job': 'Tracked(w)', 'give_terminal_to': 'Tracked(w)'}
PRE = 'old(w).target.is_none() && forall|i: int| 0 <= i < cmd.tokens@.len() ==> true'

bg_run = Fn('src/builtins/bg.rs', 'run', rename='bg_run', ret='r', pre_rewrites=RW, int_args=('job.id',), add_params='Tracked(w): Tracked<&mut World>', ghost_args=GA,
    requires=[('C07.pre.bg.no_lookup_yet', 'old(w).target.is_none()')],
    ensures=[
        ('C07.bg.the_job_found_is_resumed_as_a_whole_group',
         'match final(w).target { Some(t) => final(w).signals == old(w).signals.push((t.0, SIGCONT as int)), None => final(w).signals == old(w).signals }'),
        ('C07.bg.only_the_job_found_is_marked_running_in_the_background',
         'final(w).marked_running == old(w).marked_running || (final(w).target.is_some() && final(w).marked_running == old(w).marked_running.push((final(w).target.unwrap().0, true)))'),
        ('C07.bg.terminal_untouched', 'final(w).tty_pgrp == old(w).tty_pgrp && final(w).waited == old(w).waited'),
    ])
fg_run = Fn('src/builtins/fg.rs', 'run', rename='fg_run', ret='r', pre_rewrites=RW, int_args=('job.id',), add_params='Tracked(w): Tracked<&mut World>', ghost_args=GA,
    requires=[('C07.pre.fg.shell_owns_terminal', 'old(w).target.is_none() && old(w).tty_pgrp == old(w).pgrp')],
    ensures=[
        ('C07.fg.terminal_is_the_shells_again', 'final(w).tty_pgrp == final(w).pgrp && final(w).pgrp == old(w).pgrp'),
        ('C07.fg.the_job_found_is_resumed_as_a_whole_group_and_all_members_waited_for',
         'final(w).waited == old(w).waited || (final(w).target.is_some() '
         '&& final(w).signals == old(w).signals.push((final(w).target.unwrap().0, SIGCONT as int)) '
         '&& final(w).marked_running == old(w).marked_running.push((final(w).target.unwrap().0, false)) '
         '&& final(w).waited == old(w).waited.push(final(w).target.unwrap()))'),
        ('C07.fg.nothing_is_signalled_without_a_job', 'final(w).target.is_none() ==> final(w).signals == old(w).signals && final(w).waited == old(w).waited'),
    ])

UNIT = Unit('U-JCMD', TEMPLATE,
            fns=[bg_run, fg_run, Fn('src/types.rs', 'new', impl='CommandResult'), Fn('src/types.rs', 'error', impl='CommandResult')],
            types=[TypeItem('src/types.rs', 'struct', 'Command'), TypeItem('src/types.rs', 'struct', 'CommandLine'), TypeItem('src/types.rs', 'struct', 'CommandResult'),
                   TypeItem('src/types.rs', 'struct', 'Job')],
            props=('C07', 'C05'))
TRUSTED = common.TRUSTED_STR + [
    'Shell::get_job_by_id / get_job_by_gid, jobc::mark_job_as_running, jobc::wait_fg_job are external here (contracts in U-JOBS / U-WAIT); the ghost world records which job a lookup returned and what was asked of the job-control layer',
    'killpg / tcsetpgrp are kernel calls: that SIGCONT to a process group resumes every stopped member is kernel behaviour; give_terminal_to succeeds for the shell\'s own group (assumed, as in U-PROC)',
    'which job id a `bg` / `fg` argument names (string parsing) is uninterpreted',
]
