"""U-JCMD: the `bg` and `fg` builtins (C07): the job that is looked up gets SIGCONT as a whole process group, `bg` marks it running in
the background, `fg` hands it the terminal before waiting for ALL its members and takes the terminal back afterwards."""
from vx.gen import Unit, Fn, TypeItem, Loop, Rw
from . import common

TEMPLATE = common.HEAD + common.STR_SHIMS + common.TOKEN_TYPES + r'''
//@TYPE Command
//@TYPE CommandLine
//@TYPE CommandResult
//@TYPE Job
pub struct Shell { pub jobs: HashMap<i32, Job>, pub previous_status: i32 }
pub const SIGCONT: i32 = 18;

// ghost world: terminal ownership, signals sent to process groups, what the job-control layer was asked to do
pub ghost struct World {
    pub tty_pgrp: int,                      // foreground process group of the terminal
    pub pgrp: int,                          // the shell's own process group
    pub signals: Seq<(int, int)>,           // killpg(gid, sig)
    pub marked_running: Seq<(int, bool)>,   // jobc::mark_job_as_running(gid, bg)
    pub waited: Seq<(int, Seq<i32>)>,       // jobc::wait_fg_job(gid, pids)
    pub polled: bool,                       // jobc::try_wait_bg_jobs was called: the recorded child events are applied to the table
    pub target: Option<(int, Seq<i32>)>,    // (gid, pids) of the job the last successful lookup returned
}
pub open spec fn same_but_target(a: World, b: World) -> bool {
    a.tty_pgrp == b.tty_pgrp && a.pgrp == b.pgrp && a.signals == b.signals && a.marked_running == b.marked_running && a.waited == b.waited && a.polled == b.polled
}
impl CommandResult {
//@FN CommandResult::new
//@FN CommandResult::error
}
#[verifier::external_body]
pub fn vx_jobs_is_empty(m: &HashMap<i32, Job>) -> (r: bool) { m.is_empty() }
// HashMap::iter().next(): some entry of the table (unspecified which)
#[verifier::external_body]
pub fn vx_jobs_first(m: &HashMap<i32, Job>) -> (r: Option<(&i32, &Job)>) { m.iter().next() }
impl Shell {
    // contracts proved in U-JOBS; here the ghost `target` records which job a successful lookup returned
    #[verifier::external_body]
    pub fn get_job_by_id(&self, job_id: i32, Tracked(w): Tracked<&mut World>) -> (r: Option<&Job>)
        requires old(w).polled,   //@L C06+C07.fg_bg.the_recorded_child_events_are_applied_before_the_job_and_its_members_are_looked_up
        ensures same_but_target(*old(w), *final(w)),
            final(w).target == (match r { Some(j) => Some((j.gid as int, j.pids@)), None => old(w).target })
    { unimplemented!() }
    #[verifier::external_body]
    pub fn get_job_by_gid(&self, gid: i32, Tracked(w): Tracked<&mut World>) -> (r: Option<&Job>)
        requires old(w).polled,   //@L C06+C07.fg_bg.the_recorded_child_events_are_applied_before_the_job_is_looked_up_by_its_group
        ensures same_but_target(*old(w), *final(w)),
            final(w).target == (match r { Some(j) => Some((j.gid as int, j.pids@)), None => old(w).target })
    { unimplemented!() }
}
#[verifier::external_body]
pub fn print_stderr_with_capture(info: &str, cr: &mut CommandResult, cl: &CommandLine, cmd: &Command, capture: bool)
    ensures final(cr).status == old(cr).status
{ unimplemented!() }
#[verifier::external_body]
pub fn killpg(gid: i32, sig: i32, Tracked(w): Tracked<&mut World>) -> (r: i32)
    ensures final(w).signals == old(w).signals.push((gid as int, sig as int)), final(w).tty_pgrp == old(w).tty_pgrp, final(w).pgrp == old(w).pgrp,
        final(w).marked_running == old(w).marked_running, final(w).waited == old(w).waited, final(w).target == old(w).target, final(w).polled == old(w).polled
{ unimplemented!() }
// contract proved in U-WAIT / U-JOBS (state change of the table); here: that it was asked for, for which group, as background or not
#[verifier::external_body]
pub fn mark_job_as_running(sh: &mut Shell, gid: i32, bg: bool, Tracked(w): Tracked<&mut World>)
    ensures final(w).marked_running == old(w).marked_running.push((gid as int, bg)), final(w).tty_pgrp == old(w).tty_pgrp, final(w).pgrp == old(w).pgrp,
        final(w).signals == old(w).signals, final(w).waited == old(w).waited, final(w).target == old(w).target, final(w).polled == old(w).polled
{ unimplemented!() }
// C07: while a foreground job is waited for, the terminal belongs to its process group
#[verifier::external_body]
pub fn wait_fg_job(sh: &mut Shell, gid: i32, pids: &Vec<i32>, Tracked(w): Tracked<&mut World>) -> (r: CommandResult)
    requires old(w).tty_pgrp == gid as int
    ensures final(w).waited == old(w).waited.push((gid as int, pids@)), final(w).tty_pgrp == old(w).tty_pgrp, final(w).pgrp == old(w).pgrp,
        final(w).signals == old(w).signals, final(w).marked_running == old(w).marked_running, final(w).target == old(w).target, final(w).polled == old(w).polled
{ unimplemented!() }
// tcsetpgrp with SIGTTOU blocked: assumed to succeed when the shell names its own group (same assumption as U-PROC)
#[verifier::external_body]
pub fn give_terminal_to(gid: i32, Tracked(w): Tracked<&mut World>) -> (r: bool)
    ensures final(w).tty_pgrp == (if r { gid as int } else { old(w).tty_pgrp }), gid as int == old(w).pgrp ==> r,
        final(w).pgrp == old(w).pgrp, final(w).signals == old(w).signals, final(w).marked_running == old(w).marked_running,
        final(w).waited == old(w).waited, final(w).target == old(w).target, final(w).polled == old(w).polled
{ unimplemented!() }
#[verifier::external_body]
pub fn vx_getpgid0(Tracked(w): Tracked<&World>) -> (r: i32) ensures r as int == w.pgrp { unimplemented!() }
#[verifier::external_body]
pub fn vx_trim_start_pct(s: &str) -> (r: String) { s.trim_start_matches('%').to_string() }
pub struct VxParseErr { pub e: i32 }
#[verifier::external_body]
pub fn vx_parse_i32(t: &str) -> (r: Result<i32, VxParseErr>) { unimplemented!() }
pub uninterp spec fn spec_int_str(n: int) -> Seq<char>;
#[verifier::external_body]
pub fn vx_int_to_string(n: i64) -> (r: String) ensures r@ == spec_int_str(n as int) { format!("{}", n) }
#[verifier::external_body]
pub fn vx_clone_pids(v: &Vec<i32>) -> (r: Vec<i32>) ensures r@ == v@ { v.clone() }

// jobc::try_wait_bg_jobs as fg / bg call it (repair a606469): whatever child events were recorded since the last prompt are applied to the table (contract in U-WAIT: any change of sh.jobs)
#[verifier::external_body]
pub fn try_wait_bg_jobs_w(sh: &mut Shell, report: bool, sig_handler: bool, Tracked(w): Tracked<&mut World>)
    ensures final(w).polled, final(w).tty_pgrp == old(w).tty_pgrp, final(w).pgrp == old(w).pgrp, final(w).signals == old(w).signals, final(w).marked_running == old(w).marked_running,
        final(w).waited == old(w).waited, final(w).target == old(w).target
{ unimplemented!() }
// ---- the `jobs` builtin (C06 / C07): what is listed is the table as it is AFTER the poll the builtin itself makes ----
pub ghost struct ListLog { pub polled: bool, pub printed: Seq<Seq<char>> }
// jobc::try_wait_bg_jobs: applies whatever child events are pending to the table (contracts in U-WAIT): any change of sh.jobs
#[verifier::external_body]
pub fn try_wait_bg_jobs(sh: &mut Shell, report: bool, sig_handler: bool, Tracked(ll): Tracked<&mut ListLog>)
    ensures final(ll).polled, final(ll).printed == old(ll).printed
{ unimplemented!() }
#[verifier::external_body]
pub fn vx_clone_jobs(m: &HashMap<i32, Job>) -> (r: HashMap<i32, Job>) ensures r@ == m@ { unimplemented!() }
// HashMap iteration through a snapshot: every entry once, unspecified order
#[verifier::external_body]
pub fn vx_job_values(m: &HashMap<i32, Job>) -> (r: Vec<Job>)
    ensures r@.len() == m@.dom().len(), forall|i: int| 0 <= i < r@.len() ==> m@.contains_key((#[trigger] r@[i]).id) && m@[r@[i].id] == r@[i]
{ unimplemented!() }
pub uninterp spec fn spec_job_line(j: Job, trim: bool) -> Seq<char>;
// ---- jobc::get_job_line (repair dcb6472): the command text is shortened at a character boundary (C05: String::truncate panics anywhere else) ----
pub uninterp spec fn spec_byte_len(s: Seq<char>) -> int;
pub uninterp spec fn spec_is_boundary(s: Seq<char>, n: int) -> bool;
#[verifier::external_body]
pub fn vx_byte_len(s: &String) -> (r: usize) ensures r as int == spec_byte_len(s@) { s.len() }
// str::is_char_boundary: index 0 and the length are boundaries (std)
#[verifier::external_body]
pub fn vx_is_char_boundary(s: &String, n: usize) -> (r: bool) ensures r == spec_is_boundary(s@, n as int), n == 0 ==> r { s.is_char_boundary(n) }
#[verifier::external_body]
pub fn vx_truncate(s: &mut String, n: usize)
    requires spec_is_boundary(old(s)@, n as int) && n as int <= spec_byte_len(old(s)@),   //@L C05+C07.job_line.the_command_text_is_cut_at_a_character_boundary
{ s.truncate(n) }
#[verifier::external_body]
pub fn vx_push_dots(s: &mut String) { s.push_str(" ..."); }
#[verifier::external_body]
pub fn vx_job_line_text(id: i32, gid: i32, status: &String, cmd: &String, amp: bool) -> (r: String) { unimplemented!() }
//@FN get_job_line_real
#[verifier::external_body]
pub fn get_job_line(job: &Job, trim: bool) -> (r: String) ensures r@ == spec_job_line(*job, trim) { unimplemented!() }
pub uninterp spec fn spec_join_nl(v: Seq<Seq<char>>) -> Seq<char>;
pub open spec fn strs(v: Seq<String>) -> Seq<Seq<char>> { v.map_values(|s: String| s@) }
#[verifier::external_body]
pub fn vx_join_nl(v: &Vec<String>) -> (r: String) ensures r@ == spec_join_nl(strs(v@)) { v.join("\n") }
#[verifier::external_body]
pub fn print_stdout_with_capture(info: &str, cr: &mut CommandResult, cl: &CommandLine, cmd: &Command, capture: bool, Tracked(ll): Tracked<&mut ListLog>)
    ensures final(ll).printed == old(ll).printed.push(info@), final(ll).polled == old(ll).polled
{ unimplemented!() }
// the lines are the job lines of the jobs `js`, which are jobs of the table `m`, one per job of the table
pub open spec fn lines_of_w(m: Map<i32, Job>, ls: Seq<Seq<char>>, trim: bool, js: Seq<Job>) -> bool {
    ls.len() == m.dom().len() && js.len() == ls.len()
    && forall|i: int| 0 <= i < ls.len() ==> m.contains_key((#[trigger] js[i]).id) && m[js[i].id] == js[i] && ls[i] == spec_job_line(js[i], trim)
}
pub open spec fn lines_of(m: Map<i32, Job>, ls: Seq<Seq<char>>, trim: bool) -> bool { exists|js: Seq<Job>| lines_of_w(m, ls, trim, js) }
pub open spec fn wants_trim(cmd: Command) -> bool { !(cmd.tokens@.len() >= 2 && cmd.tokens@[1].1@ == "-f"@) }
//@FN jobs_run
//@FN bg_run
//@FN fg_run
''' + common.TAIL

RW = [
    Rw(r'\bunsafe\s*\{', '{', regex=True, required=False, rule='R14'),
    Rw('sh.jobs.is_empty()', 'vx_jobs_is_empty(&sh.jobs)', rule='R12'),
    Rw('sh.jobs.iter().next()', 'vx_jobs_first(&sh.jobs)', rule='R12', why='HashMap::iter().next() through a shim: some entry, unspecified which'),
    Rw("job_str.trim_start_matches('%').to_string()", 'vx_trim_start_pct(&job_str)', rule='R12'),
    Rw('job_str.parse::<i32>()', 'vx_parse_i32(&job_str)', rule='R12', why='str::parse::<i32> through a shim (value uninterpreted)'),
    Rw('libc::killpg(', 'killpg(', rule='R8'),
    Rw('libc::SIGCONT', 'SIGCONT', rule='R8'),
    Rw('jobc::mark_job_as_running(', 'mark_job_as_running(', rule='R0'),
    Rw('jobc::wait_fg_job(', 'wait_fg_job(', required=False, rule='R0'),
    Rw('shell::give_terminal_to(', 'give_terminal_to(', required=False, rule='R0'),
    Rw('libc::getpgid(0)', 'vx_getpgid0(Tracked(w))', required=False, rule='R8'),
    Rw('job.pids.clone()', 'vx_clone_pids(&job.pids)', required=False, rule='R7'),
    Rw('jobc::try_wait_bg_jobs(', 'try_wait_bg_jobs_w(', required=False, rule='R0'),
]
GA = {'get_job_by_id': 'Tracked(w)', 'get_job_by_gid': 'Tracked(w)', 'killpg': 'Tracked(w)', 'mark_job_as_running': 'Tracked(w)',
      'wait_fg_job': 'Tracked(w)', 'give_terminal_to': 'Tracked(w)', 'try_wait_bg_jobs_w': 'Tracked(w)'}
PRE = 'old(w).target.is_none() && forall|i: int| 0 <= i < cmd.tokens@.len() ==> true'

bg_run = Fn('src/builtins/bg.rs', 'run', rename='bg_run', ret='r', pre_rewrites=RW, int_args=('job.id',), add_params='Tracked(w): Tracked<&mut World>', ghost_args=GA,
    requires=[('C07.pre.bg.no_lookup_yet', 'old(w).target.is_none() && !old(w).polled')],
    ensures=[
        ('C07.bg.the_job_found_is_resumed_as_a_whole_group',
         'match final(w).target { Some(t) => final(w).signals == old(w).signals.push((t.0, SIGCONT as int)), None => final(w).signals == old(w).signals }'),
        ('C07.bg.only_the_job_found_is_marked_running_in_the_background',
         'final(w).marked_running == old(w).marked_running || (final(w).target.is_some() && final(w).marked_running == old(w).marked_running.push((final(w).target.unwrap().0, true)))'),
        ('C07.bg.terminal_untouched', 'final(w).tty_pgrp == old(w).tty_pgrp && final(w).waited == old(w).waited'),
    ])
fg_run = Fn('src/builtins/fg.rs', 'run', rename='fg_run', ret='r', pre_rewrites=RW, int_args=('job.id',), add_params='Tracked(w): Tracked<&mut World>', ghost_args=GA,
    requires=[('C07.pre.fg.shell_owns_terminal', 'old(w).target.is_none() && old(w).tty_pgrp == old(w).pgrp && !old(w).polled')],
    ensures=[
        ('C07.fg.terminal_is_the_shells_again', 'final(w).tty_pgrp == final(w).pgrp && final(w).pgrp == old(w).pgrp'),
        ('C06+C07.fg.the_job_found_is_resumed_as_a_whole_group_and_all_members_waited_for',
         'final(w).waited == old(w).waited || (final(w).target.is_some() '
         '&& final(w).signals == old(w).signals.push((final(w).target.unwrap().0, SIGCONT as int)) '
         '&& final(w).marked_running == old(w).marked_running.push((final(w).target.unwrap().0, false)) '
         '&& final(w).waited == old(w).waited.push(final(w).target.unwrap()))'),
        ('C07.fg.nothing_is_signalled_without_a_job', 'final(w).target.is_none() ==> final(w).signals == old(w).signals && final(w).waited == old(w).waited'),
    ])

jobs_run = Fn('src/builtins/jobs.rs', 'run', rename='jobs_run', ret='r',
    pre_rewrites=[Rw(r'\b(sh\.jobs|jobs)\.is_empty\(\)', r'vx_jobs_is_empty(&\1)', regex=True, rule='R12'),
                  Rw('jobc::try_wait_bg_jobs(', 'try_wait_bg_jobs(', rule='R0'),
                  Rw('sh.jobs.clone()', 'vx_clone_jobs(&sh.jobs)', rule='R7', why='HashMap clone: the same table'),
                  Rw('for (_i, job) in jobs.iter() {', 'let __jv = vx_job_values(&jobs); for job in __jv.iter() {', rule='R12', why='HashMap iteration through a snapshot shim: every entry once, unspecified order'),
                  Rw('jobc::get_job_line(', 'get_job_line(', rule='R0'),
                  Rw('lines.join("\\n")', 'vx_join_nl(&lines)', rule='R12')],
    add_params='Tracked(ll): Tracked<&mut ListLog>', ghost_args={'try_wait_bg_jobs': 'Tracked(ll)', 'print_stdout_with_capture': 'Tracked(ll)'},
    let_types={'lines': 'Vec<String>'},
    requires=[('C06+C07.pre.jobs.fresh_log', '!old(ll).polled && old(ll).printed.len() == 0')],
    ensures=[
        # what `jobs` prints is taken from the table as it is after the builtin's own poll: one line per job of THAT table
        ('C06+C07.jobs.the_listing_is_taken_after_the_poll',
         'final(ll).printed.len() <= 1 && (final(ll).printed.len() == 1 ==> final(ll).polled && exists|ls: Seq<Seq<char>>| final(ll).printed[0] == spec_join_nl(ls) && lines_of(final(sh).jobs@, ls, wants_trim(*cmd)))'),
    ],
    loops={0: Loop(invariant=[('C06+C07.inv.jobs.lines_of_the_snapshot',
        'll.polled && ll.printed.len() == 0 && jobs@ == sh.jobs@ && __jv@.len() == jobs@.dom().len() && lines@.len() == __i0 '
        '&& (forall|i: int| 0 <= i < __jv@.len() ==> jobs@.contains_key((#[trigger] __jv@[i]).id) && jobs@[__jv@[i].id] == __jv@[i]) '
        '&& forall|i: int| 0 <= i < lines@.len() ==> (#[trigger] lines@[i])@ == spec_job_line(__jv@[i], !no_trim)')])},
    hints={'after-call:print_stdout_with_capture': 'assert(ll.printed.len() == 1 && ll.printed[0] == spec_join_nl(strs(lines@)) && lines_of(sh.jobs@, strs(lines@), wants_trim(*cmd)));',
           'before-call:vx_join_nl': 'assert(strs(lines@).len() == lines@.len()); assert(no_trim == !wants_trim(*cmd)); '
           'assert forall|i: int| 0 <= i < lines@.len() implies sh.jobs@.contains_key((#[trigger] __jv@[i]).id) && sh.jobs@[__jv@[i].id] == __jv@[i] && strs(lines@)[i] == spec_job_line(__jv@[i], wants_trim(*cmd)) by { assert(strs(lines@)[i] == lines@[i]@); } '
           'assert(lines_of_w(sh.jobs@, strs(lines@), wants_trim(*cmd), __jv@));'},
)
job_line = Fn('src/jobc.rs', 'get_job_line', rename='get_job_line_real', ret='r', props=('C05', 'C07'),
    pre_rewrites=[Rw('types::Job', 'Job', rule='R0'),
                  Rw('cmd.len() > 50', 'vx_byte_len(&cmd) > 50', rule='R12', why='String::len (bytes) through a shim'),
                  Rw('!cmd.is_char_boundary(end)', '!vx_is_char_boundary(&cmd, end)', rule='R12', required=False, why='str::is_char_boundary through a shim (0 is a boundary)'),
                  Rw(r'cmd\.truncate\(([^)]*)\);', r'vx_truncate(&mut cmd, \1);', regex=True, rule='R12', why='String::truncate through a shim that REQUIRES a character boundary'),
                  Rw('cmd.push_str(" ...");', 'vx_push_dots(&mut cmd);', rule='R12'),
                  Rw(r'let _cmd = if job\.is_bg && job\.status == "Running" \{[\s\S]*?\};\s*(/\*@L\d+\*/\s*)*format!\("\[\{\}\] \{\}  \{\}   \{\}", job\.id, job\.gid, job\.status, _cmd\)',
                     'vx_job_line_text(job.id, job.gid, &job.status, &cmd, job.is_bg && vx_streq(&job.status, &"Running"))', regex=True, rule='R4', why='the text of the line (format!): opaque')],
    loops={0: Loop(invariant=[('C05.inv.job_line.cut', 'end <= 50 && spec_byte_len(cmd@) > 50')], decreases='end')},
)
UNIT = Unit('U-JCMD', TEMPLATE,
            fns=[job_line, jobs_run, bg_run, fg_run, Fn('src/types.rs', 'new', impl='CommandResult'), Fn('src/types.rs', 'error', impl='CommandResult')],
            types=[TypeItem('src/types.rs', 'struct', 'Command'), TypeItem('src/types.rs', 'struct', 'CommandLine'), TypeItem('src/types.rs', 'struct', 'CommandResult'),
                   TypeItem('src/types.rs', 'struct', 'Job')],
            props=('C07', 'C06', 'C05'))
TRUSTED = common.TRUSTED_STR + [
    'Shell::get_job_by_id / get_job_by_gid, jobc::mark_job_as_running, jobc::wait_fg_job are external here (contracts in U-JOBS / U-WAIT); the ghost world records which job a lookup returned and what was asked of the job-control layer',
    'killpg / tcsetpgrp are kernel calls: that SIGCONT to a process group resumes every stopped member is kernel behaviour; give_terminal_to succeeds for the shell\'s own group (assumed, as in U-PROC)',
    'which job id a `bg` / `fg` argument names (string parsing) is uninterpreted',
]
