"""U-BFD: how builtins obtain their output descriptors (builtins/utils.rs) over the same ghost kernel as U-FD (C08, C04)."""
from vx.gen import Unit, Fn, TypeItem, Loop, Rw
from . import common
from .u_fd import KERNEL

TEMPLATE = common.HEAD + common.STR_SHIMS + common.TOKEN_TYPES + KERNEL + r'''
//@TYPE Command
//@TYPE CommandLine
//@TYPE CommandResult
impl CommandLine {
    #[verifier::external_body]
    pub fn with_pipeline(&self) -> (r: bool) ensures r == (self.commands@.len() > 1) { unimplemented!() }
}
#[verifier::external_body]
pub fn vx_slice_from(v: &[Redirection], a: usize) -> (r: &[Redirection])
    requires a <= v@.len()
    ensures r@ == v@.subrange(a as int, v@.len() as int)
{ unimplemented!() }
#[verifier::external_body]
pub fn vx_print_dup_error() { unimplemented!() }
#[verifier::external_body]
pub fn vx_trim_end_nl(s: &str) -> (r: &str) { unimplemented!() }
#[verifier::external_body]
pub fn vx_str_bytes(s: &str) -> (r: &[u8]) { unimplemented!() }

#[verifier::external_body]
pub fn vx_unwrap_or(o: Option<RawFd>, d: RawFd) -> (r: RawFd) ensures r == (match o { Some(x) => x, None => d }) { o.unwrap_or(d) }
// the descriptor N>&M copies: what 2 (resp. 1) refers to now -- the one set by an earlier redirection of this command, else the shell's own
pub open spec fn bfd_src(target: Seq<char>, fd_out: Option<RawFd>, fd_err: Option<RawFd>) -> int {
    if target == "&2"@ { match fd_err { Some(y) => y as int, None => 2 } } else { match fd_out { Some(x) => x as int, None => 1 } }
}
pub open spec fn opt_is(o: Option<RawFd>, fd: int) -> bool { match o { Some(x) => x as int == fd, None => false } }
// the table after the call: what was open before, plus exactly the descriptors handed back
pub open spec fn only_returned_opened(f0: Map<int, Obj>, f1: Map<int, Obj>, a: Option<RawFd>, b: Option<RawFd>) -> bool {
    &&& forall|fd: int| #[trigger] f1.contains_key(fd) <==> (f0.contains_key(fd) || (fd >= 0 && (opt_is(a, fd) || opt_is(b, fd))))
    &&& forall|fd: int| f0.contains_key(fd) ==> #[trigger] f1[fd] == f0[fd]
    &&& (match a { Some(x) => x == -1 || (x >= 0 && !f0.contains_key(x as int)), None => true })
    &&& (match b { Some(x) => x == -1 || (x >= 0 && !f0.contains_key(x as int)), None => true })
    &&& (match (a, b) { (Some(x), Some(y)) => x != y || x == -1, _ => true })
}

//@FN _get_std_fds
//@FN _get_dupped_stdout_fd
//@FN _get_dupped_stderr_fd
//@FN print_stdout
//@FN print_stderr
// ---- where what a CAPTURED builtin writes to descriptor 1 / 2 ends up (C04 for builtins, C11): the redirections of the command applied from left to right to
// the pair (captured stdout, captured stderr); N>&M copies M as it stands at that point, anything else sends the descriptor away from the capture ----
//@TYPE Sink
pub open spec fn sink_step(st: (Sink, Sink), item: Redirection) -> (Sink, Sink) {
    let to = if item.2@ == "&1"@ { st.0 } else if item.2@ == "&2"@ { st.1 } else { Sink::Elsewhere };
    if item.0@ == "1"@ { (to, st.1) } else if item.0@ == "2"@ { (st.0, to) } else { st }
}
pub open spec fn sinks(redirs: Seq<Redirection>, n: int) -> (Sink, Sink)
    decreases n
{
    if n <= 0 { (Sink::Out, Sink::Err) } else { sink_step(sinks(redirs, n - 1), redirs[n - 1]) }
}
pub open spec fn sink_of(cmd: Command, fd: Seq<char>) -> Sink {
    if fd == "1"@ { sinks(cmd.redirects_to@, cmd.redirects_to@.len() as int).0 } else { sinks(cmd.redirects_to@, cmd.redirects_to@.len() as int).1 }
}
//@FN captured_sink
//@FN print_stderr_with_capture
//@FN print_stdout_with_capture
''' + common.TAIL

U = 'src/builtins/utils.rs'
RW = [
    Rw(r'\bunsafe\s*\{', '{', regex=True, required=False, rule='R14', why='unsafe marker removed; the operations inside are shims'),
    Rw(r'libc::dup\(', 'dup(', regex=True, required=False, rule='R8'),
    Rw(r'libc::close\(', 'close(', regex=True, required=False, rule='R8'),
    Rw('tools::create_raw_fd_from_file(', 'create_raw_fd_from_file(', required=False, rule='R0'),
    Rw(r'&redirects\[i\s*\+\s*1\.\.\]', 'vx_slice_from(redirects, i + 1)', regex=True, required=False, rule='R12', why='subslice through a shim with its std contract'),
    Rw(r'let eno = errno\(\);', 'vx_print_dup_error();', regex=True, required=False, rule='R3', why='errno() + diagnostic: I/O only'),
    Rw(r'File::from_raw_fd\(', 'vx_file_from_raw_fd(', regex=True, required=False, rule='R8'),
    Rw("let info = info.trim_end_matches('\\n');", 'let info = vx_trim_end_nl(info);', required=False, rule='R12'),
    Rw('info.as_bytes()', 'vx_str_bytes(info)', required=False, rule='R12'),
    Rw('b"\\n"', 'vx_nl_bytes()', required=False, rule='R12'),
]
GA = {'dup': 'Tracked(k)', 'close': 'Tracked(k)', 'create_raw_fd_from_file': 'Tracked(k)', '_get_std_fds': 'Tracked(k)', 'vx_file_from_raw_fd': 'Tracked(k)',
      '_get_dupped_stdout_fd': 'Tracked(k)', '_get_dupped_stderr_fd': 'Tracked(k)'}

get_std_fds = Fn(U, '_get_std_fds', ret='r', pre_rewrites=RW + [
        Rw('fd_err.unwrap_or(2)', 'vx_unwrap_or(fd_err, 2)', required=False, rule='R12', why='Option::unwrap_or through a shim with its std contract'),
        Rw('fd_out.unwrap_or(1)', 'vx_unwrap_or(fd_out, 1)', required=False, rule='R12'),
    ], add_params='Tracked(k): Tracked<&mut Kernel>', ghost_args=GA,
    let_types={'_fd_candidate': 'Option<RawFd>'},
    loop_kinds={0: 'iter'},
    requires=[('C05.pre.bfd.len', '!old(k).fds.contains_key(-1) && redirects@.len() < 0x7fff_ffff')],
    ensures=[
        ('C08+C04.bfd.std_fds_opens_only_what_it_returns', 'only_returned_opened(old(k).fds, final(k).fds, r.0, r.1)'),
        ('C08+C04.bfd.std_fds_frame', 'final(k).child == old(k).child && final(k).forks == old(k).forks && !final(k).fds.contains_key(-1)'),
    ],
    hints={'after-text:fd_out = _fd_candidate;':
           'LABEL:C08+C04.bfd.mid.only_returned_after_stdout_side: assert(only_returned_opened(old(k).fds, k.fds, fd_out, fd_err)); ',
           # C04 for builtins: N>&M takes a copy of what M refers to AT THAT POINT (redirections are applied left to right)
           'after-call:dup':
           'LABEL:C04.bfd.dup_copies_the_descriptor_as_it_stands_at_that_point: '
           'assert(match _fd_candidate { Some(c) => c >= 0 ==> k.fds.contains_key(c as int) && k.fds.contains_key(bfd_src(item.2@, fd_out, fd_err)) '
           '&& k.fds[c as int] == k.fds[bfd_src(item.2@, fd_out, fd_err)], None => true });'},
    loops={0: Loop(invariant=[
        ('C08+C04.inv.bfd.only_returned', '!k.fds.contains_key(-1) && !old(k).fds.contains_key(-1) && only_returned_opened(old(k).fds, k.fds, fd_out, fd_err) && k.child == old(k).child && k.forks == old(k).forks '
         '&& (match fd_out { Some(x) => x >= 0 ==> k.fds.contains_key(x as int), None => true }) && (match fd_err { Some(y) => y >= 0 ==> k.fds.contains_key(y as int), None => true })'),
    ])},
)

stdout_fd = Fn(U, '_get_dupped_stdout_fd', ret='r', pre_rewrites=RW, add_params='Tracked(k): Tracked<&mut Kernel>', ghost_args=GA,
    requires=[('C05.pre.bfd.len2', '!old(k).fds.contains_key(-1) && cmd.redirects_to@.len() < 0x7fff_ffff')],
    ensures=[
        ('C08+C04.bfd.stdout_fd_is_the_only_new_descriptor',
         'if cl.commands@.len() > 1 { r == 1 && final(k).fds == old(k).fds } else { only_returned_opened(old(k).fds, final(k).fds, Some(r), None) }'),
        ('C08+C04.bfd.stdout_fd_frame', 'final(k).child == old(k).child && final(k).forks == old(k).forks'),
    ])
stderr_fd = Fn(U, '_get_dupped_stderr_fd', ret='r', pre_rewrites=RW, add_params='Tracked(k): Tracked<&mut Kernel>', ghost_args=GA,
    requires=[('C05.pre.bfd.len3', '!old(k).fds.contains_key(-1) && cmd.redirects_to@.len() < 0x7fff_ffff')],
    ensures=[
        ('C08+C04.bfd.stderr_fd_is_the_only_new_descriptor',
         'if cl.commands@.len() > 1 { r == 2 && final(k).fds == old(k).fds } else { only_returned_opened(old(k).fds, final(k).fds, Some(r), None) }'),
        ('C08+C04.bfd.stderr_fd_frame', 'final(k).child == old(k).child && final(k).forks == old(k).forks'),
    ])
print_stdout = Fn(U, 'print_stdout', pre_rewrites=RW, add_params='Tracked(k): Tracked<&mut Kernel>', ghost_args=GA, file_drops=True,
    requires=[('C05.pre.bfd.len4', '!old(k).fds.contains_key(-1) && cmd.redirects_to@.len() < 0x7fff_ffff')],
    ensures=[('C08+C04.bfd.printing_leaves_the_shell_table_unchanged', 'cl.commands@.len() <= 1 ==> final(k).fds =~= old(k).fds')])
print_stderr = Fn(U, 'print_stderr', pre_rewrites=RW, add_params='Tracked(k): Tracked<&mut Kernel>', ghost_args=GA, file_drops=True,
    requires=[('C05.pre.bfd.len5', '!old(k).fds.contains_key(-1) && cmd.redirects_to@.len() < 0x7fff_ffff')],
    ensures=[('C08+C04.bfd.printing_errors_leaves_the_shell_table_unchanged', 'cl.commands@.len() <= 1 ==> final(k).fds =~= old(k).fds')])

# C04 for builtins under capture: what the builtin writes goes where the redirections of the command, applied left to right, send that descriptor:
# into the captured stdout, into the captured stderr, or -- when the command line sends it elsewhere -- to that place, uncaptured
captured_sink = Fn(U, 'captured_sink', ret='r', pre_rewrites=RW,
    ensures=[('C04+C11.bfd.sink.redirections_are_applied_left_to_right_to_the_capture_pair', 'r == sink_of(*cmd, fd@)')],
    loops={0: Loop(invariant=[('C04+C11.inv.bfd.sink', '(out, err) == sinks(cmd.redirects_to@, __I as int)')])},
    hints={})
cap_out = Fn(U, 'print_stdout_with_capture', pre_rewrites=RW, add_params='Tracked(k): Tracked<&mut Kernel>', ghost_args=dict(GA, print_stdout='Tracked(k)'),
    requires=[('C05.pre.bfd.len6', '!old(k).fds.contains_key(-1) && cmd.redirects_to@.len() < 0x7fff_ffff')],
    ensures=[('C03+C11.bfd.printing_a_result_sets_status_0_captured_or_not', 'final(cr).status == 0'),
             ('C04+C11.bfd.output_of_a_captured_builtin_goes_where_its_redirections_send_it',
              'if !capture { final(cr).stdout@ == old(cr).stdout@ && final(cr).stderr@ == old(cr).stderr@ } else { match sink_of(*cmd, "1"@) { '
              'Sink::Out => final(cr).stdout@ == info@ && final(cr).stderr@ == old(cr).stderr@ && final(k).fds == old(k).fds, '
              'Sink::Err => final(cr).stderr@ == info@ && final(cr).stdout@ == old(cr).stdout@ && final(k).fds == old(k).fds, '
              'Sink::Elsewhere => final(cr).stdout@ == old(cr).stdout@ && final(cr).stderr@ == old(cr).stderr@ } }')])
cap_err = Fn(U, 'print_stderr_with_capture', pre_rewrites=RW, add_params='Tracked(k): Tracked<&mut Kernel>', ghost_args=dict(GA, print_stderr='Tracked(k)'),
    requires=[('C05.pre.bfd.len7', '!old(k).fds.contains_key(-1) && cmd.redirects_to@.len() < 0x7fff_ffff')],
    ensures=[('C03+C11.bfd.a_failing_builtin_reports_status_1_captured_or_not', 'final(cr).status == 1'),
             ('C04+C11.bfd.error_output_of_a_captured_builtin_goes_where_its_redirections_send_it',
              'if !capture { final(cr).stdout@ == old(cr).stdout@ && final(cr).stderr@ == old(cr).stderr@ } else { match sink_of(*cmd, "2"@) { '
              'Sink::Out => final(cr).stdout@ == info@ && final(cr).stderr@ == old(cr).stderr@ && final(k).fds == old(k).fds, '
              'Sink::Err => final(cr).stderr@ == info@ && final(cr).stdout@ == old(cr).stdout@ && final(k).fds == old(k).fds, '
              'Sink::Elsewhere => final(cr).stdout@ == old(cr).stdout@ && final(cr).stderr@ == old(cr).stderr@ } }')])
UNIT = Unit('U-BFD', TEMPLATE, fns=[get_std_fds, stdout_fd, stderr_fd, print_stdout, print_stderr, captured_sink, cap_err, cap_out],
            types=[TypeItem('src/types.rs', 'struct', 'Command'), TypeItem('src/types.rs', 'struct', 'CommandLine'), TypeItem('src/types.rs', 'struct', 'CommandResult'),
                   TypeItem('src/builtins/utils.rs', 'enum', 'Sink', rewrites=[Rw('enum Sink {', 'pub enum Sink {', rule='R13', why='visibility: the enum is named in the contracts of public functions')], attrs=['#[derive(Clone, Copy)]'])],
            props=('C08', 'C04', 'C05'))
TRUSTED = common.TRUSTED_STR + [
    'POSIX dup/close/open semantics (ghost kernel, same contracts as U-FD); File owns its descriptor and Drop closes it (R9)',
    'that a builtin writes to the object its descriptor refers to is kernel behaviour; an unopenable builtin redirect target being silently ignored is not expressed',
]
