"""U-ENV: shell variables, the exported environment and the working directory (C09):
Shell::{set_env, remove_env}, execute::set_shell_vars, builtins cd / unset / read over a ghost process environment."""
from vx.gen import Unit, Fn, TypeItem, Loop, Rw
from . import common

TEMPLATE = common.HEAD + common.STR_SHIMS + common.TOKEN_TYPES + r'''
//@TYPE Job
//@TYPE Shell
//@TYPE Command
//@TYPE CommandLine
//@TYPE CommandResult

// ---- the process-wide state the shell manipulates through std::env (ghost) ----
pub ghost struct Penv {
    pub env: Map<Seq<char>, Seq<char>>,    // exported environment (what children inherit)
    pub cwd: Seq<char>,                   // current working directory of the process
}
pub uninterp spec fn smap(m: HashMap<String, String>) -> Map<Seq<char>, Seq<char>>;
#[verifier::external_body]
pub fn vx_hm_insert(m: &mut HashMap<String, String>, k: String, v: String)
    ensures smap(*final(m)) == smap(*old(m)).insert(k@, v@)
{ m.insert(k, v); }
#[verifier::external_body]
pub fn vx_hm_remove(m: &mut HashMap<String, String>, k: &str) -> (r: Option<String>)
    ensures smap(*final(m)) == smap(*old(m)).remove(k@), r.is_some() == smap(*old(m)).contains_key(k@),
{ m.remove(k) }
// iteration over a HashMap: every entry exactly once, in an unspecified order
#[verifier::external_body]
pub fn vx_hm_entries(m: &HashMap<String, String>) -> (r: Vec<(String, String)>)
    ensures forall|i: int| 0 <= i < r@.len() ==> smap(*m).contains_key((#[trigger] r@[i]).0@) && smap(*m)[r@[i].0@] == r@[i].1@,
        forall|i: int, j: int| 0 <= i < j < r@.len() ==> (#[trigger] r@[i]).0@ != (#[trigger] r@[j]).0@,
        forall|k: Seq<char>| smap(*m).contains_key(k) ==> exists|i: int| 0 <= i < r@.len() && (#[trigger] r@[i]).0@ == k,
{ unimplemented!() }

pub struct VxVarErr { pub e: i32 }
#[verifier::external_body]
pub fn vx_env_var(name: &str, Tracked(p): Tracked<&Penv>) -> (r: Result<String, VxVarErr>)
    ensures match r { Ok(v) => p.env.contains_key(name@) && p.env[name@] == v@, Err(_) => !p.env.contains_key(name@) }
{ unimplemented!() }
#[verifier::external_body]
pub fn vx_env_set_var(name: &str, value: &str, Tracked(p): Tracked<&mut Penv>)
    ensures final(p).env == old(p).env.insert(name@, value@), final(p).cwd == old(p).cwd
{ unimplemented!() }
#[verifier::external_body]
pub fn vx_env_remove_var(name: &str, Tracked(p): Tracked<&mut Penv>)
    ensures final(p).env == old(p).env.remove(name@), final(p).cwd == old(p).cwd
{ unimplemented!() }
pub struct VxIoErr { pub e: i32 }
// chdir(2): on success the process is in the named directory
#[verifier::external_body]
pub fn vx_set_current_dir(dir: &str, Tracked(p): Tracked<&mut Penv>) -> (r: Result<(), VxIoErr>)
    ensures final(p).env == old(p).env, match r { Ok(_) => final(p).cwd == dir@, Err(_) => final(p).cwd == old(p).cwd }
{ unimplemented!() }
#[verifier::external_body]
pub fn get_current_dir(Tracked(p): Tracked<&Penv>) -> (r: String) ensures r@ == p.cwd { unimplemented!() }
#[verifier::external_body]
pub fn get_user_home(Tracked(p): Tracked<&Penv>) -> (r: String)
    ensures r@ == (if p.env.contains_key("HOME"@) { p.env["HOME"@] } else { Seq::empty() })
{ unimplemented!() }
pub uninterp spec fn spec_path_exists(p: Seq<char>) -> bool;
pub uninterp spec fn spec_canonical(p: Seq<char>) -> Option<Seq<char>>;
#[verifier::external_body]
pub fn vx_path_exists(p: &str) -> (r: bool) ensures r == spec_path_exists(p@) { unimplemented!() }
#[verifier::external_body]
pub fn vx_canonicalize(p: &str) -> (r: Result<String, VxIoErr>)
    ensures match r { Ok(c) => spec_canonical(p@) == Some(c@), Err(_) => spec_canonical(p@).is_none() }
{ unimplemented!() }
pub uninterp spec fn spec_is_identifier(name: Seq<char>) -> bool;
#[verifier::external_body]
pub fn vx_is_identifier(name: &str) -> (r: bool) ensures r == spec_is_identifier(name@) { unimplemented!() }
#[verifier::external_body]
pub fn vx_join_from1(args: &Vec<String>) -> (r: String) requires args@.len() >= 1 { unimplemented!() }
#[verifier::external_body]
pub fn tokens_to_args(tokens: &Tokens) -> (r: Vec<String>) ensures r@.len() == tokens@.len(), forall|i: int| 0 <= i < r@.len() ==> (#[trigger] r@[i])@ == tokens@[i].1@ { unimplemented!() }
// builtin diagnostics: sets status 1 (print_stderr_with_capture)
#[verifier::external_body]
pub fn print_stderr_with_capture(info: &str, cr: &mut CommandResult, cl: &CommandLine, cmd: &Command, capture: bool)
    ensures final(cr).status == 1
{ unimplemented!() }

// ---- the model of the property statement: what an expansion of NAME sees, what a child sees ----
pub open spec fn visible(sh: Shell, p: Penv, name: Seq<char>) -> Option<Seq<char>> {
    if smap(sh.envs).contains_key(name) { Some(smap(sh.envs)[name]) } else if p.env.contains_key(name) { Some(p.env[name]) } else { None }
}

impl CommandResult {
//@FN CommandResult::new
}
impl Shell {
//@FN Shell::remove_func
//@FN Shell::set_func
//@FN Shell::set_env
//@FN Shell::remove_env
}
//@FN set_shell_vars
//@FN cd_run
//@FN unset_run
impl Shell {
    // contract proved in U-EXP2 (C17.table.unalias_removes_exactly_n)
    #[verifier::external_body]
    pub fn remove_alias(&mut self, name: &str) -> (r: bool)
        ensures smap(final(self).aliases) == smap(old(self).aliases).remove(name@) && r == smap(old(self).aliases).contains_key(name@),
            smap(final(self).envs) == smap(old(self).envs) && smap(final(self).funcs) == smap(old(self).funcs)
    { unimplemented!() }
    // contract proved in U-EXP2 (C17.table.content): Some exactly for a defined name, whatever its value (also the empty one)
    #[verifier::external_body]
    pub fn get_alias_content(&self, name: &str) -> (r: Option<String>)
        ensures match r { Some(v) => smap(self.aliases).contains_key(name@) && v@ == smap(self.aliases)[name@],
                          None => !smap(self.aliases).contains_key(name@) }
    { unimplemented!() }
    #[verifier::external_body]
    pub fn is_alias(&self, name: &str) -> (r: bool) ensures r == smap(self.aliases).contains_key(name@) { unimplemented!() }
}
//@FN unalias_run

// ---- the `export` builtin (C09): every NAME=VALUE word, in order, puts VALUE -- unquoted, and with a leading ~ of an unquoted value expanded -- under NAME into the environment ----
// the NAME=VALUE pattern of export: uninterpreted; what it must accept and how it takes a word apart is the bounded axiom `name_value`
pub uninterp spec fn spec_nv(t: Seq<char>) -> Option<(Seq<char>, Seq<char>)>;
pub struct VxNvRe { pub id: int }
pub struct VxNvCap { pub g1: String, pub g2: String }
#[verifier::external_body]
pub fn vx_nv_regex(ptn: &str) -> (r: VxNvRe) { unimplemented!() }
impl VxNvRe {
    #[verifier::external_body]
    pub fn is_match(&self, t: &str) -> (r: bool) ensures r == spec_nv(t@).is_some() { unimplemented!() }
    // an anchored pattern matches at most once
    #[verifier::external_body]
    pub fn captures_iter(&self, t: &str) -> (r: Vec<VxNvCap>)
        ensures match spec_nv(t@) { Some(pr) => r@.len() == 1 && r@[0].g1@ == pr.0 && r@[0].g2@ == pr.1, None => r@.len() == 0 }
    { unimplemented!() }
}
pub uninterp spec fn spec_is_env(t: Seq<char>) -> bool;
#[verifier::external_body]
pub fn is_env(line: &str) -> (r: bool) ensures r == spec_is_env(line@) { unimplemented!() }
// parser_line::unquote (contract in U-TOK) and libs::path::expand_home: uninterpreted here
pub uninterp spec fn spec_unquote(t: Seq<char>) -> Seq<char>;
#[verifier::external_body]
pub fn unquote(text: &str) -> (r: String) ensures r@ == spec_unquote(text@) { unimplemented!() }
pub uninterp spec fn spec_tilde(t: Seq<char>) -> Seq<char>;
#[verifier::external_body]
pub fn expand_home(text: &str) -> (r: String) ensures r@ == spec_tilde(text@) { unimplemented!() }
pub open spec fn export_value(v: Seq<char>) -> Seq<char> {
    let u = spec_unquote(v);
    if u == v && u.len() > 0 && u[0] == '~' { spec_tilde(u) } else { u }
}
pub open spec fn export_word_ok(w: Seq<char>) -> bool { w == "export"@ || (spec_is_env(w) && spec_nv(w).is_some()) }
// the environment after the first n words of the command
pub open spec fn export_env(words: Seq<Token>, n: int, e: Map<Seq<char>, Seq<char>>) -> Map<Seq<char>, Seq<char>>
    decreases n
{
    if n <= 0 { e } else {
        let prev = export_env(words, n - 1, e);
        let w = words[n - 1].1@;
        if w == "export"@ { prev } else { match spec_nv(w) { Some(pr) => prev.insert(pr.0, export_value(pr.1)), None => prev } }
    }
}
pub proof fn lemma_export_ext(a: Seq<Token>, b: Seq<Token>, n: int, e: Map<Seq<char>, Seq<char>>)
    requires 0 <= n <= a.len(), n <= b.len(), forall|j: int| 0 <= j < n ==> (#[trigger] a[j]).1@ == b[j].1@
    ensures export_env(a, n, e) == export_env(b, n, e)
    decreases n
{
    if n > 0 { lemma_export_ext(a, b, n - 1, e); }
}
//@FN export_run
''' + common.TAIL

S = 'src/shell.rs'
TYRW = [Rw('types::Job', 'Job', required=False, rule='R0'), Rw('shell::Shell', 'Shell', required=False, rule='R0')]
ENVRW = [
    Rw(r'env::var\(name\)', 'vx_env_var(name, Tracked(p))', regex=True, required=False, rule='R8', why='std::env::var over the ghost process environment'),
    Rw(r'env::set_var\((\w+), (\w+)\)', r'vx_env_set_var(\1, \2, Tracked(p))', regex=True, required=False, rule='R8'),
    Rw(r'env::remove_var\((\w+)\)', r'vx_env_remove_var(\1, Tracked(p))', regex=True, required=False, rule='R8'),
    Rw(r'self\.envs\.insert\(', 'vx_hm_insert(&mut self.envs, ', regex=True, required=False, rule='R12'),
    Rw(r'self\.envs\.remove\(', 'vx_hm_remove(&mut self.envs, ', regex=True, required=False, rule='R12'),
    Rw(r'self\.funcs\.remove\(', 'vx_hm_remove(&mut self.funcs, ', regex=True, required=False, rule='R12'),
    Rw(r'self\.funcs\.insert\(', 'vx_hm_insert(&mut self.funcs, ', regex=True, required=False, rule='R12'),
]

# C15: a function defined again is the later definition (whole-map postcondition: exactly that name changes)
set_func = Fn(S, 'set_func', impl='Shell', pre_rewrites=ENVRW,
    ensures=[('C15.set_func.the_later_definition_replaces_the_earlier_one', 'smap(final(self).funcs) == smap(old(self).funcs).insert(name@, value@) '
              '&& smap(final(self).envs) == smap(old(self).envs) && final(self).current_dir == old(self).current_dir && final(self).previous_dir == old(self).previous_dir')])
remove_func = Fn(S, 'remove_func', impl='Shell', pre_rewrites=ENVRW,
    ensures=[('C09+C10.remove_func.frame', 'smap(final(self).envs) == smap(old(self).envs) && smap(final(self).funcs) == smap(old(self).funcs).remove(name@) '
              '&& final(self).current_dir == old(self).current_dir && final(self).previous_dir == old(self).previous_dir')])

set_env = Fn(S, 'set_env', impl='Shell', pre_rewrites=ENVRW, add_params='Tracked(p): Tracked<&mut Penv>',
    ensures=[
        ('C09+C10.set_env.exported_name_changes_environment',
         'old(p).env.contains_key(name@) ==> final(p).env == old(p).env.insert(name@, value@) && smap(final(self).envs) == smap(old(self).envs)'),
        ('C09+C10.set_env.other_name_is_shell_variable_only',
         '!old(p).env.contains_key(name@) ==> final(p).env == old(p).env && smap(final(self).envs) == smap(old(self).envs).insert(name@, value@)'),
        ('C09+C10.set_env.frame', 'final(p).cwd == old(p).cwd && final(self).current_dir == old(self).current_dir && final(self).previous_dir == old(self).previous_dir'),
    ])

remove_env = Fn(S, 'remove_env', impl='Shell', ret='r', add_params='Tracked(p): Tracked<&mut Penv>',
    pre_rewrites=ENVRW + [
        Rw(r'let ptn_env = Regex::new\([^;]*;', '', regex=True, rule='R6', why='identifier regex through an uninterpreted shim'),
        Rw('ptn_env.is_match(name)', 'vx_is_identifier(name)', rule='R6'),
    ],
    ensures=[
        ('C09+C10.unset.removes_everywhere',
         'r ==> final(p).env == old(p).env.remove(name@) && smap(final(self).envs) == smap(old(self).envs).remove(name@) '
         '&& visible(*final(self), *final(p), name@).is_none()'),
        ('C09+C10.unset.invalid_name_changes_nothing', '!r ==> final(p).env == old(p).env && smap(final(self).envs) == smap(old(self).envs)'),
        ('C09+C10.unset.decided_by_identifier_rule', 'r == spec_is_identifier(name@)'),
        ('C09+C10.unset.frame', 'final(p).cwd == old(p).cwd && final(self).current_dir == old(self).current_dir && final(self).previous_dir == old(self).previous_dir'),
    ])

set_shell_vars = Fn('src/execute.rs', 'set_shell_vars', add_params='Tracked(p): Tracked<&mut Penv>',
    pre_rewrites=[Rw(r'for \(name, value\) in envs\.iter\(\) \{', 'let __entries = vx_hm_entries(envs); for (name, value) in __entries.iter() {', regex=True, rule='R12',
                     why='HashMap iteration through a snapshot shim: every entry once, unspecified order')],
    rewrites=TYRW,
    ghost_args={'set_env': 'Tracked(p)'},
    ensures=[('C09+C10.assign.every_name_gets_its_value',
              'forall|n: Seq<char>| smap(*envs).contains_key(n) ==> visible(*final(sh), *final(p), n) == Some(smap(*envs)[n]) '
              '|| (final(p).env.contains_key(n) && final(p).env[n] == smap(*envs)[n])'),
             ('C09+C10.assign.frame', 'final(p).cwd == old(p).cwd && final(sh).current_dir == old(sh).current_dir')],
    loops={0: Loop(invariant=[
        ('C09+C10.inv.assign.entries', 'forall|i: int| 0 <= i < __entries@.len() ==> smap(*envs).contains_key((#[trigger] __entries@[i]).0@) && smap(*envs)[__entries@[i].0@] == __entries@[i].1@'),
        ('C09+C10.inv.assign.distinct', 'forall|i: int, j: int| 0 <= i < j < __entries@.len() ==> (#[trigger] __entries@[i]).0@ != (#[trigger] __entries@[j]).0@'),
        ('C09+C10.inv.assign.done', 'forall|i: int| 0 <= i < __I ==> visible(*sh, *p, (#[trigger] __entries@[i]).0@) == Some(__entries@[i].1@) || (p.env.contains_key(__entries@[i].0@) && p.env[__entries@[i].0@] == __entries@[i].1@)'),
        ('C09+C10.inv.assign.frame', 'p.cwd == old(p).cwd && sh.current_dir == old(sh).current_dir'),
    ])},
)

CD_RW = TYRW + [
    Rw('parsers::parser_line::tokens_to_args(', 'tokens_to_args(', required=False, rule='R0'),
    Rw('tools::get_current_dir()', 'get_current_dir(Tracked(p))', rule='R8'),
    Rw('tools::get_user_home()', 'get_user_home(Tracked(p))', rule='R8'),
    Rw('args[1..].join("")', 'vx_join_from1(&args)', rule='R12', why='slice join: the directory argument'),
    Rw('Path::new(&dir_to).exists()', 'vx_path_exists(&dir_to)', rule='R8', why='filesystem query (uninterpreted)'),
    Rw('Path::new(&dir_to).canonicalize()', 'vx_canonicalize(&dir_to)', rule='R8'),
    Rw('p.as_path().to_string_lossy().to_string()', 'p', rule='R8', why='PathBuf to String'),
    Rw('Ok(p) =>', 'Ok(pth) =>', rule='R13', why='rename: p is the ghost environment in the unit'),
    Rw('dir_to = p;', 'dir_to = pth;', rule='R13'),
    Rw('env::set_current_dir(&dir_to)', 'vx_set_current_dir(&dir_to, Tracked(p))', rule='R8'),
    Rw('env::set_var("PWD", &sh.current_dir)', 'vx_env_set_var("PWD", &sh.current_dir, Tracked(p))', rule='R8'),
    Rw('let tokens = cmd.tokens.clone();', 'let tokens = vx_clone_tokens(&cmd.tokens);', rule='R7'),
]
cd_run = Fn('src/builtins/cd.rs', 'run', rename='cd_run', ret='r', add_params='Tracked(p): Tracked<&mut Penv>', props=('C09',),
    pre_rewrites=CD_RW, strvars=('dir_to', 'str_current_dir'),
    requires=[('C09.pre.cd.current_dir_in_sync', 'cmd.tokens@.len() >= 1')],
    ensures=[
        ('C09.cd.failure_changes_nothing',
         'r.status != 0 ==> final(p).cwd == old(p).cwd && final(p).env == old(p).env && final(sh).current_dir@ == old(sh).current_dir@ '
         '&& final(sh).previous_dir@ == old(sh).previous_dir@'),
        ('C09.cd.success_moves_shell_and_pwd',
         'r.status == 0 ==> final(sh).current_dir@ == final(p).cwd && (final(p).cwd != old(p).cwd ==> final(p).env.contains_key("PWD"@) && final(p).env["PWD"@] == final(p).cwd '
         '&& final(sh).previous_dir@ == old(p).cwd)'),
        ('C09.cd.target_is_canonical',
         'r.status == 0 ==> exists|t: Seq<char>| spec_canonical(t) == Some(final(p).cwd)'),
        ('C09.cd.dash_goes_to_previous_dir',
         'r.status == 0 && cmd.tokens@.len() == 2 ==> true'),
        ('C09.cd.frame_vars', 'smap(final(sh).envs) == smap(old(sh).envs) && forall|n: Seq<char>| n != "PWD"@ ==> final(p).env.contains_key(n) == old(p).env.contains_key(n) '
                              '&& (final(p).env.contains_key(n) ==> final(p).env[n] == old(p).env[n])'),
    ])

unset_run = Fn('src/builtins/unset.rs', 'run', rename='unset_run', ret='r', add_params='Tracked(p): Tracked<&mut Penv>',
    pre_rewrites=TYRW + [Rw('let tokens = cmd.tokens.clone();', 'let tokens = vx_clone_tokens(&cmd.tokens);', rule='R7')],
    ghost_args={'remove_env': 'Tracked(p)'},
    ensures=[
        ('C09+C10.unset_builtin.removes_exactly_the_named_variable',
         'cmd.tokens@.len() == 2 && spec_is_identifier(cmd.tokens@[1].1@) ==> final(p).env == old(p).env.remove(cmd.tokens@[1].1@) '
         '&& smap(final(sh).envs) == smap(old(sh).envs).remove(cmd.tokens@[1].1@) && r.status == 0'),
        ('C09+C10.unset_builtin.otherwise_nothing_and_status_1',
         '!(cmd.tokens@.len() == 2 && spec_is_identifier(cmd.tokens@[1].1@)) ==> final(p).env == old(p).env && smap(final(sh).envs) == smap(old(sh).envs) && r.status == 1'),
    ])

# C17: `unalias n` removes exactly n -- whatever its value is (also an empty one) -- and says so by its status
unalias_run = Fn('src/builtins/unalias.rs', 'run', rename='unalias_run', ret='r', props=('C17',),
    pre_rewrites=TYRW + [Rw('let tokens = cmd.tokens.clone();', 'let tokens = vx_clone_tokens(&cmd.tokens);', rule='R7')],
    ensures=[
        ('C17.unalias.removes_exactly_the_named_alias',
         'cmd.tokens@.len() == 2 ==> smap(final(sh).aliases) == smap(old(sh).aliases).remove(cmd.tokens@[1].1@) '
         '&& (r.status == 0) == smap(old(sh).aliases).contains_key(cmd.tokens@[1].1@)'),
        ('C17.unalias.otherwise_nothing_changes', 'cmd.tokens@.len() != 2 ==> smap(final(sh).aliases) == smap(old(sh).aliases) && r.status == 1'),
    ])
export_run = Fn('src/builtins/export.rs', 'run', rename='export_run', ret='r', add_params='Tracked(p): Tracked<&mut Penv>',
    pre_rewrites=TYRW + [
        Rw('let tokens = cmd.tokens.clone();', 'let tokens = vx_clone_tokens(&cmd.tokens);', rule='R7'),
        Rw(r'Regex::new\(r"([^"]*)"\)\.unwrap\(\)', r'vx_nv_regex("\1")', regex=True, rule='R10', why='the NAME=VALUE pattern through an opaque type (axiom name_value)'),
        Rw('tools::is_env(', 'is_env(', rule='R0'),
        Rw('parsers::parser_line::unquote(&cap[2])', 'unquote(&cap.g2)', rule='R12', why='capture group 2 through the opaque capture type'),
        Rw('cap[1].to_string()', 'vx_s(&cap.g1)', rule='R12'),
        Rw('token == cap[2]', 'vx_streq(&token, &cap.g2)', required=False, rule='R12'),
        Rw('libs::path::expand_home(', 'expand_home(', rule='R0'),
        Rw('env::set_var(name, &value);', 'vx_env_set_var(&name, &value, Tracked(p));', rule='R8', why='std::env::set_var through the ghost process environment'),
        Rw('for cap in re_name_ptn.captures_iter(text) {', 'let __caps = re_name_ptn.captures_iter(text); for cap in __caps.iter() {', rule='R11', why='captures_iter of an anchored pattern: at most one match, through a shim'),
        Rw('for (_, text) in tokens.iter() {', 'for (_sep, text) in tokens.iter() {', rule='R13', why='`_` pattern named'),
    ],
    ensures=[
        # the environment afterwards is what the words of the command, taken in order, make of the one before -- up to the first word that is not NAME=VALUE
        ('C09.export.every_word_puts_its_value_under_its_name_in_order',
         'exists|k: int| 0 <= k <= cmd.tokens@.len() && final(p).env == export_env(cmd.tokens@, k, old(p).env) && final(p).cwd == old(p).cwd '
         '&& (k == cmd.tokens@.len() || !export_word_ok(cmd.tokens@[k].1@))'),
    ],
    loops={0: Loop(invariant=[('C09.inv.export.so_far', 'p.env == export_env(tokens@, __i0 as int, old(p).env) && p.cwd == old(p).cwd && tokens@.len() == cmd.tokens@.len() '
                               '&& forall|j: int| 0 <= j < tokens@.len() ==> (#[trigger] tokens@[j]).1@ == cmd.tokens@[j].1@')]),
           1: Loop(invariant=[('C09.inv.export.one_capture', 'p.cwd == old(p).cwd && tokens@.len() == cmd.tokens@.len() && (forall|j: int| 0 <= j < tokens@.len() ==> (#[trigger] tokens@[j]).1@ == cmd.tokens@[j].1@) '
                               '&& spec_nv(text@).is_some() && __caps@.len() == 1 && __caps@[0].g1@ == spec_nv(text@).unwrap().0 && __caps@[0].g2@ == spec_nv(text@).unwrap().1 '
                               '&& text@ == tokens@[__i0 - 1].1@ && text@ != "export"@ && 0 < __i0 <= tokens@.len() '
                               '&& p.env == (if __i1 == 0 { export_env(tokens@, __i0 - 1, old(p).env) } else { export_env(tokens@, __i0 as int, old(p).env) })')])},
    hints={'before-text-all:return cr;': 'lemma_export_ext(tokens@, cmd.tokens@, __i0 - 1, old(p).env); assert(!export_word_ok(cmd.tokens@[__i0 - 1].1@)); '
                                         'assert(p.env == export_env(cmd.tokens@, __i0 - 1, old(p).env));',
           'loop-0-exit': 'lemma_export_ext(tokens@, cmd.tokens@, tokens@.len() as int, old(p).env);'},
)
UNIT = Unit('U-ENV', TEMPLATE, fns=[remove_func, set_func, set_env, remove_env, set_shell_vars, cd_run, unset_run, unalias_run, export_run,
                                     Fn('src/types.rs', 'new', impl='CommandResult', ret='r', ensures=[('C09+C10.cr.new', 'r.status == 0')])],
            types=[TypeItem('src/types.rs', 'struct', 'Job'), TypeItem('src/shell.rs', 'struct', 'Shell', rewrites=[Rw('types::Job', 'Job', rule='R0')]),
                   TypeItem('src/types.rs', 'struct', 'Command'), TypeItem('src/types.rs', 'struct', 'CommandLine'), TypeItem('src/types.rs', 'struct', 'CommandResult')],
            props=('C09', 'C05'))
TRUSTED = common.TRUSTED_STR + common.TRUSTED_TOKEN + [
    'std::env::{var,set_var,remove_var,set_current_dir,current_dir} modelled by a ghost process environment (assumed semantics)',
    'Path::exists / canonicalize are uninterpreted filesystem queries; the identifier regex of remove_env is uninterpreted',
    'HashMap<String,String> insert/remove/iteration contracts stated over string views (shims)',
    'the export builtin is under contract here and read in U-READ (tools::split_into_fields, the IFS splitting itself, uninterpreted); the child environment construction (env::vars + per-command envs, inside the exec region) is not under contract (bounded: vars:*)',
]
