"""U-PLAN: command planning after expansion: pipe splitting, stdin-redirect extraction, output redirections,
background marker. Every pass must consult the quote tag (C01, C13), build well-formed commands (C05), and
turn redirection spellings into the right triples (C04)."""
from vx.gen import Unit, Fn, TypeItem, Loop, Rw
from . import common

TEMPLATE = common.HEAD + common.STR_SHIMS + common.TOKEN_TYPES + r'''
//@TYPE LineInfo
//@TYPE Command
//@TYPE CommandLine

pub struct Shell { pub previous_status: i32 }

pub open spec fn unq(t: Token) -> bool { t.0@.len() == 0 }
pub open spec fn is_pipe(t: Token) -> bool { unq(t) && t.1@ == "|"@ }
pub open spec fn is_lt(t: Token) -> bool { unq(t) && (t.1@ == "<"@ || t.1@ == "<<<"@) }
// an unquoted word that begins with `<`: the operator itself, or the operator glued to its operand (`<file`, `<<<word`)
// an unquoted word with a `<` in it: the words the input-redirection pass may take apart (`cat<file`, `<file`, `<<<word`, `<`)
pub open spec fn lt_like(t: Token) -> bool { unq(t) && t.1@.contains('<') }
pub open spec fn tv(t: Token) -> (Seq<char>, Seq<char>) { tok_view(t) }
pub open spec fn tsv(v: Seq<Token>) -> Seq<(Seq<char>, Seq<char>)> { toks_view(v) }
pub open spec fn pipe_tv() -> (Seq<char>, Seq<char>) { (Seq::<char>::empty(), "|"@) }

// inverse of the split: segments joined by one unquoted pipe token
pub open spec fn join_pipes(cmds: Seq<Seq<(Seq<char>, Seq<char>)>>) -> Seq<(Seq<char>, Seq<char>)>
    decreases cmds.len()
{
    if cmds.len() == 0 { Seq::empty() }
    else if cmds.len() == 1 { cmds[0] }
    else { join_pipes(cmds.drop_last()) + seq![pipe_tv()] + cmds.last() }
}
pub open spec fn cmds_view(v: Seq<Tokens>) -> Seq<Seq<(Seq<char>, Seq<char>)>> { v.map_values(|c: Tokens| tsv(c@)) }

pub proof fn lemma_split_step(tokens: Seq<Token>, i: int, cs: Seq<Tokens>, c: Seq<Token>)
    requires 0 <= i < tokens.len(),
        join_pipes(cmds_view(cs).push(tsv(c))) == tsv(tokens.take(i)),
    ensures
        // a non-pipe token extends the current segment
        forall|t: Token| tv(t) == tv(tokens[i]) ==> join_pipes(cmds_view(cs).push(#[trigger] tsv(c.push(t)))) == tsv(tokens.take(i + 1)),
        // an unquoted pipe token closes the segment and opens an empty one
        is_pipe(tokens[i]) ==> forall|x: Tokens| tsv(x@) == tsv(c) ==>
            join_pipes((#[trigger] cmds_view(cs.push(x))).push(tsv(Seq::<Token>::empty()))) == tsv(tokens.take(i + 1)),
{
    assert(tokens.take(i + 1) =~= tokens.take(i).push(tokens[i]));
    assert(tsv(tokens.take(i).push(tokens[i])) =~= tsv(tokens.take(i)).push(tv(tokens[i])));
    let v = cmds_view(cs);
    let b = v.push(tsv(c));
    assert forall|t: Token| tv(t) == tv(tokens[i]) implies join_pipes(cmds_view(cs).push(#[trigger] tsv(c.push(t)))) == tsv(tokens.take(i + 1)) by {
        assert(tsv(c.push(t)) =~= tsv(c).push(tv(tokens[i])));
        let a = v.push(tsv(c).push(tv(tokens[i])));
        assert(a.drop_last() =~= v && b.drop_last() =~= v);
        assert(join_pipes(a) =~= join_pipes(b) + seq![tv(tokens[i])]);
        assert(join_pipes(b) + seq![tv(tokens[i])] =~= tsv(tokens.take(i)).push(tv(tokens[i])));
    }
    if is_pipe(tokens[i]) {
        assert(tokens[i].0@ =~= Seq::<char>::empty());
        assert(tv(tokens[i]) == pipe_tv());
        assert forall|x: Tokens| tsv(x@) == tsv(c) implies
            join_pipes((#[trigger] cmds_view(cs.push(x))).push(tsv(Seq::<Token>::empty()))) == tsv(tokens.take(i + 1)) by {
            assert(cmds_view(cs.push(x)) =~= v.push(tsv(x@)));
            assert(tsv(Seq::<Token>::empty()) =~= Seq::<(Seq<char>, Seq<char>)>::empty());
            let d = b.push(Seq::empty());
            assert(d.drop_last() =~= b);
            assert(join_pipes(d) =~= join_pipes(b) + seq![pipe_tv()]);
            assert(join_pipes(b) + seq![pipe_tv()] =~= tsv(tokens.take(i)).push(pipe_tv()));
        }
    }
}

pub proof fn lemma_take_push(tokens: Seq<Token>, i: int)
    requires 0 <= i < tokens.len(),
    ensures tokens.take(i + 1) == tokens.take(i).push(tokens[i]),
        forall|s: Seq<Token>, t: Token| tsv(s) == tsv(tokens.take(i)) && tv(t) == tv(tokens[i]) ==> #[trigger] tsv(s.push(t)) == tsv(tokens.take(i + 1)),
        tsv(tokens.take(tokens.len() as int)) == tsv(tokens),
{
    assert(tokens.take(i + 1) =~= tokens.take(i).push(tokens[i]));
    assert forall|s: Seq<Token>, t: Token| tsv(s) == tsv(tokens.take(i)) && tv(t) == tv(tokens[i]) implies #[trigger] tsv(s.push(t)) == tsv(tokens.take(i + 1)) by {
        assert(s.len() == tsv(s).len());
        assert(tsv(s.push(t)) =~= tsv(s).push(tv(t)));
        assert(tsv(tokens.take(i).push(tokens[i])) =~= tsv(tokens.take(i)).push(tv(tokens[i])));
    }
    assert(tokens.take(tokens.len() as int) =~= tokens);
}

// token lists with equal views agree on every tag/text predicate
pub proof fn lemma_tsv_props(a: Seq<Token>, b: Seq<Token>)
    ensures tsv(a) == tsv(b) ==> a.len() == b.len()
        && (forall|i: int| 0 <= i < a.len() ==> tv(#[trigger] a[i]) == tv(b[i]))
        && (forall|i: int| 0 <= i < a.len() ==> is_lt(#[trigger] a[i]) == is_lt(b[i]) && lt_like(a[i]) == lt_like(b[i]) && gt_free(a[i]) == gt_free(b[i]) && is_pipe(a[i]) == is_pipe(b[i]) && unq(a[i]) == unq(b[i]))
        && plain_args(a) == plain_args(b),
{
    if tsv(a) == tsv(b) {
        assert(a.len() == tsv(a).len() && b.len() == tsv(b).len());
        assert forall|i: int| 0 <= i < a.len() implies tv(#[trigger] a[i]) == tv(b[i]) by {
            assert(tsv(a)[i] == tv(a[i]) && tsv(b)[i] == tv(b[i]));
        }
        assert forall|i: int| 0 <= i < a.len() implies is_lt(#[trigger] a[i]) == is_lt(b[i]) && lt_like(a[i]) == lt_like(b[i]) && gt_free(a[i]) == gt_free(b[i]) && is_pipe(a[i]) == is_pipe(b[i]) && unq(a[i]) == unq(b[i]) by {
            assert(tv(a[i]) == tv(b[i]));
        }
        if plain_args(a) { assert forall|i: int| 0 <= i < b.len() implies !lt_like(#[trigger] b[i]) && gt_free(b[i]) by { assert(lt_like(a[i]) == lt_like(b[i])); } }
        if plain_args(b) { assert forall|i: int| 0 <= i < a.len() implies !lt_like(#[trigger] a[i]) && gt_free(a[i]) by { assert(lt_like(a[i]) == lt_like(b[i])); } }
    }
}

// a pipe-free token list has exactly one stage: itself
pub proof fn lemma_join_single(cs: Seq<Seq<(Seq<char>, Seq<char>)>>, toks: Seq<Token>)
    requires cs.len() > 0, join_pipes(cs) == tsv(toks), forall|i: int| 0 <= i < toks.len() ==> !is_pipe(#[trigger] toks[i]),
    ensures cs.len() == 1, cs[0] == tsv(toks),
{
    if cs.len() >= 2 {
        let a = join_pipes(cs.drop_last());
        let k = a.len() as int;
        let j = a + seq![pipe_tv()] + cs.last();
        assert(join_pipes(cs) == j);
        assert((a + seq![pipe_tv()])[k] == pipe_tv());
        assert(j[k] == pipe_tv());
        assert(k < tsv(toks).len() && toks.len() == tsv(toks).len());
        assert(tsv(toks)[k] == tv(toks[k]));
        assert(toks[k].0@.len() == 0);
        assert(is_pipe(toks[k]));
    }
}

#[verifier::external_body]
pub fn vx_opt_token_kind(o: &Option<Token>) -> (r: String)
    requires o.is_some()
    ensures r@ == o.unwrap().0@
{ o.clone().unwrap().0 }

// ---- externals -----------------------------------------------------------------------------------
pub uninterp spec fn spec_re_contains(t: Seq<char>, p: Seq<char>) -> bool;
#[verifier::external_body]
pub fn re_contains(text: &str, ptn: &str) -> (r: bool) ensures r == spec_re_contains(text@, ptn@) { unimplemented!() }
// validated on every run against the real regex crate (see axioms.py): the pattern `>` is substring search for '>'
pub broadcast axiom fn axiom_re_gt(t: Seq<char>)
    ensures #[trigger] spec_re_contains(t, ">"@) == t.contains('>');

#[verifier::external_body]
pub fn parse_line(line: &str) -> (r: LineInfo) { unimplemented!() }
#[verifier::external_body]
pub fn do_expansion(sh: &mut Shell, tokens: &mut Tokens) { unimplemented!() }
// ghost record of the token list that planning starts from (after expansion and NAME=VALUE draining)
pub ghost struct PlanTrace { pub planned: Seq<Token> }
// ---- what is taken off the line as assignments before operators are looked for (C13): the untagged NAME=value words the line STARTS with,
// one after the other, and nothing else. The pattern is the one in the code; that it means "starts with NAME=" is validated by axcheck (assign_ptn).
pub open spec fn drain_ptn() -> Seq<char> { "(?s)^([a-zA-Z0-9_]+)=(.*)$"@ }
pub open spec fn is_assign_tok(t: Token) -> bool { unq(t) && spec_re_contains(t.1@, drain_ptn()) }
pub open spec fn drained(o: Seq<Token>, n: Seq<Token>) -> bool {
    exists|k: int| 0 <= k <= o.len() && n == o.skip(k) && (forall|j: int| 0 <= j < k ==> is_assign_tok(#[trigger] o[j])) && (k < o.len() ==> !is_assign_tok(o[k]))
}
// used by from_line: the contract below is the one proved for the real function text (//@FN drain_env_tokens_real, same clause), plus the ghost record
#[verifier::external_body]
pub fn drain_env_tokens(tokens: &mut Tokens, Tracked(tr): Tracked<&mut PlanTrace>) -> (r: HashMap<String, String>)
    ensures final(tr).planned == final(tokens)@, drained(old(tokens)@, final(tokens)@),
{ unimplemented!() }
pub struct VxRe { pub id: i32 }
#[verifier::external_body]
pub fn vx_regex_new(ptn: &str) -> (r: VxRe) { unimplemented!() }
// the captures loop of drain_env_tokens: name := group 1, value := unquote(group 2), inserted into the map (regex captures: outside Verus)
#[verifier::external_body]
pub fn vx_collect_assignment(re: &VxRe, text: &str, envs: &mut HashMap<String, String>) { unimplemented!() }
#[verifier::external_body]
pub fn vx_drain_front(tokens: &mut Tokens, n: usize)
    requires n <= old(tokens)@.len()
    ensures final(tokens)@ == old(tokens)@.skip(n as int)
{ tokens.drain(0..n); }
pub open spec fn gt_free(t: Token) -> bool { !unq(t) || !t.1@.contains('>') }
pub open spec fn verbatim_hyp(planned: Seq<Token>) -> bool {
    plain_args(planned) && planned.len() > 0 && (forall|i: int| 0 <= i < planned.len() ==> !is_pipe(#[trigger] planned[i]))
    && !(unq(planned.last()) && planned.last().1@ == "&"@)
}
pub open spec fn plain_args(v: Seq<Token>) -> bool {
    forall|i: int| 0 <= i < v.len() ==> !lt_like(#[trigger] v[i]) && gt_free(v[i])
}
#[verifier::external_body]
pub fn is_builtin(s: &str) -> bool { unimplemented!() }

// closures of from_tokens through shims carrying the std contracts of Iterator::any / position
#[verifier::external_body]
pub fn vx_any_lt(v: &Tokens, tagged: bool) -> (r: bool)
    ensures r == exists|i: int| 0 <= i < v@.len() && ((!tagged || unq(#[trigger] v@[i])) && (v@[i].1@ == "<"@ || v@[i].1@ == "<<<"@))
{ unimplemented!() }
pub open spec fn lt_at(v: Seq<Token>, i: int, tagged: bool) -> bool { (!tagged || unq(v[i])) && (v[i].1@ == "<"@ || v[i].1@ == "<<<"@) }
#[verifier::external_body]
pub fn vx_find_lt(text: &String) -> (r: Option<usize>) ensures r.is_some() == text@.contains('<') { text.find('<') }
#[verifier::external_body]
pub fn vx_str_from(text: &String, pos: usize) -> (r: &str) { unimplemented!() }
#[verifier::external_body]
pub fn vx_str_to(text: &String, pos: usize) -> (r: String) { unimplemented!() }
#[verifier::external_body]
pub fn vx_str_after(rest: &str, op: &str) -> (r: String) { unimplemented!() }
#[verifier::external_body]
pub fn vx_longer(rest: &str, op: &str) -> (r: bool) { rest.len() > op.len() }
#[verifier::external_body]
pub fn vx_position_lt(v: &Tokens, tagged: bool) -> (r: Option<usize>)
    ensures match r {
        Some(i) => i < v@.len() && lt_at(v@, i as int, tagged) && forall|j: int| 0 <= j < i ==> !#[trigger] lt_at(v@, j, tagged),
        None => forall|j: int| 0 <= j < v@.len() ==> !#[trigger] lt_at(v@, j, tagged),
    }
{ unimplemented!() }
#[verifier::external_body]
pub fn vx_position_text(v: &Tokens, a: &str, tagged: bool) -> (r: Option<usize>)
    ensures match r {
        Some(i) => i < v@.len() && (!tagged || unq(v@[i as int])) && v@[i as int].1@ == a@
                   && forall|j: int| 0 <= j < i ==> !((!tagged || unq(#[trigger] v@[j])) && v@[j].1@ == a@),
        None => forall|j: int| 0 <= j < v@.len() ==> !((!tagged || unq(#[trigger] v@[j])) && v@[j].1@ == a@),
    }
{ unimplemented!() }

#[verifier::external_body]
pub fn vx_skip_bytes(s: &str, n: usize) -> (r: String) { s[n..].to_string() }
#[verifier::external_body]
pub fn vx_byte_len_str(s: &str) -> (r: usize) ensures r >= s@.len() { s.len() }
#[verifier::external_body]
pub fn vx_clone_string(s: &String) -> (r: String) ensures r@ == s@ { s.clone() }
// regex captures of tokens_to_redirections (ptn1 / ptn2): left uninterpreted
pub struct VxCaps { pub s1: String, pub s2: String, pub s3: String }
#[verifier::external_body]
pub fn vx_captures(ptn: &str, word: &str) -> (r: Option<VxCaps>) { unimplemented!() }
// groups 1 (what is glued in front of the operator) and 2 (the operator) of ptn2, the "target is the next word" form
pub uninterp spec fn spec_cap2(word: Seq<char>, k: int) -> Seq<char>;
#[verifier::external_body]
pub fn vx_captures2(ptn: &str, word: &str) -> (r: Option<VxCaps>)
    ensures r.is_some() ==> r.unwrap().s1@ == spec_cap2(word@, 1) && r.unwrap().s2@ == spec_cap2(word@, 2)
{ unimplemented!() }

//@FN split_tokens_by_pipes
//@FN tokens_to_redirections
//@FN split_glued_input_redirections
//@FN drain_env_tokens_real
impl Command {
//@FN Command::from_tokens
//@FN Command::has_redirect_from
//@FN Command::has_here_string
//@FN Command::is_builtin
}
impl CommandLine {
//@FN CommandLine::from_line
//@FN CommandLine::is_empty
//@FN CommandLine::with_pipeline
//@FN CommandLine::is_single_and_builtin
}
''' + common.TAIL

T = 'src/types.rs'
P = 'src/parsers/parser_line.rs'

split_tokens_by_pipes = Fn(T, 'split_tokens_by_pipes', ret='r',
    let_types={'cmd': 'Tokens', 'cmds': 'Vec<Tokens>'},
    clone_shims={'cmd': 'vx_clone_tokens', 'token': 'vx_clone_token'},
    ensures=[
        ('C01+C02+C13.split.join_inverse', 'r@.len() > 0 ==> join_pipes(cmds_view(r@)) == tsv(tokens@)'),
        ('C01+C13.split.only_unquoted_pipes_split',
         'forall|i: int, j: int| 0 <= i < r@.len() && 0 <= j < r@[i]@.len() ==> !is_pipe(#[trigger] r@[i]@[j])'),
        ('C05.split.stages_nonempty', 'forall|i: int| 0 <= i < r@.len() ==> (#[trigger] r@[i])@.len() > 0'),
        ('C02.split.empty_only_if_empty_stage',
         'r@.len() == 0 ==> tokens@.len() == 0 || exists|i: int| 0 <= i < tokens@.len() && is_pipe(#[trigger] tokens@[i])'
         ' && (i == 0 || i == tokens@.len() - 1 || is_pipe(tokens@[i - 1]))'),
    ],
    loops={0: Loop(invariant=[
        ('C01.inv.split.join', 'join_pipes(cmds_view(cmds@).push(tsv(cmd@))) == tsv(tokens@.take(__i0 as int))'),
        ('C01.inv.split.nopipe', 'forall|i: int, j: int| 0 <= i < cmds@.len() && 0 <= j < cmds@[i]@.len() ==> !is_pipe(#[trigger] cmds@[i]@[j])'),
        ('C01.inv.split.nopipe_cur', 'forall|j: int| 0 <= j < cmd@.len() ==> !is_pipe(#[trigger] cmd@[j])'),
        ('C05.inv.split.nonempty', 'forall|i: int| 0 <= i < cmds@.len() ==> (#[trigger] cmds@[i])@.len() > 0'),
        ('C02.inv.split.lastpipe', 'cmd@.len() == 0 ==> (__i0 == 0 || is_pipe(tokens@[__i0 - 1]))'),
    ])},
    hints={'loop-0-body-entry': 'lemma_split_step(tokens@, __i0 as int, cmds@, cmd@);',
           'loop-0-exit': 'assert(tokens@.take(tokens@.len() as int) == tokens@); '
                          'assert forall|x: Tokens| #[trigger] cmds_view(cmds@.push(x)) == cmds_view(cmds@).push(tsv(x@)) by '
                          '{ assert(cmds_view(cmds@.push(x)) =~= cmds_view(cmds@).push(tsv(x@))); }'},
)

CAPS = [
    Rw(r'let re;[\s\S]*?if let Some\(caps\) = re\.captures\(word\) \{', 'if let Some(caps) = vx_captures(ptn1, word) {', regex=True, count=1, rule='R6',
       why='Regex::new(ptn1) + captures(word) through an uninterpreted shim; the Regex::new error path is dropped'),
    Rw(r'let re;[\s\S]*?if let Some\(caps\) = re\.captures\(word\) \{', 'if let Some(caps) = vx_captures2(ptn2, word) {', regex=True, count=1, rule='R6',
       why='Regex::new(ptn2) + captures(word) through an uninterpreted shim'),
    Rw(r'caps\.get\((\d)\)\.unwrap\(\)\.as_str\(\)', r'&caps.s\1', regex=True, rule='R6',
       why='capture group k as a field of the shim result (groups 1..3 of ptn1/ptn2 always participate: assumed)'),
]

tokens_to_redirections = Fn(P, 'tokens_to_redirections', ret='r', pre_rewrites=CAPS,
    let_types={'tokens_new': 'Tokens', 'redirects': 'Vec<Redirection>'},
    clone_shims={'token': 'vx_clone_token'},
    strvars=('s1', 's3', 'to_be_continued_s1'),
    ensures=[
        ('C01+C13.redir.quoted_or_gt_free_kept',
         '(forall|i: int| 0 <= i < tokens@.len() ==> gt_free(#[trigger] tokens@[i])) ==> '
         '(match r { Ok(p) => tsv(p.0@) == tsv(tokens@) && p.1@.len() == 0, Err(_) => false })'),
        ('C04.redir.fd_is_1_or_2',
         'match r { Ok(p) => forall|k: int| 0 <= k < p.1@.len() ==> (#[trigger] p.1@[k]).0@ == "1"@ || p.1@[k].0@ == "2"@, Err(_) => true }'),
    ],
    loops={0: Loop(invariant=[
        ('C01.inv.redir.kept', '(forall|i: int| 0 <= i < tokens@.len() ==> gt_free(#[trigger] tokens@[i])) ==> '
                               '!to_be_continued && tsv(tokens_new@) == tsv(tokens@.take(__i0 as int)) && redirects@.len() == 0'),
        ('C04.inv.redir.fd', 'forall|k: int| 0 <= k < redirects@.len() ==> (#[trigger] redirects@[k]).0@ == "1"@ || redirects@[k].0@ == "2"@'),
        # an operator whose target is the next word: the descriptor digits and the operator kept for that word are the ones
        # glued to THIS operator (not left over from an earlier redirection of the command)
        ('C04.inv.redir.pending_operator_is_the_previous_word',
         'to_be_continued ==> 0 < __i0 && to_be_continued_s1@ == spec_cap2(tokens@[__i0 - 1].1@, 1) && to_be_continued_s2@ == spec_cap2(tokens@[__i0 - 1].1@, 2)'),
    ])},
    hints={'loop-0-body-entry': 'lemma_take_push(tokens@, __i0 as int); broadcast use axiom_re_gt;'},
)

ANY = [
    Rw(r'tokens_new\.iter\(\)\.any\(\|x\| x\.1 == "<" \|\| x\.1 == "<<<"\)', 'vx_any_lt(&tokens_new, false)', regex=True, required=False, rule='R12',
       why='Iterator::any closure through a shim with the std contract'),
    Rw(r'tokens_new\.iter\(\)\.any\(\|x\| x\.0\.is_empty\(\) && \(x\.1 == "<" \|\| x\.1 == "<<<"\)\)', 'vx_any_lt(&tokens_new, true)', regex=True, required=False, rule='R12',
       why='Iterator::any closure (tag-checking form) through a shim with the std contract'),
    Rw(r'tokens_new\.iter\(\)\.position\(\|x\| x\.0\.is_empty\(\) && \(x\.1 == "<" \|\| x\.1 == "<<<"\)\)', 'vx_position_lt(&tokens_new, true)', regex=True, required=False, rule='R12',
       why='Iterator::position closure (first `<` or `<<<`, tag-checking form) through a shim with the std contract'),
    Rw(r'tokens_new\.iter\(\)\.position\(\|x\| x\.1 == "<" \|\| x\.1 == "<<<"\)', 'vx_position_lt(&tokens_new, false)', regex=True, required=False, rule='R12',
       why='Iterator::position closure (first `<` or `<<<`) through a shim with the std contract'),
    Rw(r'tokens_new\.iter\(\)\.position\(\|x\| x\.1 == ("<+")\)', r'vx_position_text(&tokens_new, \1, false)', regex=True, required=False, rule='R12',
       why='Iterator::position closure through a shim with the std contract'),
    Rw(r'tokens_new\.iter\(\)\.position\(\|x\| x\.0\.is_empty\(\) && x\.1 == ("<+")\)', r'vx_position_text(&tokens_new, \1, true)', regex=True, required=False, rule='R12',
       why='Iterator::position closure (tag-checking form) through a shim with the std contract'),
]

# `<file` / `<<<word`: the operator glued to its operand is taken apart first; words that are quoted, or do not begin with `<`, are left alone
split_glued = Fn(T, 'split_glued_input_redirections', ret='r',
    pre_rewrites=[Rw("text.find('<')", 'vx_find_lt(text)', rule='R12', why="str::find('<') through a shim: Some iff the text contains the char (std contract); the position is a byte offset"),
                  Rw('&text[pos..]', 'vx_str_from(text, pos)', rule='R12', why='byte slices of the word through shims (texts uninterpreted)'),
                  Rw('text[..pos].to_string()', 'vx_str_to(text, pos)', rule='R12'),
                  Rw('rest[op.len()..].to_string()', 'vx_str_after(rest, op)', rule='R12'),
                  Rw('rest.len() > op.len()', 'vx_longer(rest, op)', rule='R12', why='byte lengths')],
    let_types={'result': 'Tokens'},
    clone_shims={'sep': 'vx_clone_string', 'text': 'vx_clone_string'},
    ensures=[('C04+C01+C13.split_glued.words_without_an_unquoted_lt_are_untouched',
              '(forall|i: int| 0 <= i < tokens@.len() ==> !lt_like(#[trigger] tokens@[i])) ==> tsv(r@) == tsv(tokens@)')],
    loops={0: Loop(invariant=[('C04+C01+C13.inv.split_glued.prefix',
                               '(forall|i: int| 0 <= i < tokens@.len() ==> !lt_like(#[trigger] tokens@[i])) ==> tsv(result@) == tsv(tokens@.take(__I as int))')])},
    hints={'loop-0-body-entry': 'lemma_take_push(tokens@, __I as int); '
                                'assert forall|x: Token| #[trigger] tsv(result@.push(x)) == tsv(result@).push(tv(x)) by { assert(tsv(result@.push(x)) =~= tsv(result@).push(tv(x))); }',
           'loop-0-exit': 'assert(tokens@.take(tokens@.len() as int) == tokens@);'},
)

from_tokens = Fn(T, 'from_tokens', impl='Command', ret='r', pre_rewrites=ANY,
    let_types={'tokens_final': 'Tokens', 'redirects_to': 'Vec<Redirection>'},
    ensures=[
        ('C01+C13+C04+C11.from_tokens.quoted_lt_is_data',
         '(forall|i: int| 0 <= i < tokens@.len() ==> !lt_like(#[trigger] tokens@[i])) ==> (match r { Ok(c) => c.redirect_from.is_none(), Err(_) => true })'),
        ('C01+C13.from_tokens.plain_args_verbatim',
         'plain_args(tokens@) && tokens@.len() > 0 ==> (match r { Ok(c) => tsv(c.tokens@) == tsv(tokens@) && c.redirects_to@.len() == 0 && c.redirect_from.is_none(), Err(_) => false })'),
        ('C05.from_tokens.command_nonempty', 'match r { Ok(c) => c.tokens@.len() > 0, Err(_) => true }'),
        ('C04.from_tokens.fd_is_1_or_2',
         'match r { Ok(c) => forall|k: int| 0 <= k < c.redirects_to@.len() ==> (#[trigger] c.redirects_to@[k]).0@ == "1"@ || c.redirects_to@[k].0@ == "2"@, Err(_) => true }'),
        ('C04.from_tokens.stdin_kind',
         'match r { Ok(c) => (match c.redirect_from { Some(t) => t.0@ == "<"@ || t.0@ == "<<<"@, None => true }), Err(_) => true }'),
    ],
    loops={0: Loop(invariant=[
        ('C05.inv.from_tokens.len', 'len == tokens_new@.len()'),
        ('C01.inv.from_tokens.untouched', '(forall|i: int| 0 <= i < tokens@.len() ==> !lt_like(#[trigger] tokens@[i])) ==> '
                                          'tsv(tokens_new@) == tsv(tokens@) && redirects_from_type@.len() == 0'),
        ('C04.inv.from_tokens.kind', 'redirects_from_type@.len() == 0 || redirects_from_type@ == "<"@ || redirects_from_type@ == "<<<"@'),
        ('C01+C13+C04+C11+C05.inv.from_tokens.lt_flag_honours_tag', 'has_redirect_from == exists|i: int| 0 <= i < tokens_new@.len() && is_lt(#[trigger] tokens_new@[i])'),
    ], decreases='tokens_new@.len()')},
    hints={'loop-0-body-entry': 'lemma_tsv_props(tokens_new@, tokens@); reveal_strlit("<"); reveal_strlit("<<<"); '
                                'assert("<"@.len() == 1 && "<"@[0] == \'<\' && "<<<"@.len() == 3 && "<<<"@[0] == \'<\'); '
                                'assert forall|t: Token| is_lt(t) implies #[trigger] lt_like(t) by { }; '
                                'assert forall|j: int| 0 <= j < tokens_new@.len() implies #[trigger] lt_at(tokens_new@, j, true) == is_lt(tokens_new@[j]) by { }; '
                                'if has_redirect_from { let w_ = choose|i: int| 0 <= i < tokens_new@.len() && is_lt(#[trigger] tokens_new@[i]); assert(lt_at(tokens_new@, w_, true)); }',
           # the word taken off the command as the input-redirection operator is an UNQUOTED `<` / `<<<`: a quoted, escaped or expanded `<` is an argument
           'before-text:redirects_from_type = tokens_new.remove(idx).1;':
               'LABEL:C01+C13+C04+C11.from_tokens.only_an_unquoted_lt_is_removed_as_operator: assert(idx < tokens_new@.len() && is_lt(tokens_new@[idx as int])); ;;; '
               # C04: redirections are applied left to right -- the operator taken off in each round is the leftmost one still there, so the last one on the line is the one in effect
               'LABEL:C04.from_tokens.input_redirections_are_taken_from_left_to_right: assert forall|j: int| 0 <= j < idx implies !is_lt(#[trigger] tokens_new@[j]) by { assert(!lt_at(tokens_new@, j, true)); }',
           'before-call:tokens_to_redirections': 'lemma_tsv_props(tokens_new@, tokens@);',
           'after-call:split_glued_input_redirections': 'lemma_tsv_props(tokens_new@, tokens@);'},
)

has_redirect_from = Fn(T, 'has_redirect_from', impl='Command', ret='r',
    rewrites=[Rw('self.redirect_from.clone().unwrap().0', 'vx_opt_token_kind(&self.redirect_from)', rule='R7', required=False,
                 why='Option<Token>::clone().unwrap().0 through a shim (requires is_some)')],
    ensures=[('C04.has_redirect_from', 'r == (match self.redirect_from { Some(t) => t.0@ == "<"@, None => false })')])
has_here_string = Fn(T, 'has_here_string', impl='Command', ret='r',
    rewrites=[Rw('self.redirect_from.clone().unwrap().0', 'vx_opt_token_kind(&self.redirect_from)', rule='R7', required=False,
                 why='Option<Token>::clone().unwrap().0 through a shim (requires is_some)')],
    ensures=[('C04.has_here_string', 'r == (match self.redirect_from { Some(t) => t.0@ == "<<<"@, None => false })')])
cmd_is_builtin = Fn(T, 'is_builtin', impl='Command', ret='r',
    requires=[('C05.pre.cmd_nonempty', 'self.tokens@.len() > 0')])

from_line = Fn(T, 'from_line', impl='CommandLine', ret='r',
    add_params='Tracked(tr): Tracked<&mut PlanTrace>',
    ghost_args={'drain_env_tokens': 'Tracked(tr)'},
    rewrites=[Rw('shell::Shell', 'Shell', required=False, rule='R0')],
    let_types={'commands': 'Vec<Command>'},
    loop_kinds={0: 'value', (0, 'clone'): 'vx_clone_tokens(&{})'},
    ensures=[
        ('C01+C13+C03+C02.from_line.background_only_unquoted_amp',
         'match r { Ok(cl) => cl.background ==> final(tr).planned.len() > 1 && unq(final(tr).planned.last()) && final(tr).planned.last().1@ == "&"@, Err(_) => true }'),
        ('C07.from_line.background_iff_amp',
         'match r { Ok(cl) => (final(tr).planned.len() > 1 && unq(final(tr).planned.last()) && final(tr).planned.last().1@ == "&"@) ==> cl.background, Err(_) => true }'),
        ('C05.from_line.commands_nonempty',
         'match r { Ok(cl) => forall|i: int| 0 <= i < cl.commands@.len() ==> (#[trigger] cl.commands@[i]).tokens@.len() > 0, Err(_) => true }'),
        ('C01.from_line.quoted_args_verbatim',
         'verbatim_hyp(final(tr).planned) ==> (match r { Ok(cl) => cl.commands@.len() == 1 && tsv(cl.commands@[0].tokens@) == tsv(final(tr).planned) && !cl.background, Err(_) => false })'),
    ],
    loops={0: Loop(invariant=[
        ('C05.inv.from_line.nonempty', 'forall|i: int| 0 <= i < commands@.len() ==> (#[trigger] commands@[i]).tokens@.len() > 0'),
        ('C01.inv.from_line.hyp', 'verbatim_hyp(tr.planned) ==> __v0@.len() == 1 && plain_args(__v0@[0]@) && __v0@[0]@.len() > 0 '
                                  '&& tsv(__v0@[0]@) == tsv(tr.planned) && !background'),
        ('C01.inv.from_line.single', '__v0@.len() == 1 && plain_args(__v0@[0]@) && __v0@[0]@.len() > 0 ==> '
                                     '(__i0 == 0 && commands@.len() == 0) || (__i0 == 1 && commands@.len() == 1 && tsv(commands@[0].tokens@) == tsv(__v0@[0]@))'),
    ])},
    hints={'after-call:split_tokens_by_pipes':
               'lemma_tsv_props(tokens@, tr.planned); '
               'if __v0@.len() > 0 && (forall|i: int| 0 <= i < tokens@.len() ==> !is_pipe(#[trigger] tokens@[i])) { '
               '  lemma_join_single(cmds_view(__v0@), tokens@); lemma_tsv_props(__v0@[0]@, tokens@); }',
           'loop-0-body-entry': 'lemma_tsv_props(__v0@[__i0 as int]@, __v0@[0]@);'},
)
# the real drain_env_tokens (types.rs), verified under another name because from_line calls it with a ghost argument; the clause is the one from_line relies on
drain_real = Fn(T, 'drain_env_tokens', rename='drain_env_tokens_real', ret='r', props=('C13',),
    pre_rewrites=[
        Rw('Regex::new(r"(?s)^([a-zA-Z0-9_]+)=(.*)$").unwrap()', 'vx_regex_new(r"(?s)^([a-zA-Z0-9_]+)=(.*)$")', rule='R10', why='Regex::new of a literal pattern (cannot fail)'),
        Rw(r'for cap in re\.captures_iter\(text\) \{.*?\n        \}(/\*@L\d+\*/)?\n', 'vx_collect_assignment(&re, text, &mut envs);\n', regex=True, rule='R10',
           why='the captures loop (name / unquoted value into the map) through an opaque shim: it does not touch the token list'),
        Rw('tokens.drain(0..n);', 'vx_drain_front(tokens, n);', rule='R12', why='Vec::drain(0..n) through a shim: the first n elements go'),
        Rw('libs::re::re_contains(', 're_contains(', required=False, rule='R0'),
    ],
    let_types={'envs': 'HashMap<String, String>', 'n': 'usize'},
    ensures=[('C13.drain.exactly_the_untagged_assignments_the_line_starts_with_are_taken_off', 'drained(old(tokens)@, final(tokens)@)')],
    loops={0: Loop(invariant_except_break=[('C13.inv.drain.count', 'n == __i0')], invariant=[
        ('C13.inv.drain.prefix', 'n <= __i0 && tokens@ == old(tokens)@ && forall|j: int| 0 <= j < n ==> is_assign_tok(#[trigger] tokens@[j])'),
    ], ensures=[('C13.inv.drain.stop', 'n <= tokens@.len() && tokens@ == old(tokens)@ && (forall|j: int| 0 <= j < n ==> is_assign_tok(#[trigger] tokens@[j])) && (n < tokens@.len() ==> !is_assign_tok(tokens@[n as int]))')])},
    hints={'loop-0-exit': 'assert(tokens@.skip(0) =~= tokens@);'},
)
cl_is_empty = Fn(T, 'is_empty', impl='CommandLine', ret='r', ensures=[('C05.cl.is_empty', 'r == (self.commands@.len() == 0)')])
cl_with_pipeline = Fn(T, 'with_pipeline', impl='CommandLine', ret='r', ensures=[('C02.cl.with_pipeline', 'r == (self.commands@.len() > 1)')])
cl_single_builtin = Fn(T, 'is_single_and_builtin', impl='CommandLine', ret='r',
    requires=[('C05.pre.cl_cmds_nonempty', 'forall|i: int| 0 <= i < self.commands@.len() ==> (#[trigger] self.commands@[i]).tokens@.len() > 0')],
    ensures=[('C02.cl.single_builtin', 'r ==> self.commands@.len() == 1')])

UNIT = Unit('U-PLAN', TEMPLATE,
            fns=[split_tokens_by_pipes, tokens_to_redirections, split_glued, drain_real, from_tokens, has_redirect_from, has_here_string, cmd_is_builtin,
                 from_line, cl_is_empty, cl_with_pipeline, cl_single_builtin],
            types=[TypeItem(T, 'struct', 'LineInfo'), TypeItem(T, 'struct', 'Command'), TypeItem(T, 'struct', 'CommandLine')],
            props=('C01', 'C13', 'C04', 'C05', 'C02'))
TRUSTED = common.TRUSTED_STR + common.TRUSTED_TOKEN + [
    'regex captures of ptn1/ptn2 in tokens_to_redirections are uninterpreted (vx_captures); Regex::new failure path dropped; capture groups 1..3 assumed to participate',
    'axiom_re_gt: re_contains(t, ">") == t.contains(\'>\') (validated against the regex crate on every run)',
    'parse_line, do_expansion, tools::is_builtin are external in this unit (tokenizer in U-TOK, expansion in U-EXP)',
    'drain_env_tokens: the real text is verified as drain_env_tokens_real (its captures loop through an opaque shim); from_line calls an external twin with the same clause plus the ghost record of the planned tokens',
    'Iterator::any / position closures of from_tokens through shims carrying their std contracts',
]
