"""U-TOK: the hand-written line tokenizer and list splitter (parser_line.rs). Safety for every input (C05);
functional clauses for the quoted sub-language (C01/C03) are added on top."""
from vx.gen import Unit, Fn, TypeItem, Loop, Rw
from . import common

TEMPLATE = common.HEAD + common.STR_SHIMS + common.TOKEN_TYPES + r'''
//@TYPE LineInfo
impl LineInfo {
//@FN LineInfo::new
}

// regex and classification helpers: uninterpreted (any behaviour of the regex crate is admitted)
pub uninterp spec fn spec_is_arithmetic(l: Seq<char>) -> bool;
#[verifier::external_body]
pub fn is_arithmetic(line: &str) -> (r: bool) ensures r == spec_is_arithmetic(line@) { unimplemented!() }
pub uninterp spec fn spec_re_contains(t: Seq<char>, p: Seq<char>) -> bool;
#[verifier::external_body]
pub fn re_contains(text: &str, ptn: &str) -> (r: bool) ensures r == spec_re_contains(text@, ptn@) { unimplemented!() }
// arithmetic lines are split at spaces (R10: str::split iteration is outside Verus)
#[verifier::external_body]
pub fn vx_arith_tokens(line: &str) -> (r: Tokens) { unimplemented!() }

// String::len is the byte length: at least the number of chars (UTF-8)
#[verifier::external_body]
pub fn vx_byte_len(s: &String) -> (r: usize) ensures r >= s@.len() { s.len() }
// String::truncate to a char boundary; the call site truncates by one byte after ends_with(' ')
#[verifier::external_body]
pub fn vx_truncate_last_ascii(s: &mut String, n: usize)
    requires old(s)@.len() > 0
    ensures final(s)@ == old(s)@.drop_last()
{ s.truncate(n) }

// ---- quoting state of the list splitter, as the property statements define it (C01 / C03): a backslash outside single quotes escapes
// the next char; ' " ` open a quote that only the same char closes; nothing inside quotes or escaped is an operator ----
pub open spec fn lq(line: Seq<char>, n: int) -> (Seq<char>, bool)
    decreases n
{
    if n <= 0 { (Seq::<char>::empty(), false) } else {
        let p = lq(line, n - 1);
        let c = line[n - 1];
        if p.1 { (p.0, false) }
        else if c == '\\' && p.0 != seq!['\''] { (p.0, true) }
        else if c == '\'' || c == '"' || c == '`' {
            if p.0.len() == 0 { (seq![c], false) } else if p.0 == seq![c] { (Seq::<char>::empty(), false) } else { (p.0, false) }
        }
        else { (p.0, false) }
    }
}
// no operator / comment character occurs outside quotes and unescaped
pub open spec fn no_active_operator(line: Seq<char>) -> bool {
    forall|i: int| 0 <= i < line.len() && lq(line, i).0.len() == 0 && !lq(line, i).1 ==> #[trigger] line[i] != ';' && line[i] != '&' && line[i] != '|' && line[i] != '#'
}
pub proof fn lemma_lq_shape(line: Seq<char>, n: int)
    ensures lq(line, n).0.len() == 0 || (lq(line, n).0.len() == 1 && (lq(line, n).0[0] == '\'' || lq(line, n).0[0] == '"' || lq(line, n).0[0] == '`')),
    decreases n
{
    if n > 0 { lemma_lq_shape(line, n - 1); }
}
pub open spec fn pl_special(c: char) -> bool {
    c == '>' || c == '<' || c == '&' || c == '*' || c == '~' || c == '{' || c == '`' || c == '$'
}
pub open spec fn is_bs(s: Seq<char>) -> bool { s.len() == 1 && s[0] == '\\' }
pub proof fn lemma_quote_lits2()
    ensures "\""@ == seq!['"'], "\\"@ == seq!['\\'], "`"@ == seq!['`'],
{
    reveal_strlit("\""); reveal_strlit("\\"); reveal_strlit("`");
    assert("\""@ =~= seq!['"']); assert("\\"@ =~= seq!['\\']); assert("`"@ =~= seq!['`']);
}
pub proof fn lemma_quote_lits()
    ensures "'"@ == seq!['\''], "&"@ == seq!['&'], "|"@ == seq!['|'], ""@ == Seq::<char>::empty(),
{
    reveal_strlit("'"); reveal_strlit("&"); reveal_strlit("|"); reveal_strlit("");
    assert("'"@ =~= seq!['\'']); assert("&"@ =~= seq!['&']); assert("|"@ =~= seq!['|']); assert(""@ =~= Seq::<char>::empty());
}

// ---- parser_line::trim_command (C01): the blanks around a command are not part of it -- except a trailing blank that is escaped ----
pub open spec fn blank(c: char) -> bool { c == ' ' || c == '\t' || c == '\n' || c == '\r' }
// number of consecutive backslashes at positions p, p-1, ... (not below lo)
pub open spec fn bs_run(s: Seq<char>, lo: int, p: int) -> int
    decreases p - lo + 1
{
    if p >= lo && p < s.len() && s[p] == '\\' { 1 + bs_run(s, lo, p - 1) } else { 0 }
}
#[verifier::external_body]
pub fn vx_is_blank(c: char) -> (r: bool) ensures r == blank(c) { c == ' ' || c == '\t' || c == '\n' || c == '\r' }
#[verifier::external_body]
pub fn vx_collect_range(v: &Vec<char>, a: usize, b: usize) -> (r: String)
    requires a <= b <= v@.len()
    ensures r@ == v@.subrange(a as int, b as int)
{ v[a..b].iter().collect() }
//@FN trim_command
#[verifier::external_body]
pub fn vx_quote_chars() -> (r: Vec<char>) ensures r@ == seq!['"', '\''] { vec!['"', '\''] }
#[verifier::external_body]
pub fn vx_remove_first(s: &mut String) requires old(s)@.len() > 0 ensures final(s)@ == old(s)@.drop_first() { s.remove(0); }
#[verifier::external_body]
pub fn vx_pop_last(s: &mut String) ensures final(s)@ == (if old(s)@.len() > 0 { old(s)@.drop_last() } else { old(s)@ }) { s.pop(); }
//@FN wrap_sep_string
//@FN tokens_to_args
//@FN tokens_to_line
//@FN unquote
//@FN line_to_cmds
//@FN parse_line
//@FN line_to_plain_tokens
''' + common.TAIL

P = 'src/parsers/parser_line.rs'

parse_line = Fn(P, 'parse_line', ret='r',
    pre_rewrites=[Rw(r'for x in line\.split\(\' \'\) \{.*?\n\s*\}/\*@L\d+\*/\n\s*return LineInfo::new\(result\);', 'return LineInfo::new(vx_arith_tokens(line));',
                     regex=True, rule='R10', why='arithmetic lines: str::split iteration replaced by an opaque token list')],
    let_types={'result': 'Tokens'},
    clone_shims={'result[result.len() - 1]': 'vx_clone_token'},
    loops={0: Loop(invariant=[
        ('C05.inv.count', 'count_chars == line@.len()'),
        # leading spaces are skipped only while no word is being collected: an argument in progress is never glued to the next one.
        # ghost `adj` records that a closing quote was directly followed by another quote (concatenated quoting such as "a"'b',
        # which is not one of C01's argument forms); the tokenizer's state is specified only up to that point.
        ('C01.inv.pl.spaces_skipped_only_between_words',
         '!adj && new_round ==> token@.len() == 0 && sep_second@.len() == 0 && (sep@.len() == 0 || is_bs(sep@)) && sep_made@.len() == 0'),
        # ... also after concatenated quoting: whatever word was pushed, the tag an escaped character gave it is gone when the next word starts
        ('C01+C12+C13.inv.pl.an_escape_tag_does_not_outlive_its_word', '(new_round ==> sep_made@.len() == 0) && (is_bs(sep@) ==> sep_made@.len() == 0)'),
        # text that follows a closing backquote is not appended to the command between the backquotes (`pwd`/x is not the command pwd/x)
        ('C11+C01.inv.pl.nothing_is_appended_to_a_closed_backquoted_command', '(semi_ok && sep@ == seq![\'`\'] ==> token@ == g_bq && !has_backslash) && (new_round ==> !semi_ok)'),
        ('C01.inv.pl.backslash_word_has_no_inner_quote', '!adj && is_bs(sep@) ==> sep_second@.len() == 0'),
        # a pending literal tag belongs to the unquoted word being collected: a push that ignores it leaves it dangling
        ('C01.inv.pl.literal_tag_belongs_to_the_word_in_progress', '!adj && sep_made@.len() > 0 ==> sep@.len() == 0 && token@.len() > 0'),
        # the step that consumes a backslash-escaped operator / expansion character outside quotes tags the word
        ('C01.inv.pl.escaped_special_marks_the_word_literal', 'g_esc ==> sep_made@.len() > 0 || sep@.len() > 0'),
    ])},
    hints={'fn-entry': 'RAW: let ghost mut adj = false; let ghost mut g_esc = false; let ghost mut g_bq: Seq<char> = Seq::empty();',
           'before-text:semi_ok = true;': 'g_bq = token@;',
           # concatenated quoting ("a"'b', a"b") is not one of C01's argument forms: the state is specified up to that point
           'after-text:&& semi_ok {': 'adj = true;',
           'after-text:if !is_an_env && (c == \'\\\'\' || c == \'"\') {': 'if token@.len() > 0 || sep_made@.len() > 0 { adj = true; }',
           'loop-0-body-entry': 'lemma_quote_lits(); lemma_quote_lits2(); '
               'g_esc = has_backslash && sep@.len() == 0 && !met_parenthesis && !skip_next && (pl_special(__V@[__I as int]) '
               '|| (__V@[__I as int] == \'|\' && new_round && token@.len() == 0));'},
)

line_to_cmds = Fn(P, 'line_to_cmds', ret='r', strvars=('sep',),
    let_types={'result': 'Vec<String>'},
    ensures=[('C01+C03.l2c.quoted_or_escaped_operators_never_split', 'no_active_operator(line@) ==> r@.len() <= 1'),
             # every element of the list is an operator or the text of a pipeline: never an empty command (which would run as a no-op
             # with status 0 and replace the status of the last real pipeline)
             ('C03.l2c.no_empty_command_in_the_list', 'forall|k: int| 0 <= k < r@.len() ==> (#[trigger] r@[k])@.len() > 0')],
    loops={0: Loop(invariant=[
        ('C05.inv.len', 'len == line@.len()'),
        ('C01+C03.inv.l2c.escape_state_is_the_specified_one', 'has_backslash == lq(line@, __I as int).1'),
        # "the previous character was a blank, and not an escaped one"
        ('C01+C03.inv.l2c.blank_flag', 'last_blank ==> __I > 0 && line@[__I - 1] == \' \' && !lq(line@, __I - 1).1'),
        ('C01+C03.inv.l2c.quote_state_is_the_specified_one',
         '(lq(line@, __I as int).0.len() > 0 ==> sep@ == lq(line@, __I as int).0) && '
         '(lq(line@, __I as int).0.len() == 0 ==> sep@.len() == 0 || ((sep@ == seq![\'&\'] || sep@ == seq![\'|\']) && !has_backslash '
         '&& 0 < __I < line@.len() && line@[__I as int] == sep@[0] && line@[__I - 1] == sep@[0]))'),
        ('C03.inv.l2c.no_empty_command_so_far', 'forall|k: int| 0 <= k < result@.len() ==> (#[trigger] result@[k])@.len() > 0'),
        ('C01+C03.inv.l2c.no_split_so_far', 'no_active_operator(line@) ==> result@.len() == 0 && (lq(line@, __I as int).0.len() == 0 ==> sep@.len() == 0)'),
    ])},
    hints={'loop-0-body-entry': 'lemma_quote_lits(); lemma_lq_shape(line@, __I as int); lemma_lq_shape(line@, __I + 1); reveal_strlit(";");',
           # the rest of the line is dropped (a comment) only at an unquoted, unescaped `#` that stands where a word could start
           'before-text:break;': 'LABEL:C01+C03.l2c.the_rest_of_the_line_is_dropped_only_at_a_hash_that_starts_a_word_or_follows_an_unescaped_blank: '
                                 'assert(line@[i as int] == \'#\' && lq(line@, i as int).0.len() == 0 && !lq(line@, i as int).1 && (token@.len() == 0 || (i > 0 && line@[i - 1] == \' \' && !lq(line@, i - 1).1)));'},
)

tokens_to_line = Fn(P, 'tokens_to_line', ret='r',
    rewrites=[Rw('let len = result.len();', 'let len = vx_byte_len(&result);', rule='R12', required=False,
                 why='String::len is a byte length (>= number of chars)'),
              Rw('result.truncate(len - 1);', 'vx_truncate_last_ascii(&mut result, len - 1);', rule='R12', required=False,
                 why='String::truncate at byte len-1 directly after ends_with(\' \'): assumed to be a char boundary')],
)
tokens_to_args = Fn(P, 'tokens_to_args', ret='r', let_types={'result': 'Vec<String>'})
line_to_plain_tokens = Fn(P, 'line_to_plain_tokens', ret='r', let_types={'result': 'Vec<String>'},
                          loop_kinds={0: 'value', (0, 'clone'): 'vx_clone_token(&{})'})
wrap_sep_string = Fn('src/tools.rs', 'wrap_sep_string', ret='r', loop_kinds={0: 'chars'})
trim_command = Fn(P, 'trim_command', ret='r', props=('C01',),
    pre_rewrites=[Rw(r"let is_blank = \|c: char\| [^;]*;", '', regex=True, rule='R11', why='local closure (the four ASCII blanks) replaced by a shim with the same definition'),
                  Rw('is_blank(', 'vx_is_blank(', rule='R11'),
                  Rw('text.chars().collect()', 'vx_chars(text)', rule='R2'),
                  Rw('chars[start..end].iter().collect()', 'vx_collect_range(&chars, start, end)', rule='R12', why='slice of the char vector collected into a String')],
    let_types={'start': 'usize', 'end': 'usize', 'backslashes': 'usize'},
    ensures=[
        # C01: what is cut off are blanks -- at the front all of them, at the end only UNESCAPED ones (an odd run of backslashes in front of a blank makes it an argument character)
        ('C01+C05.trim_command.only_unescaped_blanks_around_the_command_are_cut',
         'exists|a: int, b: int| 0 <= a <= b <= text@.len() && r@ == text@.subrange(a, b) '
         '&& (forall|i: int| 0 <= i < a ==> blank(#[trigger] text@[i])) && (a < text@.len() ==> a == b || !blank(text@[a])) '
         '&& (forall|i: int| b <= i < text@.len() ==> blank(#[trigger] text@[i]) && bs_run(text@, a, i - 1) % 2 == 0) '
         '&& (b > a && blank(text@[b - 1]) ==> bs_run(text@, a, b - 2) % 2 == 1)'),
    ],
    loops={
        0: Loop(invariant=[('C01.inv.trim.front', 'chars@ == text@ && start <= chars@.len() && forall|i: int| 0 <= i < start ==> blank(#[trigger] text@[i])')], decreases='chars@.len() - start'),
        1: Loop(invariant=[('C01.inv.trim.back', 'chars@ == text@ && start <= end <= chars@.len() && (start < chars@.len() ==> start == end || !blank(text@[start as int]) || start == chars@.len()) '
                                               '&& forall|i: int| end <= i < text@.len() ==> blank(#[trigger] text@[i]) && bs_run(text@, start as int, i - 1) % 2 == 0')],
                invariant_except_break=[], ensures=[('C01.inv.trim.stop', 'end == start || !blank(text@[end - 1]) || bs_run(text@, start as int, end - 2) % 2 == 1')], decreases='end'),
        2: Loop(invariant=[('C01.inv.trim.run', 'chars@ == text@ && start < end <= chars@.len() && backslashes <= end - 1 - start '
                                              '&& bs_run(text@, start as int, end - 2) == backslashes + bs_run(text@, start as int, end - 2 - backslashes)')], decreases='end - backslashes'),
    },
)
unquote = Fn(P, 'unquote', ret='r',
    pre_rewrites=[Rw("for &c in ['\"', '\\''].iter() {", "let __q = vx_quote_chars(); for c in __q.iter() { let c = *c;", rule='R12', why='iteration over a two-element char array literal through a Vec with those two elements'),
                  Rw('new_str.remove(0);', 'vx_remove_first(&mut new_str);', rule='R12', why='String::remove(0): requires a non-empty string (panics otherwise)'),
                  Rw('new_str.pop();', 'vx_pop_last(&mut new_str);', rule='R12', why='String::pop (None on an empty string: no panic)')],
    # C05: never panics, also for a lone quote character; and what it returns is the text or the text without its surrounding pair of quotes
    ensures=[('C05+C09+C10.unquote.result_is_the_text_or_the_text_without_its_surrounding_quotes',
              'r@ == text@ || (text@.len() >= 1 && r@ == text@.subrange(1, if text@.len() >= 2 { text@.len() - 1 } else { 1 }))')],
    loops={0: Loop(invariant_except_break=[('C05.inv.unquote.untouched_so_far', 'new_str@ == text@')],
                   ensures=[('C05.inv.unquote.shape', 'new_str@ == text@ || (text@.len() >= 1 && new_str@ == text@.subrange(1, if text@.len() >= 2 { text@.len() - 1 } else { 1 }))')])},
    hints={'before-text:vx_pop_last(&mut new_str);': 'assert(text@.len() >= 2 ==> text@.drop_first().drop_last() =~= text@.subrange(1, text@.len() - 1)); '
                                                     'assert(text@.len() == 1 ==> text@.drop_first() =~= text@.subrange(1, 1));'})

UNIT = Unit('U-TOK', TEMPLATE,
            fns=[Fn('src/types.rs', 'new', impl='LineInfo'), wrap_sep_string, tokens_to_args, tokens_to_line, unquote, trim_command, line_to_cmds,
                 parse_line, line_to_plain_tokens],
            types=[TypeItem('src/types.rs', 'struct', 'LineInfo')],
            props=('C05', 'C01', 'C03'))

TRUSTED = common.TRUSTED_STR + common.TRUSTED_TOKEN + [
    'tools::is_arithmetic and libs::re::re_contains are uninterpreted (regex crate: assumed not to panic or diverge)',
    'parse_line on arithmetic lines: the str::split(\' \') loop is replaced by an opaque token list (R10)',
    'String::len is a byte length >= char count; String::truncate(len-1) after ends_with(\' \') is a char boundary (tokens_to_line)',
]
