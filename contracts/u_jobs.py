"""U-JOBS: the job table (Shell::jobs) as a data structure with a view and well-formedness (C06)."""
from vx.gen import Unit, Fn, TypeItem, Loop, Rw
from . import common

TEMPLATE = '#![feature(allocator_api)]\n' + common.HEAD + r'''
use std::hash::{Hash, BuildHasher};
use std::borrow::Borrow;
use std::alloc::Allocator;
use vstd::std_specs::hash::*;
''' + common.STR_SHIMS + r'''
broadcast use vstd::std_specs::hash::group_hash_axioms;

// assumed std contract: HashMap::get_mut gives access to exactly the entry under the key
pub assume_specification<'a, K, V, S, A, Q>[HashMap::<K, V, S, A>::get_mut](m: &'a mut HashMap<K, V, S, A>, k: &Q) -> (r: Option<&'a mut V>)
    where
        A: Allocator,
        K: Eq + Hash + Borrow<Q>,
        Q: Hash + Eq + ?Sized,
        S: BuildHasher,
    ensures
        obeys_key_model::<K>() && builds_valid_hashers::<S>() ==> match r {
            Some(v) => contains_borrowed_key(old(m)@, k) && maps_borrowed_key_to_value(old(m)@, k, *v)
                  && final(m)@.dom() == old(m)@.dom()
                  && maps_borrowed_key_to_value(final(m)@, k, *final(v))
                  && (forall |k2: K| #[trigger] old(m)@.contains_key(k2) && !contains_borrowed_key(Map::<K, V>::empty().insert(k2, old(m)@[k2]), k) ==> final(m)@[k2] == old(m)@[k2]),
            None => !contains_borrowed_key(old(m)@, k) && final(m)@ == old(m)@,
        };

pub open spec fn sorted(s: Seq<i32>) -> bool { forall|i: int, j: int| 0 <= i < j < s.len() ==> s[i] <= s[j] }

// the REAL std contract of slice::binary_search: the answer is only meaningful on a sorted slice
#[verifier::external_body]
pub fn vx_binary_search(v: &Vec<i32>, x: &i32) -> (r: Result<usize, usize>)
    ensures match r {
        Ok(i) => i < v.len() && v@[i as int] == *x,
        Err(_) => sorted(v@) ==> !v@.contains(*x),
    }
{ v.binary_search(x) }

// std contract of Iterator::position over a slice of i32 with an equality closure
#[verifier::external_body]
pub fn vx_position_i32(v: &Vec<i32>, x: i32) -> (r: Option<usize>)
    ensures match r {
        Some(i) => i < v.len() && v@[i as int] == x && forall|j: int| 0 <= j < i ==> v@[j] != x,
        None => !v@.contains(x),
    }
{ v.iter().position(|&p| p == x) }

//@TYPE Job
//@TYPE Shell

// one occurrence of pid removed (or none present)
pub open spec fn removed_one(o: Seq<i32>, n: Seq<i32>, pid: i32) -> bool {
    (!o.contains(pid) && n == o) || exists|idx: int| 0 <= idx < o.len() && o[idx] == pid && n == #[trigger] o.remove(idx)
}
pub proof fn lemma_removed_one(o: Seq<i32>, n: Seq<i32>, pid: i32)
    requires o.no_duplicates(), removed_one(o, n, pid),
    ensures n.no_duplicates(), !n.contains(pid), forall|p: i32| p != pid ==> (n.contains(p) == o.contains(p)),
{
    if o.contains(pid) {
        let idx = choose|idx: int| 0 <= idx < o.len() && o[idx] == pid && n == #[trigger] o.remove(idx);
        assert forall|a: int, b: int| 0 <= a < n.len() && 0 <= b < n.len() && a != b implies n[a] != n[b] by {
            let a2 = if a < idx { a } else { a + 1 };
            let b2 = if b < idx { b } else { b + 1 };
            assert(n[a] == o[a2] && n[b] == o[b2]);
        }
        assert(!n.contains(pid)) by {
            if n.contains(pid) {
                let a = choose|a: int| 0 <= a < n.len() && n[a] == pid;
                let a2 = if a < idx { a } else { a + 1 };
                assert(n[a] == o[a2]);
            }
        }
        assert forall|p: i32| p != pid implies (n.contains(p) == o.contains(p)) by {
            if o.contains(p) {
                let a = choose|a: int| 0 <= a < o.len() && o[a] == p;
                let a1 = if a < idx { a } else { a - 1 };
                assert(n[a1] == p);
            }
            if n.contains(p) {
                let a = choose|a: int| 0 <= a < n.len() && n[a] == p;
                let a2 = if a < idx { a } else { a + 1 };
                assert(o[a2] == p);
            }
        }
    }
}

// ---------------- view and well-formedness of the job table (from the property statement) --------
pub open spec fn has_gid(m: Map<i32, Job>, gid: i32) -> bool {
    exists|k: i32| m.contains_key(k) && #[trigger] m[k].gid == gid
}
pub open spec fn wf(m: Map<i32, Job>) -> bool {
    &&& m.dom().finite()
    &&& forall|k: i32| #[trigger] m.contains_key(k) ==> 1 <= k < 65535 && m[k].id == k && m[k].pids@.len() > 0 && m[k].pids@.no_duplicates()
    &&& forall|k1: i32, k2: i32| #![trigger m[k1], m[k2]] m.contains_key(k1) && m.contains_key(k2) && k1 != k2 ==> m[k1].gid != m[k2].gid
}
// every id below k is occupied
pub open spec fn prefix_full(m: Map<i32, Job>, k: int) -> bool { forall|j: i32| 1 <= j < k ==> #[trigger] m.contains_key(j) }
pub open spec fn same_but(m1: Map<i32, Job>, m2: Map<i32, Job>, k: i32) -> bool {
    forall|k2: i32| #![trigger m1.contains_key(k2)] #![trigger m2.contains_key(k2)] #![trigger m1[k2]] #![trigger m2[k2]]
        k2 != k ==> (m1.contains_key(k2) == m2.contains_key(k2)) && (m1.contains_key(k2) ==> m1[k2] == m2[k2])
}
pub open spec fn job_all_stopped(j: Job) -> bool { forall|i: int| 0 <= i < j.pids@.len() ==> j.pids_stopped@.contains(#[trigger] j.pids@[i]) }
// a member left: it is forgotten in the stopped set as well, and a job whose remaining members are all stopped is Stopped
pub open spec fn job_after_remove(a: Job, b: Job, pid: i32) -> bool {
    a.id == b.id && a.gid == b.gid && a.pids_stopped@ == b.pids_stopped@.remove(pid) && a.is_bg == b.is_bg
    && a.status@ == (if a.pids@.len() > 0 && job_all_stopped(a) { "Stopped"@ } else { b.status@ })
}
pub open spec fn job_eq_except_cmd_pids(a: Job, b: Job) -> bool {
    a.id == b.id && a.gid == b.gid && a.pids_stopped@ == b.pids_stopped@ && a.status@ == b.status@ && a.is_bg == b.is_bg
}

pub proof fn lemma_prefix_len(m: Map<i32, Job>, k: int)
    requires m.dom().finite(), 1 <= k <= 65536, prefix_full(m, k),
    ensures m.dom().len() >= k - 1,
    decreases k
{
    if k > 1 {
        let kk = (k - 1) as i32;
        assert(m.contains_key(kk));
        let m2 = m.remove(kk);
        assert(prefix_full(m2, k - 1)) by {
            assert forall|j: i32| 1 <= j < k - 1 implies #[trigger] m2.contains_key(j) by { assert(m.contains_key(j)); }
        }
        lemma_prefix_len(m2, k - 1);
    }
}

impl Job {
//@FN Job::all_members_stopped
//@FN Job::all_members_running
}

impl Shell {
//@FN Shell::insert_job
//@FN Shell::get_job_by_id
//@FN Shell::get_job_by_gid
//@FN Shell::mark_job_member_continued
//@FN Shell::mark_job_member_stopped
//@FN Shell::mark_job_as_running
//@FN Shell::mark_job_as_stopped
//@FN Shell::remove_pid_from_job
}
''' + common.TAIL

F = 'src/shell.rs'
TYRW = [Rw('types::Job', 'Job', required=False, rule='R0')]

SCAN_INV = [
    ('C06+C07.inv.scan_range', '1 <= i <= 65535'),
    ('C06+C07.inv.scan_frame', 'self.jobs@ == old(self).jobs@ && wf(self.jobs@)'),
    ('C06+C07.inv.scan_nomatch', 'forall|k: i32| 1 <= k < i && #[trigger] self.jobs@.contains_key(k) ==> self.jobs@[k].gid != gid'),
]


SCAN_IEB = [('C06+C07.inv.scan_lt', 'i < 65535')]
SCAN_ENS = [('C06+C07.inv.scan_done', 'i == 65535')]


def scan_loop(extra=(), extra_ens=()):
    return {0: Loop(invariant=SCAN_INV + list(extra), invariant_except_break=SCAN_IEB, ensures=SCAN_ENS + list(extra_ens), decreases='65535 - i')}


all_members_stopped = Fn('src/types.rs', 'all_members_stopped', impl='Job', ret='r',
    ensures=[('C06+C07.all_stopped_def', 'r == (forall|i: int| 0 <= i < self.pids@.len() ==> self.pids_stopped@.contains(#[trigger] self.pids@[i]))')],
    loops={0: Loop(invariant=[('C06+C07.inv.all_stopped', 'forall|i: int| 0 <= i < __i0 ==> self.pids_stopped@.contains(#[trigger] self.pids@[i])')])})
all_members_running = Fn('src/types.rs', 'all_members_running', impl='Job', ret='r',
    ensures=[('C06+C07.all_running_def', 'r == (self.pids_stopped@.len() == 0)')])

insert_job = Fn(F, 'insert_job', impl='Shell', rewrites=TYRW,
    requires=[
        ('C06.pre.wf', 'wf(old(self).jobs@)'),
        ('C06.pre.capacity', 'old(self).jobs@.dom().len() < 65533'),
        ('C06.pre.gid_prefix', 'forall|k: i32| old(self).jobs@.contains_key(k) && #[trigger] old(self).jobs@[k].gid == gid ==> prefix_full(old(self).jobs@, k as int)'),
        ('C06.pre.pid_fresh', 'forall|k: i32| old(self).jobs@.contains_key(k) && #[trigger] old(self).jobs@[k].gid == gid ==> !old(self).jobs@[k].pids@.contains(pid)'),
    ],
    ensures=[
        ('C06+C07.insert.wf', 'wf(final(self).jobs@)'),
        ('C06+C07.insert.same_group_appends',
         'has_gid(old(self).jobs@, gid) ==> exists|k: i32| old(self).jobs@.contains_key(k) && #[trigger] old(self).jobs@[k].gid == gid '
         '&& final(self).jobs@.contains_key(k) && same_but(final(self).jobs@, old(self).jobs@, k) '
         '&& final(self).jobs@[k].pids@ == old(self).jobs@[k].pids@.push(pid) && job_eq_except_cmd_pids(final(self).jobs@[k], old(self).jobs@[k])'),
        ('C06+C07.insert.new_job_smallest_free_id',
         '!has_gid(old(self).jobs@, gid) ==> exists|k: i32| #![trigger old(self).jobs@.contains_key(k)] #![trigger final(self).jobs@.contains_key(k)] '
         '1 <= k && !old(self).jobs@.contains_key(k) && prefix_full(old(self).jobs@, k as int) '
         '&& final(self).jobs@.contains_key(k) && same_but(final(self).jobs@, old(self).jobs@, k) '
         '&& final(self).jobs@[k].id == k && final(self).jobs@[k].gid == gid && final(self).jobs@[k].pids@ =~= seq![pid] '
         '&& final(self).jobs@[k].pids_stopped@ =~= Set::<i32>::empty() && final(self).jobs@[k].status@ == status@ && final(self).jobs@[k].is_bg == bg'),
    ],
    loops={0: Loop(invariant=[
        ('C06+C07.inv.ins_range', '1 <= i <= 65535'),
        ('C06+C07.inv.ins_frame', 'self.jobs@ == old(self).jobs@ && wf(self.jobs@) && self.jobs@.dom().len() < 65533'),
        ('C06+C07.inv.ins_prefix', 'prefix_full(self.jobs@, i as int)'),
        ('C06+C07.inv.ins_pre1', 'forall|k: i32| self.jobs@.contains_key(k) && #[trigger] self.jobs@[k].gid == gid ==> prefix_full(self.jobs@, k as int)'),
        ('C06+C07.inv.ins_pre2', 'forall|k: i32| self.jobs@.contains_key(k) && #[trigger] self.jobs@[k].gid == gid ==> !self.jobs@[k].pids@.contains(pid)'),
        ('C06+C07.inv.ins_nomatch', 'forall|k: i32| 1 <= k < i && #[trigger] self.jobs@.contains_key(k) ==> self.jobs@[k].gid != gid'),
    ], decreases='65535 - i')},
    hints={'loop-0-body-entry': 'lemma_prefix_len(self.jobs@, i as int);'},
    let_types={'i': 'i32'})

get_job_by_id = Fn(F, 'get_job_by_id', impl='Shell', rewrites=TYRW, ret='r',
    ensures=[('C06+C07.get_by_id', 'match r { Some(j) => self.jobs@.contains_key(job_id) && *j == self.jobs@[job_id], None => !self.jobs@.contains_key(job_id) }')])

get_job_by_gid = Fn(F, 'get_job_by_gid', impl='Shell', rewrites=TYRW, ret='r',
    requires=[('C06.pre.wf', 'wf(self.jobs@)')],
    ensures=[('C06+C07.get_by_gid', 'match r { Some(j) => exists|k: i32| self.jobs@.contains_key(k) && #[trigger] self.jobs@[k].gid == gid && *j == self.jobs@[k], None => !has_gid(self.jobs@, gid) }')],
    loops={0: Loop(invariant=[SCAN_INV[0], ('C06+C07.inv.scan_wf', 'wf(self.jobs@)'), ('C06+C07.inv.scan_nomatch', 'forall|k: i32| 1 <= k < i && #[trigger] self.jobs@.contains_key(k) ==> self.jobs@[k].gid != gid')],
                   invariant_except_break=SCAN_IEB, ensures=SCAN_ENS, decreases='65535 - i')},
    let_types={'i': 'i32'})


def member_fn(name, setop):
    # a continued member runs again: the job is Running; a stop of one member does not change the status by itself
    st_i = 'self.jobs@[i].status@ == "Running"@' if setop == 'remove' else 'self.jobs@[i].status@ == old(self).jobs@[i].status@'
    st_k = 'final(self).jobs@[k].status@ == "Running"@' if setop == 'remove' else 'final(self).jobs@[k].status@ == old(self).jobs@[k].status@'
    changed = ('self.jobs@[i].pids_stopped@ == old(self).jobs@[i].pids_stopped@.%s(pid) '
               '&& self.jobs@[i].pids@ == old(self).jobs@[i].pids@ && self.jobs@[i].id == old(self).jobs@[i].id && self.jobs@[i].gid == gid '
               '&& %s && self.jobs@[i].is_bg == old(self).jobs@[i].is_bg' % (setop, st_i))
    return Fn(F, name, impl='Shell', rewrites=TYRW, ret='r',
        requires=[('C06.pre.wf', 'wf(old(self).jobs@)')],
        ensures=[
            ('C06+C07.%s.wf' % name, 'wf(final(self).jobs@)'),
            ('C06+C07.%s.absent_unchanged' % name, '!has_gid(old(self).jobs@, gid) ==> final(self).jobs@ == old(self).jobs@ && r.is_none()'),
            ('C06+C07.%s.whole_view' % name,
             'has_gid(old(self).jobs@, gid) ==> exists|k: i32| old(self).jobs@.contains_key(k) && #[trigger] old(self).jobs@[k].gid == gid '
             '&& final(self).jobs@.contains_key(k) && same_but(final(self).jobs@, old(self).jobs@, k) '
             '&& final(self).jobs@[k].pids_stopped@ == old(self).jobs@[k].pids_stopped@.%s(pid) '
             '&& final(self).jobs@[k].pids@ == old(self).jobs@[k].pids@ && final(self).jobs@[k].id == k && final(self).jobs@[k].gid == gid '
             '&& %s && final(self).jobs@[k].is_bg == old(self).jobs@[k].is_bg '
             '&& r == Some(&final(self).jobs@[k])' % (setop, st_k)),
        ],
        loops={0: Loop(invariant=[SCAN_INV[0], ('C06+C07.inv.oldwf', 'wf(old(self).jobs@)')],
                       invariant_except_break=SCAN_IEB + SCAN_INV[1:] + [('C06+C07.inv.notfound', 'idx_found == 0')],
                       ensures=[('C06+C07.inv.member_exit',
                                 '(i == 65535 && self.jobs@ == old(self).jobs@ && !has_gid(old(self).jobs@, gid) && idx_found == 0) || '
                                 '(1 <= i < 65535 && idx_found == i && old(self).jobs@.contains_key(i) && old(self).jobs@[i].gid == gid '
                                 ' && self.jobs@.contains_key(i) && same_but(self.jobs@, old(self).jobs@, i) && ' + changed + ')')],
                       decreases='65535 - i')},
        let_types={'i': 'i32', 'idx_found': 'i32'})


mark_job_member_continued = member_fn('mark_job_member_continued', 'remove')
mark_job_member_stopped = member_fn('mark_job_member_stopped', 'insert')

mark_job_as_running = Fn(F, 'mark_job_as_running', impl='Shell', rewrites=TYRW,
    requires=[('C06.pre.wf', 'wf(old(self).jobs@)')],
    ensures=[
        ('C06+C07.running.wf', 'wf(final(self).jobs@)'),
        ('C06+C07.running.absent_unchanged', '!has_gid(old(self).jobs@, gid) ==> final(self).jobs@ == old(self).jobs@'),
        ('C06+C07.running.whole_view',
         'has_gid(old(self).jobs@, gid) ==> exists|k: i32| old(self).jobs@.contains_key(k) && #[trigger] old(self).jobs@[k].gid == gid '
         '&& final(self).jobs@.contains_key(k) && same_but(final(self).jobs@, old(self).jobs@, k) '
         '&& final(self).jobs@[k].pids_stopped@ =~= Set::<i32>::empty() && final(self).jobs@[k].status@ == "Running"@ && final(self).jobs@[k].is_bg == bg '
         '&& final(self).jobs@[k].pids@ == old(self).jobs@[k].pids@ && final(self).jobs@[k].id == k && final(self).jobs@[k].gid == gid'),
    ],
    loops=scan_loop(), let_types={'i': 'i32'})

mark_job_as_stopped = Fn(F, 'mark_job_as_stopped', impl='Shell', rewrites=TYRW,
    requires=[('C06.pre.wf', 'wf(old(self).jobs@)')],
    ensures=[
        ('C06+C07.stopped.wf', 'wf(final(self).jobs@)'),
        ('C06+C07.stopped.absent_unchanged', '!has_gid(old(self).jobs@, gid) ==> final(self).jobs@ == old(self).jobs@'),
        ('C06+C07.stopped.whole_view',
         'has_gid(old(self).jobs@, gid) ==> exists|k: i32| old(self).jobs@.contains_key(k) && #[trigger] old(self).jobs@[k].gid == gid '
         '&& final(self).jobs@.contains_key(k) && same_but(final(self).jobs@, old(self).jobs@, k) '
         '&& final(self).jobs@[k].pids_stopped@ == old(self).jobs@[k].pids_stopped@ && final(self).jobs@[k].status@ == "Stopped"@ && final(self).jobs@[k].is_bg '
         '&& final(self).jobs@[k].pids@ == old(self).jobs@[k].pids@ && final(self).jobs@[k].id == k && final(self).jobs@[k].gid == gid'),
    ],
    loops=scan_loop(), let_types={'i': 'i32'})

remove_pid_from_job = Fn(F, 'remove_pid_from_job', impl='Shell', ret='r',
    rewrites=TYRW + [Rw('x.pids.binary_search(&pid)', 'vx_binary_search(&x.pids, &pid)', required=False, rule='R12',
                        why='slice::binary_search through a shim carrying its real (sorted =>) std contract'),
                     Rw(r'([\w\.]+)\.iter\(\)\.position\(\|&(\w+)\|\s*\2\s*==\s*(\w+)\)', r'vx_position_i32(&\1, \3)', regex=True, required=False, rule='R12',
                        why='Iterator::position with an equality closure through a shim carrying its std contract')],
    requires=[('C06.pre.wf', 'wf(old(self).jobs@)')],
    ensures=[
        ('C06+C07.remove.absent_unchanged', '!has_gid(old(self).jobs@, gid) ==> final(self).jobs@ == old(self).jobs@ && r.is_none()'),
        ('C06+C07.remove.pid_gone_whole_view',
         'has_gid(old(self).jobs@, gid) ==> exists|k: i32| old(self).jobs@.contains_key(k) && #[trigger] old(self).jobs@[k].gid == gid '
         '&& same_but(final(self).jobs@, old(self).jobs@, k) '
         '&& ((!final(self).jobs@.contains_key(k) && r.is_some() && forall|p: i32| old(self).jobs@[k].pids@.contains(p) ==> p == pid) '
         '    || (r.is_none() && final(self).jobs@.contains_key(k) && removed_one(old(self).jobs@[k].pids@, final(self).jobs@[k].pids@, pid) '
         '        && !final(self).jobs@[k].pids@.contains(pid) && final(self).jobs@[k].pids@.len() > 0 '
         '        && job_after_remove(final(self).jobs@[k], old(self).jobs@[k], pid)))'),
        ('C06+C07.remove.wf', 'wf(final(self).jobs@)'),
    ],
    loops={0: Loop(invariant=[SCAN_INV[0]], invariant_except_break=SCAN_IEB + SCAN_INV[1:] + [('C06+C07.inv.rm_flag', '!empty_pids')],
                   ensures=[('C06+C07.remove.pid_removed_at_loop_exit',
                             '(i == 65535 && self.jobs@ == old(self).jobs@ && !has_gid(old(self).jobs@, gid) && !empty_pids) || '
                             '(1 <= i < 65535 && old(self).jobs@.contains_key(i) && old(self).jobs@[i].gid == gid && self.jobs@.contains_key(i) '
                             ' && same_but(self.jobs@, old(self).jobs@, i) && job_after_remove(self.jobs@[i], old(self).jobs@[i], pid) '
                             ' && removed_one(old(self).jobs@[i].pids@, self.jobs@[i].pids@, pid) && !self.jobs@[i].pids@.contains(pid) '
                             ' && self.jobs@[i].pids@.no_duplicates() && empty_pids == (self.jobs@[i].pids@.len() == 0))')],
                   decreases='65535 - i')},
    let_types={'i': 'i32'})

UNIT = Unit('U-JOBS', TEMPLATE,
    fns=[all_members_stopped, all_members_running, insert_job, get_job_by_id, get_job_by_gid, mark_job_member_continued,
         mark_job_member_stopped, mark_job_as_running, mark_job_as_stopped, remove_pid_from_job],
    types=[TypeItem('src/types.rs', 'struct', 'Job'),
           TypeItem('src/shell.rs', 'struct', 'Shell', rewrites=[Rw('types::Job', 'Job', rule='R0')])],
    props=('C06', 'C05'))

TRUSTED = common.TRUSTED_STR + [
    'std contracts assumed: HashMap::get_mut (written out), HashMap get/insert/remove/is_empty, HashSet insert/remove/contains/clear/is_empty, Vec push/remove/is_empty (vstd)',
    'slice::binary_search: Ok(i) => v[i]==x; Err => (sorted(v) => x not in v)  (its real std contract)',
    'machine arithmetic: fewer than 65533 concurrent jobs (C06.pre.capacity); job ids live in 1..65535 as the scanning loops assume',
    'caller-side facts assumed by insert_job: a job with the same gid has every smaller id occupied (no job is removed between the stages of one pipeline launch) and the pid is new',
]
