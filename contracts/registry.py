"""Which units (and extra engines) serve which property, plus MANIFEST metadata."""
UNITS = ['u_list']

PROPERTY_UNITS = {
    'C03': ['u_list'],
}
EXTRA_ENGINES = {}
HOOK_COMMITS = []

META = {
    'C03': {
        'text': 'Verus proves, for every token list line_to_cmds can return and every status sequence, that the real '
                'run_command_line loop runs exactly the pipelines the list semantics prescribes (left to right, && / || '
                'short-circuit, skip-and-continue), updates previous_status after each run and returns the results in order.',
        'note': 'run_proc is external (assumed to run the pipeline once and return its status); line_to_cmds is uninterpreted here; '
                'string equality / clone shims assumed (std); main.rs exit-with-previous_status lines read, not verified.',
    },
}

_PENDING = 'not yet brought under contract in this revision of /verif (work in progress; see DESIGN.md)'
NOT_APPLICABLE = {
    'C14': 'parse tree comes from a macro-generated pest parser and the external, lifetime-parameterised pest::iterators::Pair type; no contract within reach',
    'C16': '2-safety across five entry points; reduces to a tokenizer/pretty-printer round trip beyond the provable sub-language',
    'C18': 'semantics live in SQLite\'s SQL parser (bundled C library); SQL is built with format!, outside Verus',
    'C20': 'needs the lineread completer protocol, a populated filesystem and the escaped-word round trip (a recorded C01 violation)',
}
for _p in ['C01', 'C02', 'C04', 'C05', 'C06', 'C07', 'C08', 'C09', 'C10', 'C11', 'C12', 'C13', 'C15', 'C17', 'C19']:
    NOT_APPLICABLE.setdefault(_p, _PENDING)
