"""Which units (and extra engines) serve which property, plus MANIFEST metadata."""
UNITS = ['u_script', 'u_list', 'u_jobs', 'u_tok', 'u_plan', 'u_exp1', 'u_calc', 'u_exp2', 'u_wait', 'u_fd', 'u_env', 'u_args', 'u_proc', 'u_exp3', 'u_bfd', 'u_blt', 'u_jcmd', 'u_read', 'u_cmpl', 'u_bsh', 'u_sig', 'u_open']

PROPERTY_UNITS = {
    'C03': ['u_list', 'u_tok', 'u_fd', 'u_wait', 'u_script', 'u_exp2', 'u_sig', 'u_bfd', 'u_plan'],
    'C06': ['u_jobs', 'u_wait', 'u_jcmd', 'u_sig'],
    'C05': ['u_script', 'u_list', 'u_jobs', 'u_tok', 'u_plan', 'u_exp1', 'u_calc', 'u_exp2', 'u_wait', 'u_fd', 'u_env', 'u_args', 'u_proc', 'u_exp3', 'u_bfd', 'u_blt', 'u_jcmd', 'u_read', 'u_cmpl', 'u_bsh', 'u_sig', 'u_open'],
    'C01': ['u_plan', 'u_exp1', 'u_exp2', 'u_exp3', 'u_tok', 'u_fd', 'u_list'],
    'C13': ['u_plan', 'u_exp1', 'u_exp2', 'u_exp3'],
    'C12': ['u_exp1', 'u_exp2'],
    'C10': ['u_exp2', 'u_env', 'u_script', 'u_list', 'u_tok'],
    'C11': ['u_exp3', 'u_exp2', 'u_blt', 'u_plan', 'u_args', 'u_fd', 'u_exp1', 'u_bfd', 'u_script', 'u_proc'],
    'C07': ['u_fd', 'u_proc', 'u_plan', 'u_jobs', 'u_wait', 'u_jcmd', 'u_sig'],
    'C15': ['u_args', 'u_script', 'u_list', 'u_env', 'u_bsh'],
    'C14': ['u_script'],
    'C09': ['u_env', 'u_exp2', 'u_proc', 'u_read', 'u_fd'],
    'C02': ['u_fd', 'u_wait', 'u_plan', 'u_blt', 'u_sig'],
    'C04': ['u_fd', 'u_plan', 'u_bfd', 'u_blt', 'u_exp2', 'u_open'],
    'C08': ['u_fd', 'u_bfd', 'u_blt', 'u_open'],
    'C17': ['u_exp2', 'u_env'],
    'C19': ['u_calc', 'u_fd'],
}
from vx import kani_engine as _kani
from vx import axcheck as _ax
EXTRA_ENGINES = {'C19': [('kani', _kani.engine)], 'C05': [('kani', _kani.engine)]}
for _p in _ax.AXIOMS:
    EXTRA_ENGINES.setdefault(_p, []).append(('axcheck', _ax.engine_for(_p)))
# bounded stand-in: enumerated inputs through the real binary (labelled bounded in the evidence, never counted as proved)
from vx import bounded as _bd
from vx import cases as _cs
for _p in _cs.CASES:
    EXTRA_ENGINES.setdefault(_p, []).append(('bounded', _bd.engine(_p)))
from vx import hlcheck as _hl
EXTRA_ENGINES.setdefault('C05', []).append(('bounded:highlight', _hl.engine))
HOOK_COMMITS = ['431763a']

META = {
    'C03': {
        'text': 'Verus proves, for every token list line_to_cmds can return and every status sequence, that the real '
                'run_command_line loop runs exactly the pipelines the list semantics prescribes (left to right, && / || '
                'short-circuit, skip-and-continue), updates previous_status after each run and returns the results in order; and (U-TOK) that the list '
                'never contains an empty command (a blank tail after the last operator is not a pipeline), so the last pipeline run decides the status.',
        'note': 'run_proc is external (assumed to run the pipeline once and return its status); line_to_cmds is uninterpreted here; '
                'string equality / clone shims assumed (std); main.rs exit-with-previous_status lines read, not verified; `$?` is the leftmost-reference rule of expand_one_env (U-EXP2); the line is cut only at a `#` that starts a word; known finding (bounded): on a script line an escaped list operator loses its backslash.',
    },
}

META['C06'] = {
    'text': 'Verus proves whole-view postconditions and preservation of the table invariant (ids in 1..65535 equal to their key, non-empty duplicate-free '
            'pid lists, pairwise distinct group ids) for every job-table operation of Shell (insert_job: same group appends / new job takes the smallest '
            'free id; remove_pid_from_job: exactly that pid goes, the job goes iff it became empty; member stopped/continued; job running/stopped; lookups), '
            'for all tables and all pid orders; and for the event protocol (U-WAIT): wait_fg_job against an ADVERSARIAL waitpid (any valid event in any order) keeps the '
            'table well-formed, parks every event of a non-foreground child where the prompt-time poll finds it, returns exactly when every member has exited or is stopped '
            '(spec settled_at: the latest event of each member decides) and reports the status of the last stage\'s latest event; a job is Stopped exactly when all its live members '
            'are stopped (member continued -> Running; member removed -> re-evaluated); WaitStatus accessors; state transitions of the jobc layer.',
    'note': 'std HashMap/HashSet/Vec contracts (vstd; get_mut and binary_search/position written out); < 65533 jobs; insert_job caller facts '
            '(same-gid job has all smaller ids occupied, pid fresh) assumed; job-control event protocol (wait_fg_job / try_wait_bg_jobs) is U-WAIT; '
            'the two callers of waitpid (jobc::waitpidx, signals::handle_sigchld) are under contract in U-SIG: stops and continues are asked for, the call blocks exactly when told to, '
            'the (pid, kind, code) triple is the one of the kernel answer, every event is parked under its kind; the maps of signals.rs themselves are static state outside the verifier (bounded hook histories).',
}

META['C05'] = {
    'text': 'For every function brought under contract Verus discharges, for ALL inputs, every slice/Vec index, every unwrap/expect, every machine-integer '
            '+ - *, and a decreases measure for every loop and recursion (tokenizer, list splitter, list evaluation, planning, expansion passes, job table).',
    'note': 'the machine stack is treated as unbounded by the termination proofs: the recursion depth of the brace parser, of the substitution pass and of the calculator is bounded through tools::nesting_depth / MAX_NESTING (under contract, with the gates in front of the three recursions; the limit itself rests on a measurement); jobc::get_job_line cuts the command text at a character boundary; regex/glob/pest calls assumed not to panic or diverge; std contracts of vstd; functions outside the units (highlighter byte slicing, '
            'completion word-start, pty layer) are not covered by proof; see evidence.bounded for stand-ins.',
}

META['C01'] = {
    'text': 'Verus proves that every post-tokenizer planning pass consults the quote tag: pipe splitting is the exact inverse of joining at unquoted "|" tokens only; '
            'only an unquoted trailing "&" backgrounds; only unquoted "<" / "<<<" are taken as stdin redirection; quoted tokens and tokens without ">" pass '
            'tokens_to_redirections unchanged; composed: a planned token list of quoted/plain arguments becomes exactly one command with exactly those tokens. '
            'For the tokenizer itself: line_to_cmds\' quote/escape state equals a specified state machine (so quoted or escaped ; && || never split); parse_line keeps four '
            'state invariants: spaces are skipped only between words, a pending literal tag belongs to the word in progress, and the step that consumes a backslash-escaped '
            'operator / expansion character (> < & * ~ { ` $ |) tags the word as literal; expand_env skips literal- and backslash-tagged words; argv at exec is the token texts in order.',
    'note': 'the parse_line invariants are stated up to the first concatenated quoting ("a"\'b\', a"b"), which is not one of the property\'s argument forms (ghost scope flag); a full '
            'functional specification of parse_line is not claimed; two invariants hold also after concatenated quoting: the tag of an escaped character ends with its word, and nothing is appended to a closed backquoted command; the bounded engine enumerates quoted / escaped argument lists through the real binary; known finding (bounded): on a script line an escaped blank is lost.',
}
META['C13'] = {
    'text': 'The same tag-honouring contracts as C01 decide the double-quoted half: a token that still carries a quote tag after expansion is never split at "|", '
            'never taken as "&", "<", "<<<" or an output redirection, for all token texts. Unquoted half (after fix 8430d58): expand_env, both substitution passes and '
            'expand_glob tag a word as double-quoted when the value / output / file name brings | & < > into it (ghost record taken where the output is obtained), so the same '
            'tag-honouring contracts apply to it.',
    'note': 'only the untagged NAME=value words the line STARTS with are exempt (in_assignment_prefix, verified against assign_prefix: exactly the words that are taken off the '
            'line as assignments before operators are looked for; drain_env_tokens itself is external); a NAME=value shaped argument is tagged like any other word; '
            'a word in which a redirection is WRITTEN (outside its command substitutions: has_written_redirection verified against written_redir) is not tagged; '
            'has_operator_char is verified against its spec; glob::glob and the regexes are uninterpreted; known finding (bounded): a value or file name that spells a substitution is executed.',
}

META['C12'] = {
    'text': 'Verus proves for expand_brace, expand_glob and expand_brace_range that the final token list is exactly the specified splice: every rewritten token is unquoted and '
            'matches the gate, all other tokens stay where they are in order, each produced word list replaces its token in place, a word with a blank gets the double-quote tag; '
            'the numeric range is the inclusive arithmetic sequence toward the end bound (no overflow, terminates); a glob pattern never vanishes, hidden entries are filtered by '
            'the stated rule (last component, and no directory on the way that starts with a dot the pattern does not spell out); the recursive brace parser is memory-safe, '
            'terminates, and for EVERY word returns exactly the specified expansion (spec functions sp_item / sp_group: one word per alternative in order, cartesian product '
            'with the earlier group varying slowest, nesting, empty alternatives, a group without a comma is text, unbalanced braces are text); expand_brace puts exactly those words in place.',
    'note': 'regexes (gates, range captures), glob::glob and below_hidden_dir (str::split + glob::Pattern) are uninterpreted shims; str::parse::<i32> by its std contract; tokens '
            'shorter than 2^31 chars; the brace specification itself is validated against the examples of the statement by computation (lemma_brace_spec_examples) and, through '
            'the real binary, against an independent reference expansion of random terms (bounded); the text around {m..n} is kept (head + number + tail); expand_home in U-EXP2.',
}

META['C19'] = {
    'text': 'Kani proves on the full domain (every i64 pair, every operator; loop-free except the completely unwound 32-step pow loop) that the integer operator kernel '
            'extracted from eval_int never panics and that + - * are 64-bit wrapping and / is truncating division with / 0 yielding a value; Verus proves that literal '
            'parsing cannot unwrap an Err and that run_calculator selects float mode iff the line contains a dot.',
    'note': 'precedence/associativity (pest Pratt parser + grammar.pest) and is_arithmetic (regexes) are external and not covered; i64::pow modelled by its debug-build '
            'definition; std parse contracts; float arithmetic is IEEE by definition of f64; run_pipeline evaluates an arithmetic line before it looks up a function (U-FD).',
    'technique': 'Kani full-domain loop-free harness on the mechanically extracted kernel + Verus contracts on the extracted literal/mode code',
}

META['C10'] = {
    'text': 'Verus proves that the new text of every eligible word (not single-quoted, backquoted or backslash-tagged; gate says a reference is present) is env_expand(old text): '
            'the leftmost $NAME / ${NAME} / $? / $$ is replaced by its current value (process environment first, then shell variables, nothing if unset), the value is APPENDED and only '
            'the text after the reference is scanned again, so inserted values are never rescanned and the scan terminates (decreases: length of the rest); every other word keeps its text; '
            'the number of tokens never changes; tags change only from empty to double-quoted when the value brings an operator character (C13).',
    'note': 'the two reference patterns and the gate (env_in_token) are uninterpreted regexes: "group 3 is a proper suffix, head + reference + tail is the text" is validated on a bounded '
            'set by axcheck (env_ref); env::var / getpid through shims; the text of a command substitution is copied as it is (split_first_substitution external here, contract in U-EXP3); '
            'the variable store clauses of U-ENV are reported for C10 as well; no finding is listed.',
}
META['C17'] = {
    'text': 'Verus proves that expand_alias replaces exactly the words at head positions (line start or after an unquoted "|"; documented exception after a head `xargs`) that are '
            'aliases with a non-empty value, each by the tokenization of its value spliced in place in ONE pass (inserted words are never inspected again), everything else '
            'unchanged and in order; alias table operations have whole-map postconditions (add, lookup, unalias removes exactly n).',
    'note': 'HashMap<String,String> contracts stated over string views (shims); parse_line of the value uninterpreted; the listing line (format_alias) is under contract: the value '
            'is wrapped in a quote character it does not contain; the alias builtin\'s definition regex is not under contract (bounded cases); the xargs special case is cicada\'s documented behaviour and is part of the head-position definition.',
}

META['C02'] = {
    'text': 'Over a ghost kernel in which pipe()/dup()/open() may return ANY unused descriptor number, Verus proves that run_pipeline creates n-1 pipes, starts each stage at most '
            'once and in order, that the child of stage i reaches exec with stdin = read end of pipe i-1 and stdout = write end of pipe i (or the redirect), that no other pipe '
            'end survives in any child and that the shell closes its copies (so EOF can propagate); against an adversarial waitpid the foreground wait classifies every event and '
            'reports the status of the last stage\'s latest event (128+signal when killed).',
    'note': 'POSIX pipe/dup2/close/fork semantics assumed (ghost kernel contracts); that bytes written to a pipe arrive at its read end and EOF follows the last close is kernel '
            'behaviour (assumed); liveness of waitpid assumed; the wait listens to every child (waitpid(-1), a labelled precondition), every started foreground stage is waited for also under capture and the '
            'pipeline\'s status is the one the wait reports; known finding (bounded): a here-string larger than the pipes in a stage that is not the last blocks the shell.',
}
META['C04'] = {
    'text': 'Verus proves that at exec the descriptors 1 and 2 of a stage are exactly the result of applying its redirections left to right (N>&M copies what M refers to at that point; '
            '> truncates, >> appends) on top of the pipeline wiring, and descriptor 0 is the < file, the here-string pipe or the previous stage; redirect descriptors are 1 or 2; '
            'unopenable targets exit(1) before exec; only the redirected stage is affected (the shell\'s table is restored).',
    'note': 'regex captures of redirection spellings are uninterpreted (triples as produced), but the pending state of an operator whose target is the next word is proved to be that of '
            'the previous word; builtins\' own descriptor computation (_get_std_fds and the print helpers) is under contract in U-BFD; open(2) semantics assumed; '
            'input redirections are taken from left to right (the last one on the line is in effect), `<` / `<<<` may be glued to the word in front; for builtins: an unreadable `<` file or unopenable target fails the '
            'builtin without running it, redirected output is not captured; the here-string is the word followed by one newline; known finding (bounded): a word with two redirection operators glued together (`>a>b`) is dropped.',
}
META['C08'] = {
    'text': 'Verus proves, for every pipeline length, every redirection list and every choice of descriptor numbers by the kernel, that a spawned program starts with exactly {0,1,2} '
            'open (descriptors with FD_CLOEXEC are not counted) and that run_pipeline leaves the shell\'s descriptor table exactly as it found it on every path, including pipe() '
            'failure while creating the stage pipes or the capture pipes.',
    'note': 'precondition: the shell itself has only 0,1,2 (plus close-on-exec handles: history DB, log) when a pipeline starts; POSIX semantics assumed; builtins\' print helpers '
            '(dup of 1/2) are under contract in U-BFD (the table afterwards = the table before + exactly the descriptors handed back); a stage that cannot be started releases its descriptors and makes the pipeline\'s status non-zero; no finding is listed.',
}

META['C09'] = {
    'text': 'Over a ghost process environment and working directory, Verus proves per-operation contracts from which every history follows by induction: set_env changes the exported '
            'value iff the name is exported, else defines a shell variable only; get_env / expansion read the shell variable first, then the environment; unset (remove_env) '
            'removes the name from both (and the function of that name) iff it is an identifier, else changes nothing; cd: on success shell, $PWD and process directory all equal the '
            'canonical target and the previous directory is recorded, on any failure nothing changes and the status is 1; NAME=v lines assign every name.',
    'note': 'std::env and chdir semantics assumed (ghost model); filesystem queries uninterpreted; export (regex captures) and the child environment construction (inside the exec region) are '
            'not under contract (bounded: a prefix replaces an exported name); read is (U-READ: fields to the names in order, remainder to the last; field splitting itself uninterpreted); unquote is (U-TOK); '
            'HashMap contracts stated over string views; known finding (bounded): the value of an assignment is unquoted after expansion.',
}

META['C15'] = {
    'text': 'Verus proves that the positional-parameter pass replaces every $n / ${n} / $@ reference of a word left to right by the corresponding argument (nothing when missing, '
            'the arguments joined by blanks for $@), keeps the text in between, terminates, never touches single-quoted tokens nor any tag; that a function call '
            'runs its body with the positional parameters [name, words of the call] and that its status is that of the last command the body ran; and for the statement runners '
            '(run_lines, run_exp, run_exp_while, stopped_by_error; U-SCRIPT) that after set -e no statement, loop round or top-level statement is started once the last result is a '
            'failure, whatever kind of statement produced it, and that otherwise every statement of a body is started unless continue / break was met.',
    'note': 'the reference regex is uninterpreted (assumed: anchored, group 3 a proper suffix); the pest parse tree is opaque (text, rule and children of a node uninterpreted), '
            'run_exp_if / run_exp_for / run_exp_test_br / expand_line_to_toknes are under contract too (branches in order up to the first that passes; one round per word in order; the test results are kept; positional parameters before the other expansions), '
            'as are the exit and source builtins (U-BSH), Shell::set_func and run_script from the text of the file on (the functions of a file are defined as written before its other lines are run: line-by-line reading frun; locating and reading the file is an opaque shim; the header / closing-line patterns are uninterpreted, axiom fn_head); known finding (bounded): an argument is pasted into the line as text.',
}

META['C07'] = {
    'text': 'Hand-off protocol only. Over a ghost terminal-owner variable Verus proves: each stage reaches exec in the process group of the first stage (stage 0 leads its own group, '
            'the shell records that pid as the group id); the terminal is given only to the first stage of a foreground tty pipeline, never to a background one, and only if that is '
            'reported to the caller; run_proc takes the terminal back on every return path; a line is background exactly when its last token is an unquoted "&"; the job-state '
            'bookkeeping clauses shared with C06 (Stopped iff all members stopped as computed; no background event lost).',
    'note': 'the first stage of a foreground pipeline on a terminal IS offered the terminal (converse clause; POSIX: a new pid is not an existing group id); fg / bg apply the recorded child events before they look the job up; bg / fg are under contract (U-JCMD): the job found gets SIGCONT as a whole group, fg hands it the terminal, waits for all its members and takes the terminal back. '
            '`jobs` lists the table as it is after its own poll (U-JCMD). NOT covered (outside any single-call contract): what Ctrl-C / Ctrl-Z do, report-once, the parent-side setpgid (the race it closes is outside '
            'the sequential model); kernel tty layer and tcsetpgrp success assumed.',
}

META['C11'] = {
    'text': 'Verus proves that split_first_substitution returns the text before the first substitution of a word ($(..) with its MATCHING parenthesis, or a pair of backquotes), the command '
            'and the text after it, that these concatenate to the word and that the tail is shorter; that one step of the pass appends the head and the (trimmed) output literally and '
            'continues with the tail only, so an output is never looked at again, several substitutions in one word are handled in order and the scan terminates; that only words that are '
            'not single-quoted / escaped / whole-backquoted and contain a substitution change, an inner command is run at most once per planning, a builtin captures its output only as the '
            'last stage of a captured pipeline, and the two passes run in the fixed order.',
    'note': 'that the replacement is the command\'s stdout and the trimming are kernel / std behaviour; inner from_line / run_pipeline are external (contracts in U-PLAN / U-FD); '
            'the output loses its trailing newlines only (strip_nl), the inner stderr is passed on, a captured function call yields what its commands wrote, a captured pipeline reports its status; '
            'four known findings (bounded): brace pass on the inner text, builtins in $(..) change the shell, assignment values unquoted again, stderr larger than a pipe.',
}

META['C14'] = {
    'text': 'Partial: the interpreter half. Over an opaque parse tree (text, rule and children of a node uninterpreted) Verus proves for the real statement runners of scripting.rs, for every tree: '
            'run_exp hands the children of a body, in the order written, each to the runner of its kind (a command line to run_command_line after the positional-parameter pass; an if / for / while node '
            'to its runner, the if with the body\'s own in_loop flag; blank nodes skipped) -- spec evs_upto; a `continue` / `break` written in the body or met by an `if` of it ends the body at once and is '
            'reported to the caller and nobody else, none is passed over (exit_flags / exit_none), loops do not pass one on (by the type of run_exp_for / run_exp_while: they return results only); '
            'run_exp_if tries the branches written, in order, each inside the same loop as the if, up to and including the first whose test passes, and reports the continue / break of that branch; '
            'run_exp_test_br runs the tests of the heads written before the body (as written, after the positional-parameter pass), takes the branch iff the last pipeline of its test succeeded (or it is the else branch), '
            'runs the body exactly then, once, with the in_loop flag it was given and reports its continue / break; run_exp_while makes one call of the branch runner on the while node per round -- so the test is run again '
            'before every round -- as a loop body, and goes on exactly while the test passes and no break is met (a continue goes on to the next test); run_exp_for runs the body once per word in order with the '
            'variable set to it, as a loop body, and ends early only at a break (or a failure under set -e); run_lines runs every top-level node outside any loop, and a text the grammar rejects is diagnosed and nothing of it runs.',
    'note': 'which tree a script text HAS -- the pest grammar (grammar.pest, macro-generated parser, pest::iterators::Pair) -- is outside the verifier: nesting, the spellings of the keywords, and that unbalanced '
            'keywords are rejected (repair fb11690: the top-level rule must reach the end of the text) are decided by the bounded stand-in only (fixed cases per clause, 12 unbalanced scripts, generated '
            'nested programs against a reference interpreter of the structured semantics, through the real binary); get_for_var_name / get_for_result_list / get_for_result_from_init are under contract too (the variable is the first var node of the first init child; the list is made of the expanded test children in order, an unquoted token gives its blank-separated words, a quoted token is one word; str::split_whitespace itself uninterpreted); run_exp_while may not terminate (a script loop); '
            'the test child of a head is its first child (assumed, grammar).',
}

_PENDING = 'not yet brought under contract in this revision of /verif (work in progress; see DESIGN.md)'
NOT_APPLICABLE = {
    'C16': '2-safety across five entry points; reduces to a tokenizer/pretty-printer round trip beyond the provable sub-language',
    'C18': 'semantics live in SQLite\'s SQL parser (bundled C library); SQL is built with format!, outside Verus',
    'C20': 'needs the lineread completer protocol, a populated filesystem and the escaped-word round trip (a recorded C01 violation)',
}
for _p in []:
    NOT_APPLICABLE.setdefault(_p, _PENDING)
