"""U-CMPL: completers::escaped_word_start, the completion-boundary search run on every TAB (C05): for every line the returned
offset is a char boundary of the line (the caller slices `line[start..]` with it), and the search terminates without overflow."""
from vx.gen import Unit, Fn, TypeItem, Loop, Rw
from . import common

TEMPLATE = common.HEAD + common.STR_SHIMS + r'''
// UTF-8 length of a char (1..4) and the byte offset of the k-th char of a text
pub uninterp spec fn spec_len8(c: char) -> int;
#[verifier::external_body]
pub fn vx_len_utf8(c: char) -> (r: usize) ensures r as int == spec_len8(c), 1 <= r <= 4 { c.len_utf8() }
#[verifier::external_body]
pub proof fn axiom_len8(c: char) ensures 1 <= spec_len8(c) <= 4, (c == ' ' || c == '\\' || c == '"' || c == '\'') ==> spec_len8(c) == 1 { }
pub open spec fn bytes_upto(s: Seq<char>, k: int) -> int
    decreases k
{
    if k <= 0 { 0 } else { bytes_upto(s, k - 1) + spec_len8(s[k - 1]) }
}
// str::len() is the byte length; a str never exceeds isize::MAX bytes
#[verifier::external_body]
pub fn vx_str_byte_len(s: &str) -> (r: usize) ensures r as int == bytes_upto(s@, s@.len() as int) { s.len() }
#[verifier::external_body]
pub proof fn axiom_str_fits(s: Seq<char>) ensures bytes_upto(s, s.len() as int) <= isize::MAX as int { }
pub proof fn lemma_bytes_mono(s: Seq<char>, a: int, b: int)
    requires 0 <= a <= b <= s.len()
    ensures bytes_upto(s, a) <= bytes_upto(s, b), a <= bytes_upto(s, a)
    decreases b
{
    if a < b { axiom_len8(s[b - 1]); lemma_bytes_mono(s, a, b - 1); }
    else { if a > 0 { axiom_len8(s[a - 1]); lemma_bytes_mono(s, a - 1, a - 1); } }
}
// r is the byte offset at which some char of the line starts (or the end of the line)
pub open spec fn is_boundary(s: Seq<char>, r: int) -> bool { exists|k: int| 0 <= k <= s.len() && #[trigger] bytes_upto(s, k) == r }

//@FN escaped_word_start
''' + common.TAIL

ews = Fn('src/completers/mod.rs', 'escaped_word_start', ret='r',
    pre_rewrites=[Rw('c.len_utf8()', 'vx_len_utf8(c)', rule='R12', why='char::len_utf8 through a shim (1..4, value uninterpreted)'),
                  Rw('line.len()', 'vx_str_byte_len(line)', rule='R12', why='str::len is the byte length')],
    ensures=[('C05.cmpl.word_start_is_a_char_boundary_of_the_line', 'is_boundary(line@, r as int)')],
    loop_kinds={0: 'enumerate'},
    loops={0: Loop(invariant=[
        ('C05.inv.cmpl.offset', '__I as int + extra_bytes as int == bytes_upto(line@, __I as int) && __I <= line@.len()'),
        ('C05.inv.cmpl.boundary', 'is_boundary(line@, start_position as int)'),
    ])},
    hints={'fn-entry': 'axiom_str_fits(line@); assert(bytes_upto(line@, 0) == 0);',
           'loop-0-body-entry': 'axiom_str_fits(line@); axiom_len8(line@[__I as int]); lemma_bytes_mono(line@, __I as int + 1, line@.len() as int); '
                                'lemma_bytes_mono(line@, __I as int, line@.len() as int); assert(bytes_upto(line@, __I + 1) == bytes_upto(line@, __I as int) + spec_len8(line@[__I as int]));'},
)

UNIT = Unit('U-CMPL', TEMPLATE, fns=[ews], props=('C05',))
TRUSTED = common.TRUSTED_STR + [
    'char::len_utf8 is 1..4 and 1 for ASCII; str::len is the sum of the UTF-8 lengths of its chars and fits isize (std)',
    'the caller (lineread word_start / complete) slices the line at the returned offset: that slicing at a char boundary does not panic is std behaviour',
]
