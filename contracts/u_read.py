"""U-READ: the `read` builtin (C09): the fields of the input line are assigned to the named variables in order, a name without a field
gets the empty string, the last name gets the remainder; nothing is assigned on an error path."""
from vx.gen import Unit, Fn, TypeItem, Loop, Rw
from . import common

TEMPLATE = common.HEAD + common.STR_SHIMS + common.TOKEN_TYPES + r'''
//@TYPE Command
//@TYPE CommandLine
//@TYPE CommandResult
pub struct Shell { pub previous_status: i32 }
impl CommandResult {
//@FN CommandResult::new
}
impl Command {
    #[verifier::external_body]
    pub fn has_here_string(&self) -> (r: bool) { unimplemented!() }
    #[verifier::external_body]
    pub fn has_redirect_from(&self) -> (r: bool) { unimplemented!() }
}
pub struct VxIoErr2 { pub e: i32 }
// opening the file and reading its first line: I/O, opaque
#[verifier::external_body]
pub fn read_first_line(path: &str) -> (r: Result<String, VxIoErr2>) { unimplemented!() }
pub open spec fn strs(v: Seq<String>) -> Seq<Seq<char>> { v.map_values(|s: String| s@) }

// ghost log: the fields the line was split into, and every variable assignment made
pub ghost struct ReadLog { pub fields: Seq<Seq<char>>, pub sets: Seq<(Seq<char>, Seq<char>)> }
impl Shell {
    // Shell::set_env: contract proved in U-ENV (the variable store); here: what was assigned, in order
    #[verifier::external_body]
    pub fn set_env(&mut self, name: &str, value: &str, Tracked(lg): Tracked<&mut ReadLog>)
        ensures final(lg).sets == old(lg).sets.push((name@, value@)), final(lg).fields == old(lg).fields
    { unimplemented!() }
}
// tools::split_into_fields (IFS splitting into at most `max` fields, the last one being the rest of the line as it stands): uninterpreted;
// its result is what the contract calls "the fields of the line". It must be asked for as many fields as there are names: with fewer the
// last name would get one field instead of the remainder, with more the remainder would be cut into fields that are then dropped.
#[verifier::external_body]
pub fn split_into_fields(sh: &Shell, line: &str, envs: &HashMap<String, String>, max: usize, Ghost(names): Ghost<int>, Tracked(lg): Tracked<&mut ReadLog>) -> (r: Vec<String>)
    requires max as int == names //@L C09.read.the_line_is_split_into_as_many_fields_as_there_are_names_the_last_being_the_remainder
    ensures final(lg).fields == strs(r@), final(lg).sets == old(lg).sets, r@.len() <= max
{ unimplemented!() }
#[verifier::external_body]
pub fn _find_invalid_identifier(name_list: &Vec<String>) -> (r: Option<String>) { unimplemented!() }
#[verifier::external_body]
pub fn print_stderr_with_capture(info: &str, cr: &mut CommandResult, cl: &CommandLine, cmd: &Command, capture: bool) { unimplemented!() }
#[verifier::external_body]
pub fn vx_reply_list() -> (r: Vec<String>) ensures strs(r@) == seq!["REPLY"@] { vec!["REPLY".to_string()] }
#[verifier::external_body]
pub fn vx_token_texts_from1(tokens: &Tokens) -> (r: Vec<String>)
    requires tokens@.len() >= 1
    ensures r@.len() == tokens@.len() - 1, forall|i: int| 0 <= i < r@.len() ==> (#[trigger] r@[i])@ == tokens@[i + 1].1@
{ unimplemented!() }
pub struct VxIoErr { pub e: i32 }
#[verifier::external_body]
pub fn vx_stdin_read_line(buffer: &mut String) -> (r: Result<usize, VxIoErr>) { unimplemented!() }
#[verifier::external_body]
pub fn vx_push_str(s: &mut String, t: &str) ensures final(s)@ == old(s)@ + t@ { s.push_str(t) }
#[verifier::external_body]
pub fn vx_clone_envs(m: &HashMap<String, String>) -> (r: HashMap<String, String>) { m.clone() }
#[verifier::external_body]
pub fn vx_get_or_empty(v: &Vec<String>, i: usize) -> (r: String)
    ensures r@ == (if i < v@.len() { v@[i as int]@ } else { Seq::<char>::empty() })
{ v.get(i).unwrap_or(&String::new()).clone() }
// [a, b, c].join(" "): uninterpreted text of the sub-list (the remainder)
pub uninterp spec fn spec_join_sp(v: Seq<Seq<char>>) -> Seq<char>;
#[verifier::external_body]
pub fn vx_join_from(v: &Vec<String>, from: usize) -> (r: String)
    requires from <= v@.len()
    ensures r@ == spec_join_sp(strs(v@).subrange(from as int, v@.len() as int))
{ v[from..].join(" ") }

// THE SPECIFIED ASSIGNMENTS: names[i] := field i (or nothing) for every name but the last, which gets the remainder
pub open spec fn field_or_empty(f: Seq<Seq<char>>, i: int) -> Seq<char> { if 0 <= i < f.len() { f[i] } else { Seq::empty() } }
// the remainder is the k-th (last) field of a line split into k + 1 fields
pub open spec fn remainder(f: Seq<Seq<char>>, k: int) -> Seq<char> { field_or_empty(f, k) }
pub open spec fn read_sets(names: Seq<Seq<char>>, f: Seq<Seq<char>>, upto: int) -> Seq<(Seq<char>, Seq<char>)>
    decreases upto
{
    if upto <= 0 { Seq::empty() } else { read_sets(names, f, upto - 1).push((names[upto - 1], field_or_empty(f, upto - 1))) }
}
pub open spec fn read_all(names: Seq<Seq<char>>, f: Seq<Seq<char>>) -> Seq<(Seq<char>, Seq<char>)> {
    read_sets(names, f, names.len() - 1).push((names[names.len() - 1], remainder(f, names.len() - 1)))
}
pub open spec fn read_names(tokens: Seq<Token>) -> Seq<Seq<char>> {
    if tokens.len() <= 1 { seq!["REPLY"@] } else { Seq::new((tokens.len() - 1) as nat, |i: int| tokens[i + 1].1@) }
}

//@FN read_run
''' + common.TAIL

RW = [
    Rw('vec!["REPLY".to_string()]', 'vx_reply_list()', rule='R12', why='vec![..] of one literal through a shim'),
    Rw('tokens[1..].iter().map(|x| x.1.clone()).collect()', 'vx_token_texts_from1(&tokens)', rule='R11',
       why='iterator adapter chain (the texts of tokens[1..]) through a shim with that contract'),
    Rw('io::stdin().read_line(&mut buffer)', 'vx_stdin_read_line(&mut buffer)', rule='R3', why='reading a line from stdin: I/O, opaque'),
    Rw('buffer.push_str(&redirect_from.1);', 'vx_push_str(&mut buffer, &redirect_from.1);', rule='R12'),
    Rw('buffer.push_str(&line)', 'vx_push_str(&mut buffer, &line)', required=False, rule='R12'),
    Rw('cl.envs.clone()', 'vx_clone_envs(&cl.envs)', rule='R7'),
    Rw('tools::split_into_fields(', 'split_into_fields(', rule='R0'),
    Rw('value_list.get(i).unwrap_or(&String::new()).clone()', 'vx_get_or_empty(&value_list, i)', required=False, rule='R12',
       why='Vec::get(i).unwrap_or(empty) through a shim with that contract'),
    Rw('value_list[idx_2rd_last].clone()', 'vx_get_or_empty(&value_list, idx_2rd_last)', required=False, rule='R7', why='String clone of an element'),
]
read_run = Fn('src/builtins/read.rs', 'run', rename='read_run', ret='r', pre_rewrites=RW, clone_shims={'cmd.tokens': 'vx_clone_tokens'},
    add_params='Tracked(lg): Tracked<&mut ReadLog>', ghost_args={'set_env': 'Tracked(lg)', 'split_into_fields': 'Ghost(read_names(cmd.tokens@).len() as int), Tracked(lg)'},
    requires=[('C05.pre.read.command_has_a_word', 'cmd.tokens@.len() >= 1')],
    ensures=[('C09.read.fields_go_to_the_names_in_order_remainder_to_the_last',
              'final(lg).sets == old(lg).sets || final(lg).sets == old(lg).sets + read_all(read_names(cmd.tokens@), final(lg).fields)')],
    hints={'before-text:let idx_2rd_last': 'assert(tokens@.len() == cmd.tokens@.len()); '
                                           'assert forall|i: int| 0 <= i < tokens@.len() implies (#[trigger] tokens@[i]).1@ == cmd.tokens@[i].1@ by {} '
                                           'assert(strs(name_list@) =~= read_names(cmd.tokens@)); '
                                           'assert(lg.sets =~= old(lg).sets + read_sets(strs(name_list@), lg.fields, 0));'},
    loops={0: Loop(invariant=[
        ('C09.inv.read.assigned_so_far', 'lg.sets == old(lg).sets + read_sets(strs(name_list@), lg.fields, __I as int) && lg.fields == strs(value_list@) '
                                         '&& __HI == name_list@.len() - 1 && name_list@.len() >= 1 && strs(name_list@) == read_names(cmd.tokens@)'),
    ])},
)

UNIT = Unit('U-READ', TEMPLATE, fns=[read_run, Fn('src/types.rs', 'new', impl='CommandResult')],
            types=[TypeItem('src/types.rs', 'struct', 'Command'), TypeItem('src/types.rs', 'struct', 'CommandLine'), TypeItem('src/types.rs', 'struct', 'CommandResult')],
            props=('C09', 'C05'))
TRUSTED = common.TRUSTED_STR + [
    'tools::split_into_fields (IFS splitting) is uninterpreted: its result is "the fields of the line" (at most as many as asked for, the last being the rest of the line)',
    'Shell::set_env is external here (contract in U-ENV); reading stdin is I/O',
]
