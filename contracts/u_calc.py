"""U-CALC (Verus part): literal parsing in calculator::eval_int and the int/float mode switch of core::run_calculator (C19).
The integer operator kernel is decided by Kani (vx/kani_engine.py)."""
import os
import re
from vx.gen import Unit, Fn, TypeItem, Loop, Rw, REPO
from vx.rlex import lex, match_close, find_fn, line_of, LostAnchor
from vx.rules import is_p
from . import common

TEMPLATE = common.HEAD + common.STR_SHIMS + r'''
// str::parse::<i64>: Ok exactly for an optionally signed decimal that fits in 64 bits (std contract; value uninterpreted)
pub uninterp spec fn spec_parse_i64(t: Seq<char>) -> Option<int>;
#[derive(Debug)]
pub struct VxParseErr { pub e: i32 }
#[verifier::external_body]
pub fn vx_parse_i64(t: &str) -> (r: Result<i64, VxParseErr>)
    ensures match r { Ok(x) => spec_parse_i64(t@) == Some(x as int), Err(_) => spec_parse_i64(t@).is_none() }
{ unimplemented!() }
// parse::<f64>().unwrap_or(0.0) as i64 : float parsing and the saturating float->int cast never panic
#[verifier::external_body]
pub fn vx_parse_f64_or0_as_i64(t: &str) -> (r: i64) { unimplemented!() }

//@RAW primary_num

// ---- run_calculator: mode selection ----
pub struct VxPairs { pub n: i32 }
pub struct VxPestErr { pub n: i32 }
#[verifier::external_body]
pub fn calculate(line: &str, Tracked(pc): Tracked<&mut ParseCount>) -> (r: Result<VxPairs, VxPestErr>)
    requires deepest_at(line@, '(', ')', line@.len() as int) <= MAX_NESTING as int && count_of(line@, '^', line@.len() as int) <= MAX_NESTING as int,   //@L C05+C19.calc.the_parser_is_given_only_lines_within_the_nesting_limit
    ensures final(pc).parsed == old(pc).parsed + 1
{ unimplemented!() }
pub ghost struct ParseCount { pub parsed: int }
#[verifier::external_body]
pub proof fn new_parse_count() -> (tracked r: ParseCount) ensures r.parsed == 0 { unimplemented!() }
// calc.next().unwrap().into_inner(): the single `calculation` pair of a successful parse (pest iterator, trusted)
#[verifier::external_body]
pub fn vx_inner_expr(calc: VxPairs) -> (r: VxPairs) { unimplemented!() }
pub ghost struct CalcMode { pub used_float: bool, pub used_int: bool }
#[verifier::external_body]
pub fn eval_float(e: VxPairs, Tracked(md): Tracked<&mut CalcMode>) -> (r: f64)
    ensures final(md).used_float, final(md).used_int == old(md).used_int
{ unimplemented!() }
#[verifier::external_body]
pub fn eval_int(e: VxPairs, Tracked(md): Tracked<&mut CalcMode>) -> (r: i64)
    ensures final(md).used_int, final(md).used_float == old(md).used_float
{ unimplemented!() }
#[verifier::external_body]
pub fn vx_f64_to_string(x: f64) -> String { unimplemented!() }
#[verifier::external_body]
pub fn vx_i64_to_string(x: i64) -> String { unimplemented!() }

// ---- tools::nesting_depth (repair a105e61): how deep open .. close pairs are nested in a text at most; an open that is never closed counts ----
//@TYPE MAX_NESTING
// the limit itself: 1000 levels of the deepest of the three recursions (a full shell pass per `$(`) were measured to fit the 8 MB main stack of a debug build, 5000 not
pub proof fn chk_nesting_limit()
    requires MAX_NESTING <= 200,   //@L C05.nesting.the_limit_is_far_below_what_the_stack_was_measured_to_hold
{ }
''' + common.NESTING_SPEC + r'''
pub proof fn lemma_depth_bounds(t: Seq<char>, open: char, close: char, n: int)
    requires 0 <= n <= t.len()
    ensures 0 <= depth_at(t, open, close, n) <= n, 0 <= deepest_at(t, open, close, n) <= n, depth_at(t, open, close, n) <= deepest_at(t, open, close, n)
    decreases n
{
    if n > 0 { lemma_depth_bounds(t, open, close, n - 1); }
}
// how often a character occurs (str::matches(char).count(), through a shim)
pub open spec fn count_of(t: Seq<char>, c: char, n: int) -> int
    decreases n
{
    if n <= 0 { 0 } else { count_of(t, c, n - 1) + (if t[n - 1] == c { 1int } else { 0int }) }
}
#[verifier::external_body]
pub fn vx_count_char(t: &str, c: char) -> (r: usize) ensures r as int == count_of(t@, c, t@.len() as int) { t.matches(c).count() }
//@FN nesting_depth

//@FN run_calculator

// ---- try_run_calculator: the dispatcher in front of the calculator (C19): EVERY line that is arithmetic is evaluated as arithmetic ----
//@TYPE CommandResult
impl CommandResult {
//@FN CommandResult::new
//@FN CommandResult::from_status
}
pub uninterp spec fn spec_is_arith(line: Seq<char>) -> bool;
// tools::is_arithmetic (three regexes): the classification rule itself, uninterpreted here (bounded: all short strings over the arithmetic alphabet)
#[verifier::external_body]
pub fn is_arithmetic(line: &str) -> (r: bool) ensures r == spec_is_arith(line@) { unimplemented!() }
#[verifier::external_body]
pub proof fn new_mode() -> (tracked r: CalcMode) ensures !r.used_float && !r.used_int { unimplemented!() }
pub struct VxIoErr { pub e: i32 }
#[verifier::external_body]
pub fn vx_println(s: &String) -> (r: Result<(), VxIoErr>) { unimplemented!() }
#[verifier::external_body]
pub fn vx_eprintln_io(e: &VxIoErr) { }
#[verifier::external_body]
pub fn vx_eprintln_calc(s: &str) { }
//@FN try_run_calculator
''' + common.TAIL


def gen_primary(g, canary):
    """R11: the `Rule::num => ..` arm of the closure passed to map_primary in eval_int, emitted as a named fn."""
    SRC = 'src/calculator/mod.rs'
    src = open(os.path.join(REPO, SRC), encoding='utf-8').read()
    s, e = find_fn(src, 'eval_int')
    item = src[s:e]
    m = re.search(r'\.map_primary\(\|(\w+)\|\s*match\s+\1\.as_rule\(\)\s*\{\s*Rule::num\s*=>\s*(.*?),?\s*Rule::expr\s*=>', item, re.S)
    if not m:
        raise LostAnchor('eval_int: map_primary closure / Rule::num arm not found')
    var, arm = m.group(1), m.group(2).strip()
    l0 = line_of(src, s + m.start(2))
    before = arm
    arm = arm.replace('%s.as_str()' % var, 's')
    arm = re.sub(r's\.parse::<f64>\(\)\.unwrap_or\(0\.0\) as i64', 'vx_parse_f64_or0_as_i64(s)', arm)
    arm = re.sub(r's\.parse::<i64>\(\)', 'vx_parse_i64(s)', arm)
    g.rewrites.append({'rule': 'R11', 'fn': 'eval_int.map_primary.num', 'before': 'Rule::num => ' + before,
                       'after': 'pub fn vx_primary_num(s: &str) -> i64 { ' + arm + ' }   (primary.as_str() -> s; str::parse through shims)'})
    org = {'origin': 'repo', 'file': SRC, 'line': l0, 'fn': 'eval_int.map_primary.num', 'props': ('C19',)}
    g.fn_info['eval_int.map_primary.num'] = {'file': SRC, 'line_start': l0, 'line_end': l0 + before.count('\n')}
    g.add('pub fn vx_primary_num(s: &str) -> (r: i64)', org)
    g.add('{', org)
    if canary:
        g.canary_lines[len(g.lines) + 1] = 'eval_int.map_primary.num:fn-entry'
        g.add('    assert(false);', {'origin': 'canary', 'fn': 'eval_int.map_primary.num', 'where': 'fn-entry'})
    for i, ln in enumerate(arm.split('\n')):
        g.add('    ' + ln, dict(org, line=l0 + i))
    g.add('}', org)


nesting_depth = Fn('src/tools.rs', 'nesting_depth', ret='r', loop_kinds={0: 'chars'}, props=('C05', 'C19', 'C12', 'C11'),
    ensures=[('C05.nesting.the_depth_is_the_deepest_the_running_count_of_open_pairs_gets', 'r as int == nest(text@, open, close)')],
    loops={0: Loop(invariant=[('C05.inv.nesting.count', '__v0@ == text@ && depth as int == depth_at(text@, open, close, __i0 as int) && deepest as int == deepest_at(text@, open, close, __i0 as int) '
                                                         '&& deepest <= __i0 && depth <= deepest')])},
    hints={'fn-entry': 'chk_nesting_limit();', 'loop-0-body-entry': 'lemma_depth_bounds(text@, open, close, __i0 as int); lemma_depth_bounds(text@, open, close, __i0 as int + 1);'},
)
run_calculator = Fn('src/core.rs', 'run_calculator', ret='r',
    add_params='Tracked(md): Tracked<&mut CalcMode>, Tracked(pc): Tracked<&mut ParseCount>',
    ghost_args={'eval_float': 'Tracked(md)', 'eval_int': 'Tracked(md)', 'calculate': 'Tracked(pc)'},
    pre_rewrites=[
        Rw('calculator::calculate(', 'calculate(', rule='R0', required=False), Rw(r'format!\("\{\}", (calculator::eval_float\(expr\))\)', r'vx_f64_to_string(\1)', regex=True, rule='R4', why='Display for f64 (opaque)'),
        Rw(r'format!\("\{\}", (calculator::eval_int\(expr\))\)', r'vx_i64_to_string(\1)', regex=True, rule='R4', why='Display for i64 (opaque)'),
        Rw('tools::nesting_depth(', 'nesting_depth(', rule='R0'), Rw('tools::MAX_NESTING', 'MAX_NESTING', rule='R0'),
        Rw("line.matches('^').count()", "vx_count_char(line, '^')", rule='R12', why='str::matches(char).count() through a shim: the number of occurrences'),
        Rw('calc.next().unwrap().into_inner()', 'vx_inner_expr(calc)', rule='R10',
           why='pest iterator: first pair of a successful parse (trusted)'),
        Rw('Ok(mut calc)', 'Ok(calc)', rule='R10', required=False),
        Rw('Result<String, &str>', "Result<String, &'static str>", rule='R13', required=False,
           why='lifetime made explicit (the added ghost parameter defeats elision); the error is a string literal'),
    ],
    requires=[('C19.pre.mode_fresh', '!old(md).used_float && !old(md).used_int')],
    ensures=[('C19.mode.float_iff_dot',
              'match r { Ok(_) => final(md).used_float == line@.contains(\'.\') && final(md).used_int == !line@.contains(\'.\'), '
              'Err(_) => !final(md).used_float && !final(md).used_int }'),
             ('C05+C19.calc.a_line_nested_deeper_than_the_limit_is_rejected_before_it_is_parsed',
              '(deepest_at(line@, \'(\', \')\', line@.len() as int) > MAX_NESTING as int || count_of(line@, \'^\', line@.len() as int) > MAX_NESTING as int) ==> r.is_err() && final(pc).parsed == old(pc).parsed')],
    props=('C19',),
)

try_run_calculator = Fn('src/core.rs', 'try_run_calculator', ret='r', props=('C19',),
    pre_rewrites=[Rw('tools::is_arithmetic(', 'is_arithmetic(', rule='R0'),
                  Rw('writeln!(std::io::stdout(), "{}", result)', 'vx_println(&result)', rule='R3', why='printing the result: a write that can fail (closed or full stdout)'),
                  Rw('println_stderr!("cicada: calculator: {}", err);', 'vx_eprintln_io(&err);', rule='R3', why='printing the diagnostic'),
                  Rw('println_stderr!("cicada: calculator: {}", e);', 'vx_eprintln_calc(e);', rule='R3', why='printing the diagnostic'),
                  Rw('e.to_string()', 'vx_s(e)', rule='R7', required=False)],
    ghost_args={'run_calculator': 'Tracked(&mut md), Tracked(&mut pc)'},
    hints={'before-call:run_calculator': 'RAW: let tracked mut md = new_mode(); let tracked mut pc = new_parse_count();'},
    ensures=[('C19.dispatch.a_line_is_evaluated_as_arithmetic_exactly_when_it_is_classified_as_arithmetic', 'r.is_some() == spec_is_arith(line@)'),
             ],
)
UNIT = Unit('U-CALC', TEMPLATE, fns=[nesting_depth, run_calculator, try_run_calculator, Fn('src/types.rs', 'new', impl='CommandResult'), Fn('src/types.rs', 'from_status', impl='CommandResult')],
            types=[TypeItem('src/types.rs', 'struct', 'CommandResult'), TypeItem('src/tools.rs', 'const', 'MAX_NESTING')], raw={'primary_num': gen_primary}, props=('C19', 'C05'))
TRUSTED = common.TRUSTED_STR + [
    'the machine stack is treated as unbounded: termination (decreases) is proved for the recursive brace parser, the substitution pass and the callers of the calculator, their recursion DEPTH is not; it is bounded by tools::MAX_NESTING (<= 200 required; 1000 levels were measured to fit the 8 MB main stack of a debug build) through the gates need_expand_brace / should_do_dollar_command_extension / run_calculator, which are under contract',
    'str::parse::<i64> / parse::<f64>: std contracts (Ok iff a decimal in range); float->int `as` cast saturates (never panics)',
    'pest: calculator::calculate and the Pairs iterator are external; calc.next().unwrap() on a successful parse is trusted',
    'eval_float / eval_int are external here (their operator kernel is proved by Kani); Display for i64/f64 opaque',
]
